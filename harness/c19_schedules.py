"""C19 — temperature and proposal-scale schedules stay within their documented envelopes.

Correspondence
  * temperature: real algorithm objects (`AlgorithmSettings` + `algorithm_factory`, fit and personalise
    algorithms) driven through `_initialize_annealing()` / `_update_temperature()` for every iteration,
    against `Model/Anneal.lean` (run on IEEE doubles, compared bit for bit);
  * proposal scale: real sampler objects (`sampler_factory`) whose `sample()` is called with a stub
    state and injected acceptance decisions, against `Model/StdAdapt.lean` (run on float32, bit for bit);
  * real short fits / personalisations with call-through recording of both schedules;
  * composition of the loops (`Model/FitLoop.lean`): real short fits and mean/mode-posterior personalisations whose
    sampler calls (with the `temperature_inv` they receive), maximisation steps (burn-in flag, memory-less or not),
    kept draws and temperature updates are recorded in call order and compared, event by event and bit for bit,
    with the model's event list.
The property's own predicate is evaluated on the implementation's behaviour independently of Lean.
"""
from __future__ import annotations

import itertools
import math
import re
import warnings
from fractions import Fraction

from . import core
from .core import fmt_float, fmt_list, parse_float, split_ne

PROP = "C19"
LEAN = dict(
    props="LeaspyVerif.Props.C19",
    driver="drivers/C19.lean",
    harness="c19_schedules.py",
    extra_modules=["LeaspyVerif.Model.Anneal", "LeaspyVerif.Model.StdAdapt", "LeaspyVerif.Model.Saem",
                   "LeaspyVerif.Model.FitLoop"],
    theorems=["accepted_runs_to_completion", "run_spec", "temp_start", "temp_ge_one", "temp_antitone",
              "temp_antitone_le", "temp_changes_only_at_multiples", "temp_closed_form",
              "clamp_is_noop_in_exact_arithmetic", "temp_one_after_partial", "temp_one_from_last_boundary",
              "temp_one_after_counterexample", "period_zero_counterexample", "no_anneal_const_one", "accepted_iff",
              "std_factor_exact", "counter_counts_calls", "window_is_last_L", "window_length",
              "window_is_last_L_decisions", "std_pos", "std_changes_only_at_multiples",
              "std_only_out_of_band", "trace_spec",
              "loop_run_spec", "samplers_receive_previous_temperature",
              "first_iteration_samples_at_initial_temperature", "sampler_tinv_in_unit_interval",
              "sampler_tinv_monotone", "sampler_tinv_one_after_annealing_partial",
              "sampler_tinv_one_without_annealing", "sampler_tinv_one_after_annealing_counterexample",
              "one_call_each_per_iteration", "mstep_flags", "personalize_keeps_iff", "personalize_kept_count"],
    trusted_extra=[
        "theorems are over an arbitrary ordered field (exact arithmetic); the executable instances are IEEE double "
        "(temperature) and float32 (proposal scale), compared bit for bit with python/torch",
        "torch semantics assumed by Params.ofDoubles (checked by the bitwise comparison): float32 mean = sum / count, "
        "python scalars rounded to float32 before `<`, `>` and `*=`",
        "Lean Float/Float32 `+ - * / <` are the C operations on IEEE binary64/binary32",
        "loop composition: the outcome of `random.shuffle` is an input of the model (hypothesis `ValidOrder`: a permutation of "
        "all latent variables; checked on every recorded run); `temperature_inv` is modelled as `1 / temperature` "
        "(the attribute is re-assigned at every change; checked bitwise)",
    ],
    assumptions=[
        "default (non-oscillating) annealing scheme; finite initial temperature; n_plateau a python int "
        "(other types: only the refusal is checked)",
        "acceptation_history_length >= 1 (0 is accepted by the sampler constructor and divides by zero in `_update_std`; "
        "the scale clause of the property says nothing about it, reported in the evidence as `window0`)",
        "float32 underflow/overflow of the scale after ~1e3 consecutive adaptations in one direction is outside the "
        "exact-arithmetic theorems and not generated",
        "loop composition: what the samplers / `update_parameters` do with the values they receive is C03 / C04 / C05; "
        "`n_burn_in_iter >= n_iter` in a personalisation (no draw kept, `torch.stack` of an empty list raises) is not generated; "
        "the output manager (logging) is not part of the event list (C11)",
        "band edges: bounds are read as the decimal numbers written by the user; a window mean within 1e-6 of a bound "
        "without being equal is counted as ambiguous and excluded from the predicate (never from the bitwise comparison)",
    ],
)

ALGOS = ["mcmc_saem", "mean_posterior", "mode_posterior"]
FRACS = [0.0, 0.1, 0.2, 0.3, 0.4, 0.5, 0.6, 0.7, 0.8, 0.9, 1.0]
T0S = [1, 1.5, 2, 3.3, 5, 10]

_ENV = None


def _imports():
    global _ENV
    if _ENV is not None:
        return _ENV
    warnings.filterwarnings("ignore")
    import leaspy.models  # noqa: F401  (must precede leaspy.variables)
    import numpy as np
    import torch
    from leaspy.algo import AlgorithmSettings, algorithm_factory
    from leaspy.exceptions import LeaspyAlgoInputError, LeaspyInputError
    from leaspy.samplers import sampler_factory
    from leaspy.variables.specs import IndividualLatentVariable, PopulationLatentVariable
    _ENV = dict(torch=torch, np=np, AlgorithmSettings=AlgorithmSettings, algorithm_factory=algorithm_factory,
                LAIE=LeaspyAlgoInputError, LIE=LeaspyInputError, sampler_factory=sampler_factory,
                Ind=IndividualLatentVariable, Pop=PopulationLatentVariable)
    return _ENV


def err_class(env, e):
    if isinstance(e, env["LAIE"]):
        return "err:algo"
    if isinstance(e, env["LIE"]):
        return "err:input"
    return f"err:other:{type(e).__name__}"


# =====================================================================================================
# temperature
# =====================================================================================================
def temp_case_json(c):
    algo, n_iter, on, T0, P, na, frac = c
    return {"kind": "temp", "algo": algo, "n_iter": n_iter, "do_annealing": on, "initial_temperature": T0,
            "n_plateau": P, "annealing_n_iter": na, "annealing_n_iter_frac": frac}


def temp_case_from_json(j):
    return (j["algo"], j["n_iter"], j["do_annealing"], j["initial_temperature"], j["n_plateau"],
            j["annealing_n_iter"], j["annealing_n_iter_frac"])


ANNEALING_DEFAULTS = dict(initial_temperature=10, n_plateau=10, n_iter=None, n_iter_frac=0.5)   # documented defaults (all three algorithms)


def _np_typed(x, np):
    if isinstance(x, bool) or x is None:
        return x
    if isinstance(x, int):
        return np.int64(x)
    if isinstance(x, float):
        return np.float64(x)
    return x


class SettingsWrittenBack(Exception):
    pass


def _build_temp_algo(env, c, how):
    """The real algorithm object of configuration `c`, built the way `how` says:
      omit    = [keys of the annealing dictionary left out by the caller] (their documented defaults then apply; `c` carries them)
      via     = "json": the settings are saved with `AlgorithmSettings.save` and read back with `AlgorithmSettings.load`
      numpy   = True: n_iter, initial temperature, annealing count and fraction given as numpy scalars (n_plateau stays an int)
      reconf  = {"first": annealing dict the object is BUILT with, "when": "before" | "between"}: the annealing dictionary of `c`
                is given afterwards through the documented `load_parameters` — before the first run, or between a complete first
                run and the second one; the schedule observed after that must be the one of `c`."""
    import os
    import tempfile
    algo_name, n_iter, on, T0, P, na, frac = c
    how = how or {}
    ann = dict(do_annealing=on, initial_temperature=T0, n_plateau=P, n_iter=na, n_iter_frac=frac)
    n_iter_arg = n_iter
    if how.get("numpy"):
        np = env["np"]
        ann.update(initial_temperature=_np_typed(T0, np), n_iter=_np_typed(na, np), n_iter_frac=_np_typed(frac, np))
        n_iter_arg = _np_typed(n_iter, np)
    given = {k: v for k, v in ann.items() if k not in (how.get("omit") or [])}
    first = how["reconf"]["first"] if how.get("reconf") else given
    with warnings.catch_warnings():
        warnings.simplefilter("ignore")
        settings = env["AlgorithmSettings"](algo_name, n_iter=n_iter_arg, seed=0, progress_bar=False, annealing=dict(first))
        if how.get("via") == "json":
            fd, path = tempfile.mkstemp(suffix=".json", prefix="c19_settings_")
            os.close(fd)
            try:
                with core.quiet():
                    settings.save(path)
                    settings = env["AlgorithmSettings"].load(path)
            finally:
                os.unlink(path)
        if how.get("reused"):
            # ONE settings object serves several algorithms (a short trial run first, then the real one): building an algorithm
            # must not write anything back into the settings, and the later algorithm follows the settings as they are then
            import copy as _copy
            settings.parameters["n_iter"] = how["reused"]
            before = _copy.deepcopy(settings.parameters)
            trial = env["algorithm_factory"](settings)
            try:
                trial._initialize_annealing()
            except Exception:  # noqa
                pass
            if settings.parameters != before:
                changed = sorted(k for k in before if settings.parameters.get(k) != before[k])
                raise SettingsWrittenBack(f"building (and initialising) an algorithm modified the settings it was built from: {changed} "
                                          f"-> {[settings.parameters.get(k) for k in changed]}")
            settings.parameters["n_iter"] = n_iter_arg
        algo = env["algorithm_factory"](settings)
        if how.get("reconf"):
            if how["reconf"]["when"] == "between":
                algo._initialize_annealing()
                for k in range(1, n_iter + 1):
                    algo.current_iteration = k
                    algo._update_temperature()
            with core.quiet():
                algo.load_parameters({"annealing": dict(given)})
    return algo


def run_temp(env, c, how=None):
    """Drive the real mixin: constructor, `_initialize_annealing`, then `_update_temperature` per iteration."""
    algo_name, n_iter, on, T0, P, na, frac = c
    try:
        algo = _build_temp_algo(env, c, how)
    except SettingsWrittenBack as e:
        return {"stage": "ctor", "outcome": "err:other:SettingsWrittenBack", "settings_written_back": str(e)}
    except Exception as e:  # noqa
        return {"stage": "ctor", "outcome": err_class(env, e)}
    res = {"na": algo.algo_parameters["annealing"].get("n_iter")}
    try:
        with warnings.catch_warnings():
            warnings.simplefilter("ignore")
            algo._initialize_annealing()
    except Exception as e:  # noqa
        res.update(stage="init", outcome=err_class(env, e))
        return res
    T, Tinv = [algo.temperature], [algo.temperature_inv]
    k = 0
    try:
        for k in range(1, n_iter + 1):
            algo.current_iteration = k
            algo._update_temperature()
            T.append(algo.temperature)
            Tinv.append(algo.temperature_inv)
    except Exception as e:  # noqa
        res.update(stage="run", outcome=err_class(env, e), at=k, T=T, Tinv=Tinv)
        return res
    res.update(stage="done", outcome="ok", T=T, Tinv=Tinv)
    # the same algorithm object used for a second run (e.g. a cross-validation loop): the schedule starts again
    try:
        with warnings.catch_warnings():
            warnings.simplefilter("ignore")
            algo._initialize_annealing()
        T2 = [algo.temperature]
        for k in range(1, n_iter + 1):
            algo.current_iteration = k
            algo._update_temperature()
            T2.append(algo.temperature)
        res["T_second_run"] = T2
    except Exception as e:  # noqa
        res["T_second_run"] = err_class(env, e)
    return res


def expected_na(c):
    _, n_iter, on, T0, P, na, frac = c
    if na is not None:
        return na
    if frac is None:
        return None
    return int(frac * n_iter)


def is_plain_int(x):
    return isinstance(x, int) and not isinstance(x, bool)


def temp_predicate(c, res):
    """C19 (temperature clauses) on the observed behaviour. Returns [(what, finding-id or None)]."""
    algo, n_iter, on, T0, P, na, frac = c
    fails = []
    if res.get("settings_written_back"):
        return [(res["settings_written_back"], None)]
    n_a = expected_na(c)
    if not on:
        if res["stage"] != "done":
            return [(f"annealing off but {res['stage']} raised {res['outcome']}", None)]
        bad = [k for k, t in enumerate(res["T"]) if not t == 1]
        if bad:
            fails.append((f"annealing off: temperature {res['T'][bad[0]]!r} at iteration {bad[0]} (should be constantly 1)", None))
        return fails
    documented_valid = (n_a is not None and is_plain_int(P) and P >= 1
                        and ((P == 1 and T0 >= 1) or (P >= 2 and T0 > 1 and n_a >= P - 1)))
    if res["stage"] in ("ctor", "init"):
        if res["outcome"] != "err:algo":
            fid = "F5c" if (res["stage"] == "init" and T0 == 0) else None
            fails.append((f"configuration neither accepted nor refused with an algorithm-input error: "
                          f"{res['stage']} raised {res['outcome']}", fid))
        elif documented_valid:
            fails.append((f"valid configuration refused at {res['stage']}", None))
        return fails
    # accepted configuration
    if not is_plain_int(P) and not isinstance(P, bool):
        fails.append((f"n_plateau={P!r} (not an int) accepted", None))
        return fails
    if res["stage"] == "run":
        fid = "F4" if (res["outcome"] == "err:other:ZeroDivisionError" and P >= 2 and n_a is not None and n_a < P - 1) else None
        fails.append((f"accepted configuration does not run to completion: {res['outcome']} at iteration {res['at']}", fid))
        return fails
    T = res["T"]
    if len(T) != n_iter + 1:
        fails.append((f"{len(T)} temperatures for {n_iter} iterations", None))
        return fails
    if res["na"] != n_a:
        fails.append((f"annealing iterations {res['na']!r}, configured {n_a!r}", None))
    if T0 != T0:
        fails.append(("an initial temperature of NaN is accepted (no temperature clause can hold: NaN is neither >= 1 nor comparable)", None))
        return fails
    if not T[0] == T0:
        fails.append((f"starts at {T[0]!r}, initial temperature is {T0!r}", None))
    period = (n_a // (P - 1)) if (P >= 2 and n_a is not None) else None
    for k in range(n_iter + 1):
        t = T[k]
        if not t >= 1:
            fails.append((f"temperature {t!r} < 1 at iteration {k}", "F5c" if (P == 1 and T0 < 1) else None))
            break
    for k in range(1, n_iter + 1):
        if not T[k] <= T[k - 1]:
            fails.append((f"temperature increases at iteration {k}: {T[k-1]!r} -> {T[k]!r}", None))
            break
    for k in range(1, n_iter + 1):
        if T[k] != T[k - 1]:
            if not (period is not None and period > 0 and k <= n_a and k % period == 0):
                fails.append((f"temperature changes at iteration {k}, not a plateau boundary "
                              f"(plateau length {period}, annealing iterations {n_a})", None))
                break
    start = max(n_a, 0) if n_a is not None else 0
    for k in range(start, n_iter + 1):
        if not T[k] == 1:
            if P == 1 and T0 > 1:
                fid = "F5b"
            elif P >= 2 and 1 < T[k] < 1 + 1e-9:
                fid = "F5a"
            elif P >= 2 and n_a < P - 1:
                fid = "F4"
            else:
                fid = None
            fails.append((f"temperature {T[k]!r} != 1 at iteration {k} although the {n_a} annealing iterations are over", fid))
            break
    for k in range(n_iter + 1):
        if T[k] != 0 and res["Tinv"][k] != 1 / T[k]:
            fails.append((f"temperature_inv {res['Tinv'][k]!r} != 1/temperature at iteration {k}", None))
            break
    if res.get("stage") == "done" and "T_second_run" in res and res["T_second_run"] != res["T"]:
        t2 = res["T_second_run"]
        fails.append(("a second run of the same algorithm object does not follow the temperature schedule again: "
                      + (f"it starts at {t2[0]!r} instead of {res['T'][0]!r}" if isinstance(t2, list) and t2 and t2[0] != res["T"][0]
                         else f"second run {str(t2)[:80]} vs first {str(res['T'])[:80]}"), None))
    return fails


def temp_request(c):
    algo, n_iter, on, T0, P, na, frac = c
    return (f"anneal niter={n_iter} on={1 if on else 0} t0={fmt_float(float(T0))} P={P} "
            f"na={'none' if na is None else na} frac={'none' if frac is None else fmt_float(float(frac))} clamp=1")


def temp_canon(res, on=True):
    """Implementation outcome in the driver's syntax."""
    if res["stage"] in ("ctor", "init"):
        return "refused " + res["outcome"]
    if res["stage"] == "run":
        o = res["outcome"]
        return "crash " + ("err:zerodiv" if o == "err:other:ZeroDivisionError" else o)
    na = res["na"] if on else None  # annealing off: the count is never looked at
    return f"ok na={'-' if na is None else na} T={fmt_list([fmt_float(float(t)) for t in res['T']])}"


def temp_modelable(c):
    algo, n_iter, on, T0, P, na, frac = c
    return is_plain_int(P) and (na is None or is_plain_int(na)) and math.isfinite(float(T0))


def temp_nontrivial(c, res):
    """At least one temperature change, or a refusal, or a single-plateau run."""
    if res["stage"] != "done":
        return True
    return len(set(res["T"])) > 1 or c[4] == 1


def anchor_temp_cases():
    """Witnesses of the findings (F4, F5a, F5b, F5c) and hand-picked boundary configurations."""
    return [
        ("mcmc_saem", 10, True, 10, 10, None, 0.5),      # F4: period 0
        ("mcmc_saem", 10, True, 5, 3, 0, None),          # F4 family: no annealing iteration at all
        ("mcmc_saem", 10, True, 5, 3, -4, None),         # negative count
        ("mcmc_saem", 100, True, 5, 8, None, 0.5),       # F5a: 1.0000000000000013
        ("mean_posterior", 100, True, 5, 8, None, 0.5),
        ("mcmc_saem", 100, True, 5, 1, None, 0.5),       # F5b
        ("mcmc_saem", 20, True, 0.5, 1, None, 0.5),      # F5c
        ("mcmc_saem", 20, True, 0, 1, None, 0.5),        # F5c: 1/0
        ("mcmc_saem", 20, True, -2, 1, None, 0.5),
        ("mcmc_saem", 20, True, 0, 4, None, 0.5),
        ("mcmc_saem", 20, True, 1, 1, None, 0.5),        # T0 = 1 single plateau: constant 1
        ("mcmc_saem", 20, True, 1, 4, None, 0.5),        # refused (decrement 0)
        ("mcmc_saem", 20, True, 5, 0, None, 0.5),
        ("mcmc_saem", 20, True, 5, -3, None, 0.5),
        ("mcmc_saem", 20, True, 5, 2.0, None, 0.5),      # not an int
        ("mcmc_saem", 20, True, 5, 3, None, None),       # neither count nor fraction
        ("mcmc_saem", 20, True, 5, 3, 7, 0.5),           # count has priority over the fraction
        ("mcmc_saem", 20, True, 5, 3, 40, None),         # annealing longer than the run
        ("mcmc_saem", 20, True, 5, 3, None, 1.5),
        ("mcmc_saem", 20, True, 5, 3, None, -0.5),
        ("mcmc_saem", 20, False, 5, 3, None, None),      # annealing off: nothing is looked at
        ("mode_posterior", 20, False, 0, 0, None, 0.5),
        ("mcmc_saem", 0, True, 5, 1, None, 0.5),         # no iteration
        ("mcmc_saem", 29, True, 3.3, 8, None, 0.29),
        ("mcmc_saem", 1000, True, 10, 10, None, 0.5),    # upstream defaults (with annealing on)
    ]


def grid_temp_cases(chk):
    """n_iter <= 40 x fraction grid x T0 grid x n_plateau 1..12 (exhaustive in thorough, sampled in quick)."""
    rng = chk.rng
    full = [("mcmc_saem", n, True, T0, P, None, f)
            for n in range(1, 41) for f in FRACS for T0 in T0S for P in range(1, 13)]
    if chk.tier == "thorough":
        chk.exhaustive = True
        grid = full
    else:
        grid = rng.sample(full, 6000)
        # always the complete boundary layer n_a in {P-2, P-1, P} for explicit counts
    extra = []
    for P in range(2, 13):
        for na in (P - 2, P - 1, P, 2 * (P - 1), 2 * (P - 1) + 1, 3 * (P - 1) - 1):
            for T0 in (1.5, 3.3, 10):
                extra.append((rng.choice(ALGOS), na + rng.randrange(0, 4), True, T0, P, na, rng.choice([None, 0.5])))
    return grid + extra


def random_temp_cases(chk, n):
    rng = chk.rng
    out = []
    for _ in range(n):
        n_iter = rng.choice([rng.randrange(0, 60), rng.randrange(0, 60), rng.randrange(60, 400)])
        on = rng.random() < 0.93
        T0 = rng.choice([rng.choice(T0S), round(rng.uniform(1, 20), rng.randrange(0, 4)), rng.uniform(1, 3),
                         rng.randrange(1, 30), rng.choice([0.999, 1.0000000000000002, 1e6, 0.25])])
        P = rng.choice([rng.randrange(1, 15), rng.randrange(1, 15), rng.randrange(2, 60), rng.choice([0, -1, 1, 2])])
        if rng.random() < 0.4:
            na = rng.choice([rng.randrange(0, n_iter + 5), rng.randrange(0, n_iter + 5), rng.randrange(-3, 3), max(P - 1, 0), max(P - 2, 0)])
            frac = rng.choice([None, 0.5])
        else:
            na = None
            frac = rng.choice([rng.randrange(0, 101) / 100.0, rng.random(), rng.choice(FRACS), 1.0, rng.uniform(1, 2)])
        out.append((rng.choice(ALGOS), n_iter, on, T0, P, na, frac))
    return out


def check_temp_cases(chk, env, cases, sample_some=True, hows=None):
    """hows: None or one entry per case (None or the `how` dictionary of `_build_temp_algo`): the expected behaviour is that of
    the configuration whatever the way it reached the algorithm object."""
    results = []
    hows = hows or [None] * len(cases)
    for c, how in zip(cases, hows):
        res = run_temp(env, c, how)
        results.append(res)
        cj = temp_case_json(c)
        if how:
            cj["how"] = how
        for what, fid in temp_predicate(c, res)[:3]:
            chk.impl_failure(cj, (f"(configuration given through {_how_text(how)}) " if how else "") + what, finding=fid)
        algo, n_iter, on, T0, P, na, frac = c
        chk.case(("temp",) + tuple(map(repr, c)) + ((repr(sorted(how.items())),) if how else ()), nontrivial=temp_nontrivial(c, res),
                 sample=cj if (sample_some and len(chk.samples) < 3 and n_iter == 12 and on and res["stage"] == "done") else None,
                 tags={"kind": "temperature", "temp_outcome": res["stage"] + ":" + res["outcome"],
                       "n_plateau": P if (is_plain_int(P) and P < 13) else "other",
                       "n_iter_bucket": min((n_iter // 10) * 10, 100), "algo": algo,
                       "given": "count" if na is not None else ("frac" if frac is not None else "none"),
                       "temp_how": _how_tag(how)})
    idx = [i for i, c in enumerate(cases) if temp_modelable(c)]
    out = chk.model([temp_request(cases[i]) for i in idx])
    for i, resp in zip(idx, out):
        impl = temp_canon(results[i], cases[i][2])
        if impl != resp:
            what = "temperature schedule (float64 bit patterns)"
            if impl.split(" ")[0] != resp.split(" ")[0]:
                what = "accepted / refused / crashed"
            cj = temp_case_json(cases[i])
            if hows[i]:
                cj["how"] = hows[i]
            chk.disagree(cj, _short(impl), _short(resp), what)
    return results


def _how_tag(how):
    if not how:
        return "keyword arguments, full dictionary"
    return ("partial dictionary" if how.get("omit") else "settings file" if how.get("via") else "numpy scalars" if how.get("numpy")
            else "settings object reused" if how.get("reused") else "load_parameters " + how["reconf"]["when"])


def _how_text(how):
    if not how:
        return "keyword arguments"
    bits = []
    if how.get("omit"):
        bits.append("a partial annealing dictionary (defaults for " + ", ".join(how["omit"]) + ")")
    if how.get("via"):
        bits.append("a settings file")
    if how.get("numpy"):
        bits.append("numpy scalars")
    if how.get("reused"):
        bits.append(f"a settings object used before for a run of {how['reused']} iterations")
    if how.get("reconf"):
        bits.append("load_parameters " + ("before the first run" if how["reconf"]["when"] == "before" else "between two runs")
                    + " of an object built with another annealing dictionary")
    return " + ".join(bits)


def variant_temp_cases(chk):
    """(cases, hows): configurations reaching the algorithm object by the other documented ways."""
    rng = chk.rng
    cases, hows = [], []
    n = 600 if chk.tier == "thorough" else 150

    def accepted(n_iter, explicit=False):
        P = rng.choice([2, 2, 3, 4, 5, 8, 10])
        T0 = rng.choice([1.5, 2, 3.3, 5, 10, 10])
        if explicit or rng.random() < 0.4:
            return (T0, P, rng.randrange(max(P - 1, 1), max(P - 1, 1) + n_iter + 3), rng.choice([None, 0.5]))
        return (T0, P, None, rng.choice([0.3, 0.5, 0.5, 0.67, 0.8, 1.0]))

    for _ in range(n):
        algo = rng.choice(ALGOS)
        n_iter = rng.randrange(4, 60)
        r = rng.random()
        if r < 0.3:
            # partial dictionary: the omitted keys take the documented defaults
            T0, P, na, frac = accepted(n_iter)
            omit = [k for k in ("initial_temperature", "n_plateau", "n_iter", "n_iter_frac") if rng.random() < 0.5]
            if "initial_temperature" in omit:
                T0 = ANNEALING_DEFAULTS["initial_temperature"]
            if "n_plateau" in omit:
                P = ANNEALING_DEFAULTS["n_plateau"]
            if "n_iter" in omit:
                na = None
            if "n_iter_frac" in omit:
                frac = ANNEALING_DEFAULTS["n_iter_frac"]
            if not omit:
                omit = ["n_iter"]
                na = None
            cases.append((algo, n_iter, True, T0, P, na, frac))
            hows.append({"omit": omit})
        elif r < 0.5:
            c = rng.choice(random_temp_cases(chk, 3))
            if not temp_modelable(c) or not math.isfinite(float(c[3])):
                c = (algo, n_iter, True) + accepted(n_iter)
            cases.append(c)
            hows.append({"via": "json"})
        elif r < 0.65:
            cases.append((algo, n_iter, True) + accepted(n_iter))
            hows.append({"numpy": True})
        elif r < 0.8:
            # fraction-defined annealing, settings object used first for a run of another length
            T0, P, na, frac = accepted(n_iter)
            cases.append((algo, n_iter, True, T0, P, None, frac if frac is not None else 0.5))
            hows.append({"reused": rng.choice([max(2, n_iter // 3), n_iter * 2, n_iter + 7])})
        else:
            # the annealing dictionary replaced after construction (explicit count: only the constructor derives it from a fraction)
            T0, P, na, frac = accepted(n_iter, explicit=True)
            T1, P1, na1, _ = accepted(n_iter, explicit=True)
            first = dict(do_annealing=True, initial_temperature=T1, n_plateau=P1, n_iter=na1, n_iter_frac=None)
            cases.append((algo, n_iter, True, T0, P, na, None))
            hows.append({"reconf": {"first": first, "when": rng.choice(["before", "between"])}})
    return cases, hows


def boundary_temp_cases(chk):
    """Boundary values the grids do not contain: a NaN initial temperature (must be refused: no comparison with NaN holds),
    fractions whose double product with n_iter falls just below an integer (0.29 * 100 = 28.999...: the annealing lasts 28
    iterations), many plateaus, long runs."""
    rng = chk.rng
    out = [("mcmc_saem", 20, True, float("nan"), 1, None, 0.5), ("mcmc_saem", 20, True, float("nan"), 4, None, 0.5),
           ("mean_posterior", 20, True, float("nan"), 3, 6, None)]
    traps = [(n, j) for n in range(2, 401) for j in range(1, 100) if (n * j) % 100 == 0 and int((j / 100) * n) != (n * j) // 100]
    for n, j in rng.sample(traps, min(len(traps), 120 if chk.tier == "thorough" else 40)):
        P = rng.choice([2, 3, 5, 8])
        out.append((rng.choice(ALGOS), n, True, rng.choice([2, 3.3, 10]), P, None, j / 100))
    for _ in range(12 if chk.tier == "thorough" else 4):
        n_iter = rng.randrange(2000, 20000)
        P = rng.choice([rng.randrange(100, 2000), rng.randrange(2, 30), 10])
        out.append((rng.choice(ALGOS), n_iter, True, rng.choice([10, 3.3, round(rng.uniform(1, 50), 2), 100]), P, None,
                    rng.choice([0.5, 0.9, 1.0, rng.random()])))
    return out


def na_derivation_check(chk, env):
    """Constructor only, n_iter up to 1e7 (the documented default of mcmc_saem is 10000): the number of annealing iterations is
    the integer part of fraction * n_iter (double product), an explicit count is taken as it is. Predicate only."""
    rng = chk.rng
    for _ in range(1500 if chk.tier == "thorough" else 300):
        n_iter = rng.choice([rng.randrange(1, 10 ** 4), rng.randrange(1, 10 ** 7), 10000, 1000])
        r = rng.random()
        na = None
        if r < 0.5:
            frac = rng.random()
        elif r < 0.8:
            frac = rng.randrange(0, n_iter + 1) / n_iter
        elif r < 0.9:
            frac = rng.randrange(0, 101) / 100
        else:
            frac, na = rng.choice([None, 0.5]), rng.randrange(0, n_iter + 1)
        c = (rng.choice(ALGOS), n_iter, True, 10, 10, na, frac)
        cj = dict(temp_case_json(c), constructor_only=True)
        try:
            got = _build_temp_algo(env, c, None).algo_parameters["annealing"].get("n_iter")
        except Exception as e:  # noqa
            chk.impl_failure(cj, f"valid configuration refused by the constructor: {err_class(env, e)}")
            continue
        if na is not None:
            ok = got == na
        else:
            exact = Fraction(frac) * n_iter
            lo, hi = sorted((exact * (1 - Fraction(1, 2 ** 52)), exact * (1 + Fraction(1, 2 ** 52))))
            ok = is_plain_int(got) and math.trunc(lo) <= got <= math.trunc(hi) and 0 <= got <= n_iter
        if not ok:
            chk.impl_failure(cj, f"annealing iterations {got!r}: configured " + (f"count {na}" if na is not None else
                                 f"fraction {frac!r} of {n_iter} iterations (integer part of the product: {math.trunc(Fraction(frac) * n_iter)})"))
        chk.case(("na", n_iter, na, repr(frac)), nontrivial=True, tags={"kind": "annealing-count", "given": "count" if na is not None else "frac"})


def _short(s, n=600):
    if s.startswith("ok ") and "T=" in s:
        head, t = s.split("T=")
        try:
            vals = [repr(parse_float(x)) for x in split_ne(t)]
            s = head + "T=" + ",".join(vals)
        except Exception:  # noqa
            pass
    return s if len(s) <= n else s[:n] + "…"


# =====================================================================================================
# proposal scale
# =====================================================================================================
KINDS = {"gibbs": "Gibbs", "fast": "FastGibbs", "mh": "Metropolis-Hastings", "ind": "Gibbs"}


class PopStub:
    """Just enough of `State` for `AbstractPopulationGibbsSampler.sample`; remembers the block being proposed."""

    def __init__(self, torch):
        self.zero = torch.tensor(0.0)
        self.last_idx = None
        self.reverts = 0

    def __getitem__(self, k):
        return self.zero

    def put(self, name, value, *, indices=(), accumulate=False):
        self.last_idx = tuple(indices)

    def revert(self, *a, **k):
        self.reverts += 1


class IndStub:
    def __init__(self, torch, n):
        self.z = torch.zeros(n)

    def get_tensor_values(self, names):
        return tuple(self.z for _ in names)

    def __getitem__(self, k):
        return self.z

    def put(self, *a, **k):
        pass

    def revert(self, *a, **k):
        pass


def std_case_json(c):
    return dict(c, kind="std")


def n_blocks(c):
    if c["sampler"] == "ind":
        return c["n_patients"]
    if c["sampler"] == "gibbs":
        return math.prod(c["shape"])
    if c["sampler"] == "fast":
        return c["shape"][0]
    return 1


def run_std(env, c):
    """Real sampler, `sample()` called once per row with the row's acceptance decisions injected."""
    torch = env["torch"]
    scale = torch.tensor(c["scale"], dtype=torch.float32) if isinstance(c["scale"], list) else c["scale"]   # float or tensor (documented)
    kws = dict(name="x", shape=tuple(c["shape"]), scale=scale, acceptation_history_length=c["L"],
               mean_acceptation_rate_target_bounds=(list(c["band"]) if c.get("band_as") == "list" else tuple(c["band"])),
               adaptive_std_factor=c["f"])
    try:
        if c["sampler"] == "ind":
            s = env["sampler_factory"]("Gibbs", env["Ind"], n_patients=c["n_patients"], **kws)
        else:
            s = env["sampler_factory"](KINDS[c["sampler"]], env["Pop"], random_order_dimension=c.get("rod", True), **kws)
    except Exception as e:  # noqa
        return {"ctor": err_class(env, e)}
    res = {"ctor": "ok", "std0": s.std.detach().reshape(-1).tolist(), "trace": [], "run": "ok",
           "shape_std": list(s.std.shape)}
    nb = len(res["std0"])
    try:
        if c["sampler"] == "ind":
            st = IndStub(torch, c["n_patients"])
            cur = {}
            s._group_metropolis_step = lambda alpha: cur["row"]
            for row in c["rows"]:
                cur["row"] = torch.tensor([ch == "1" for ch in row], dtype=torch.bool)
                s.sample(st, temperature_inv=1.0)
                res["trace"].append(s.std.detach().reshape(-1).tolist())
        else:
            st = PopStub(torch)
            cur = {}
            s._metropolis_step = lambda alpha: cur["row"][st.last_idx]
            shp = tuple(s.std.shape)
            for row in c["rows"]:
                cur["row"] = torch.tensor([ch == "1" for ch in row], dtype=torch.bool).reshape(shp)
                s.sample(st, temperature_inv=1.0)
                res["trace"].append(s.std.detach().reshape(-1).tolist())
    except Exception as e:  # noqa
        res["run"] = err_class(env, e)
    res["nb"] = nb
    return res


def dec(x) -> Fraction:
    """A python float read as the decimal number the user wrote."""
    return Fraction(repr(float(x)))


def std_predicate(env, chk, L, band, f, std0, rows, trace):
    """C19 (scale clauses) on an observed trajectory. rows[t][j] in '01'; trace[t][j] floats."""
    np = env["np"]
    fails = []
    lo, hi, fq = dec(band[0]), dec(band[1]), dec(f)
    prev = std0
    for j, s in enumerate(std0):
        if not (s > 0 and math.isfinite(s)):
            fails.append((f"initial scale of block {j} is {s!r}", None))
    for t, cur in enumerate(trace, start=1):
        for j in range(len(cur)):
            if not (cur[j] > 0 and math.isfinite(cur[j])):
                fails.append((f"scale of block {j} is {cur[j]!r} after call {t}", None))
                return fails
            if t % L != 0:
                if cur[j] != prev[j]:
                    fails.append((f"scale of block {j} changed at call {t}, not a multiple of the window length {L}", None))
                    return fails
                continue
            k = sum(1 for i in range(t - L, t) if rows[i][j] == "1")
            m = Fraction(k, L)
            amb = False
            for b, bf in ((lo, band[0]), (hi, band[1])):
                if m != b and abs(m - b) < Fraction(1, 10 ** 6):
                    amb = True
                if m == b and np.float32(k) / np.float32(L) != np.float32(bf):
                    amb = True
            if amb:
                chk.tag("ambiguous_band_decision", "excluded")
                continue
            if m == lo or m == hi:
                chk.tag("band_edge_decision", "lower" if m == lo else "upper")
            if lo <= m <= hi:
                if cur[j] != prev[j]:
                    fails.append((f"block {j}: mean acceptance {k}/{L} inside [{band[0]}, {band[1]}] but scale changed at call {t}: "
                                  f"{prev[j]!r} -> {cur[j]!r}", None))
                    return fails
            else:
                target = (1 - fq) if m < lo else (1 + fq)
                ratio = Fraction(cur[j]) / Fraction(prev[j])
                if abs(ratio - target) > target * Fraction(3, 2 ** 24):
                    fails.append((f"block {j}: mean acceptance {k}/{L} {'below' if m < lo else 'above'} the band at call {t} but scale "
                                  f"ratio is {float(ratio)!r}, configured factor {float(target)!r}", None))
                    return fails
        prev = cur
    return fails


def std_request(L, band, f, std0, rows):
    return (f"std L={L} lo={fmt_float(band[0])} hi={fmt_float(band[1])} f={fmt_float(f)} "
            f"std0={fmt_list([fmt_float(x) for x in std0])} acc={fmt_list(rows, sep=';')}")


def std_canon(trace):
    return "std=" + (";".join(fmt_list([fmt_float(x) for x in row]) for row in trace) if trace else "_")


def check_std_cases(chk, env, cases):
    reqs, idx, results = [], [], []
    for i, c in enumerate(cases):
        res = run_std(env, c)
        results.append(res)
        cj = std_case_json(c)
        valid = 0 < c["band"][0] < c["band"][1] < 1 and 0 < c["f"] < 1 and _all_positive(c["scale"]) and c["L"] >= 1
        nontriv = False
        if res["ctor"] != "ok":
            if valid:
                chk.impl_failure(cj, f"valid sampler configuration refused: {res['ctor']}")
            elif res["ctor"] not in ("err:input", "err:algo"):
                chk.impl_failure(cj, f"invalid sampler configuration not refused with an input error: {res['ctor']}")
            nontriv = True
        elif res["run"] != "ok":
            chk.impl_failure(cj, f"sample() raised {res['run']} after {len(res['trace'])} calls")
        else:
            if len(res["trace"]) != len(c["rows"]) or res["nb"] != n_blocks(c):
                chk.impl_failure(cj, f"{len(res['trace'])} scale rows / {res['nb']} blocks for {len(c['rows'])} calls / {n_blocks(c)} blocks")
            else:
                for what, fid in std_predicate(env, chk, c["L"], c["band"], c["f"], res["std0"], c["rows"], res["trace"])[:2]:
                    chk.impl_failure(cj, what, finding=fid)
                flat = [res["std0"]] + res["trace"]
                nontriv = any(a != b for a, b in zip(flat, flat[1:]))
                reqs.append(std_request(c["L"], c["band"], c["f"], res["std0"], c["rows"]))
                idx.append(i)
        chk.case(("std", repr(sorted(c.items()))), nontrivial=nontriv,
                 sample=cj if (len(c["rows"]) == 5 and c["L"] == 2 and c.get("origin") == "exhaustive") else None,
                 tags={"kind": "scale", "sampler": c["sampler"], "window": c["L"] if c["L"] <= 5 else (">5" if c["L"] != 25 else 25),
                       "blocks": min(n_blocks(c), 8), "origin": c.get("origin", "?")})
    out = chk.model(reqs)
    for i, resp in zip(idx, out):
        impl = std_canon(results[i]["trace"])
        if impl != resp:
            chk.disagree(std_case_json(cases[i]), _short_std(impl), _short_std(resp), "proposal scales after each call (float32 bit patterns)")
    return results


def _short_std(s, n=700):
    if s.startswith("std=") and s != "std=_":
        try:
            s = "std=" + ";".join(",".join(repr(parse_float(x)) for x in split_ne(r)) for r in s[4:].split(";"))
        except Exception:  # noqa
            pass
    return s if len(s) <= n else s[:n] + "…"


def _all_positive(x):
    if isinstance(x, list):
        return all(_all_positive(y) for y in x)
    return x > 0


def _flat(x):
    return [z for y in x for z in _flat(y)] if isinstance(x, list) else [x]


def _safe_drift(c):
    """No float32 under/overflow is possible whatever the decisions: every block stays within [1e-36, 1e37] after
    len(rows)//L adaptations in one direction (the assumption under which the theorems' exact arithmetic applies)."""
    A = len(c["rows"]) // c["L"]
    sc = _flat(c["scale"])
    lo = min(sc) * 0.01 * (1 - c["f"]) ** A
    hi = max(sc) * 0.5 * (1 + c["f"]) ** A
    return lo > 1e-36 and hi < 1e37


def drift_std_cases(chk):
    """Long one-directional drifts: every window of a block is all-rejected (the scale shrinks at every adaptation) or
    all-accepted (it grows) for 100-400 adaptations in a row, next to a block that stays inside the band — the scale must go on
    changing by exactly the configured factor, however far it has moved from where it started (no floor, no ceiling)."""
    rng = chk.rng
    cases = []
    kinds = ["mh", "gibbs", "ind", "fast"]
    for i in range(12 if chk.tier == "thorough" else 5):
        kind = kinds[i % 4]
        L = rng.choice([1, 2, 3, 3])
        f = rng.choice([0.1, 0.1, 0.3, 0.5])
        A = {0.1: rng.randrange(250, 400), 0.3: rng.randrange(120, 180), 0.5: rng.randrange(70, 100)}[f]
        shape = {"mh": [2], "gibbs": [3], "ind": [2], "fast": [3, 2]}[kind]
        c = dict(sampler=kind, shape=shape, n_patients=3 if kind == "ind" else None, scale=rng.choice([1.0, 0.3, 7.7]), L=L,
                 band=[0.2, 0.4], f=f, rod=True, rows=[], origin="drift")
        nb = n_blocks(c)
        pats = [rng.choice("01") for _ in range(nb)]
        if nb >= 3:
            pats[0], pats[1], pats[2] = "0", "1", "in-band"
        rows = []
        for t in range(A * L + rng.randrange(0, L)):
            rows.append("".join((p if p in "01" else ("1" if (L == 3 and t % 3 == 0) else rng.choice("0001"))) for p in pats))
        c["rows"] = rows
        if _safe_drift(c):
            cases.append(c)
    return cases


def exhaustive_std_cases(chk):
    """Single-block sampler (Metropolis-Hastings on a vector), every 0/1 history of length 2L+1, L = 1..4
    (+ L = 5 with the default band whose bounds are window means), bands with bounds on attainable means."""
    rng = chk.rng
    cases = []
    bands = {1: [(0.2, 0.4)], 2: [(0.2, 0.4), (0.25, 0.5)], 3: [(0.2, 0.4), (0.3, 0.7)],
             4: [(0.2, 0.4), (0.25, 0.5), (0.5, 0.75)], 5: [(0.2, 0.4)], 6: [(0.2, 0.5)]}
    for L in ((1, 2, 3, 4, 5, 6) if chk.tier == "thorough" else (1, 2, 3, 4, 5)):
        n = 2 * L + 1 if L < 5 else (10 if L == 5 else 12)
        hists = ["".join(h) for h in itertools.product("01", repeat=n)]
        if L == 5 and chk.tier != "thorough":
            hists = rng.sample(hists, 200)
        for h in hists:
            for band in bands[L]:
                cases.append(dict(sampler="mh", shape=[2], n_patients=None, scale=1.0, L=L, band=list(band), f=0.1,
                                  rod=False, rows=list(h), origin="exhaustive"))
    return cases


def edge_std_cases(chk):
    """Multi-block samplers, windows whose acceptance counts sit just below / on / just above the bounds."""
    rng = chk.rng
    cases = []
    windows = [(25, (0.2, 0.4), [4, 5, 6, 9, 10, 11]), (10, (0.2, 0.4), [1, 2, 3, 4, 5, 0]),
               (20, (0.25, 0.45), [4, 5, 6, 8, 9, 10]), (8, (0.125, 0.875), [0, 1, 2, 6, 7, 8]),
               # long windows (the documentation only asks for an int > 0; 50-250 are what slow-mixing fits use)
               (50, (0.2, 0.4), [9, 10, 11, 19, 20, 21]), (100, (0.2, 0.4), [19, 20, 21, 39, 40, 41])]
    if chk.tier == "thorough":
        windows += [(250, (0.3, 0.6), [74, 75, 76, 149, 150, 151]), (128, (0.25, 0.5), [31, 32, 33, 63, 64, 65])]
    for L, band, counts in windows:
        for kind in ("gibbs", "ind", "fast"):
            nb = len(counts)
            cols = []
            for kcount in counts:
                col = ""
                for w in range(3):
                    kk = kcount if w != 1 else counts[(counts.index(kcount) + 1) % nb]
                    bits = ["1"] * kk + ["0"] * (L - kk)
                    rng.shuffle(bits)
                    col += "".join(bits)
                col += "".join(rng.choice("01") for _ in range(7))
                cols.append(col)
            rows = ["".join(col[t] for col in cols) for t in range(len(cols[0]))]
            shape = [nb] if kind == "gibbs" else ([2] if kind == "ind" else [nb, 3])
            cases.append(dict(sampler=kind, shape=shape, n_patients=nb if kind == "ind" else None,
                              scale=rng.choice([1.0, 0.3, 7.7]), L=L, band=list(band), f=rng.choice([0.1, 0.05, 0.5]),
                              rod=True, rows=rows, origin="edge"))
    return cases


def random_std_cases(chk, n):
    rng = chk.rng
    cases = []
    for _ in range(n):
        kind = rng.choice(["gibbs", "gibbs", "fast", "mh", "ind", "ind"])
        if kind == "gibbs":
            shape = rng.choice([[rng.randrange(1, 6)], [rng.randrange(1, 4), rng.randrange(1, 4)]])
        elif kind == "fast":
            shape = [rng.randrange(1, 5), rng.randrange(1, 4)]
        elif kind == "mh":
            shape = rng.choice([[rng.randrange(1, 4)], [2, 2]])
        else:
            shape = rng.choice([[1], [2], [3]])
        n_pat = rng.randrange(1, 7) if kind == "ind" else None
        L = rng.choice([rng.randrange(1, 8), rng.randrange(1, 8), 25, rng.randrange(8, 31)])
        steps = rng.randrange(1, 4 * L + 4)
        lo = rng.randrange(1, 90) / 100.0
        hi = rng.randrange(int(round(lo * 100)) + 1, 100) / 100.0
        if rng.random() < 0.3:
            lo, hi = 0.2, 0.4
        f = rng.choice([0.1, 0.1, 0.05, 0.5, 0.9, 0.01, round(rng.uniform(0.01, 0.99), 3)])
        c = dict(sampler=kind, shape=shape, n_patients=n_pat, scale=rng.choice([1.0, 0.3, 7.7, 123.456, round(rng.uniform(0.01, 50), 4)]),
                 L=L, band=[lo, hi], f=f, rod=rng.random() < 0.5, rows=[], origin="random")
        nb = n_blocks(c)
        probs = [rng.choice([0.0, 0.05, 0.15, 0.2, 0.3, 0.4, 0.5, 0.9, 1.0, lo, hi]) for _ in range(nb)]
        c["rows"] = ["".join("1" if rng.random() < probs[j] else "0" for j in range(nb)) for _ in range(steps)]
        # scales over the whole range a `float > 0` / a positive tensor allows without float32 under/overflow, also one per
        # coordinate (a tensor of the variable's shape, as the algorithms pass for population variables); band as list or tuple
        r = rng.random()
        if r < 0.3:
            c["scale"] = float(f"{10 ** rng.uniform(-28, 30):.6g}")
        elif r < 0.5:
            base = 10 ** rng.uniform(-12, 12)

            def tens(shape):
                return [float(f"{base * 10 ** rng.uniform(-6, 6):.6g}") if len(shape) == 1 else tens(shape[1:]) for _ in range(shape[0])] \
                    if shape else float(f"{base:.6g}")
            c["scale"] = tens(shape)
        if rng.random() < 0.5:
            c["band_as"] = "list"
        if not _safe_drift(c):
            c["scale"] = 1.0
        cases.append(c)
    # a few refused configurations
    for band, f, scale in [((0.4, 0.2), 0.1, 1.0), ((0.0, 0.4), 0.1, 1.0), ((0.2, 1.0), 0.1, 1.0), ((0.2, 0.4), 0.0, 1.0),
                           ((0.2, 0.4), 1.0, 1.0), ((0.2, 0.4), 0.1, 0.0), ((0.2, 0.4), 0.1, -1.0)]:
        cases.append(dict(sampler=rng.choice(["gibbs", "ind"]), shape=[2], n_patients=2, scale=scale, L=5, band=list(band), f=f,
                          rod=False, rows=["00", "11"], origin="refused"))
    return cases


# =====================================================================================================
# real fits / personalisations with call-through recording
# =====================================================================================================
def real_run_case(chk, env, case):
    """Short real fit (+ optional personalisation) with annealing; temperatures and per-sampler
    (acceptance row, scale) recorded by call-through wrappers; predicates + model comparison."""
    import pandas as pd
    from leaspy.algo.algo_with_annealing import AlgorithmWithAnnealingMixin as AM
    from leaspy.io.data import Data
    from leaspy.models import model_factory
    from leaspy.samplers.gibbs import GibbsSamplerMixin as GM
    if case["model"] in REAL_KINDS:
        from . import api_common as A
        factory_name, which, n_ind, model_kw = REAL_KINDS[case["model"]]
        data = A.cohort(which, n_ind=n_ind)[1]
    else:
        factory_name, model_kw = case["model"], dict(dimension=3, source_dimension=2)
        df = pd.read_csv(core.REPO / "tests/_data/data_mock/multivariate_data.csv")
        data = Data.from_dataframe(df)
    rec_T, rec_S = [], {}
    orig_ut, orig_us, orig_ia = AM._update_temperature, GM._update_std, AM._initialize_annealing

    def ia(self):
        orig_ia(self)
        rec_T.append([self.temperature])

    def ut(self):
        orig_ut(self)
        rec_T[-1].append(self.temperature)

    def us(self):
        key = (len(rec_T), self.name)  # samplers are re-created by every algorithm run
        r = rec_S.setdefault(key, dict(sampler=self, std0=self.std.detach().reshape(-1).tolist(), rows=[], trace=[]))
        orig_us(self)
        r["rows"].append("".join("1" if x > 0.5 else "0" for x in self.acceptation_history[-1].reshape(-1).tolist()))
        r["trace"].append(self.std.detach().reshape(-1).tolist())

    model = model_factory(factory_name, **model_kw)
    ann = case["annealing"]
    L = case["L"]
    sp = dict(acceptation_history_length=L, mean_acceptation_rate_target_bounds=case["band"], adaptive_std_factor=case["f"])
    # the individual-level samplers are tuned on their own (window, band, factor): what is configured for one level must not
    # leak into the other
    ci = case.get("ind") or dict(L=L, band=case["band"], f=case["f"])
    sp_ind = dict(acceptation_history_length=ci["L"], mean_acceptation_rate_target_bounds=ci["band"], adaptive_std_factor=ci["f"])
    configured = {True: (ci["L"], list(ci["band"]), ci["f"]), False: (L, list(case["band"]), case["f"])}
    fit_kws = dict(n_iter=case["n_iter"], seed=case["seed"], progress_bar=False, annealing=ann,
                   sampler_ind_params=sp_ind, sampler_pop_params=dict(sp, random_order_dimension=True), sampler_pop=case.get("sampler_pop", "Gibbs"))
    if case.get("print_periodicity"):
        # the output manager prints the algorithm (hence every sampler: rate and mean scale) every so many iterations
        # (it does so only when a logs folder is given)
        import tempfile
        logs_dir = tempfile.mkdtemp(prefix="c19_logs_")
        fit_kws.update(print_periodicity=case["print_periodicity"], path=logs_dir, overwrite_logs_folder=True)
    runs = [("mcmc_saem", case["n_iter"], ann)]
    try:
        AM._update_temperature, GM._update_std, AM._initialize_annealing = ut, us, ia
        with core.quiet():
            model.fit(data, "mcmc_saem", **fit_kws)
            if case.get("personalize"):
                pk = dict(n_iter=case["personalize"]["n_iter"], seed=case["seed"], progress_bar=False,
                          annealing=case["personalize"]["annealing"], sampler_ind_params=sp_ind)
                model.personalize(data, case["personalize"]["algo"], **pk)
                runs.append((case["personalize"]["algo"], case["personalize"]["n_iter"], case["personalize"]["annealing"]))
    except Exception as e:  # noqa
        chk.impl_failure(case, f"valid configuration aborted: {type(e).__name__}: {e}")
        return
    finally:
        AM._update_temperature, GM._update_std, AM._initialize_annealing = orig_ut, orig_us, orig_ia
        if case.get("print_periodicity"):
            import shutil
            shutil.rmtree(logs_dir, ignore_errors=True)
    # temperatures
    reqs, want = [], []
    if len(rec_T) != len(runs):
        chk.impl_failure(case, f"_initialize_annealing called {len(rec_T)} times for {len(runs)} algorithm runs")
    for (algo, n_iter, a), T in zip(runs, rec_T):
        c = (algo, n_iter, a.get("do_annealing", False), a.get("initial_temperature", 10), a.get("n_plateau", 10),
             a.get("n_iter"), a.get("n_iter_frac", 0.5))
        res = {"stage": "done", "outcome": "ok", "T": T, "Tinv": [1 / t for t in T], "na": expected_na(c)}
        if len(T) != n_iter + 1:
            chk.impl_failure(case, f"{algo}: temperature updated {len(T) - 1} times in {n_iter} iterations")
            continue
        for what, fid in temp_predicate(c, res)[:2]:
            chk.impl_failure(case, f"{algo}: {what}", finding=fid)
        reqs.append(temp_request(c))
        want.append((temp_canon(res, c[2]), f"{algo}: temperature schedule in a real run"))
    # scales
    for (run_no, name), r in sorted(rec_S.items(), key=lambda kv: kv[0]):
        s = r["sampler"]
        from leaspy.samplers.gibbs import IndividualGibbsSampler
        is_ind = isinstance(s, IndividualGibbsSampler)
        Ls, band, fac = configured[is_ind]
        got_cfg = (s.acceptation_history_length,
                   [s._mean_acceptation_lower_bound_before_adaptation, s._mean_acceptation_upper_bound_before_adaptation], s._adaptive_std_factor)
        if (got_cfg[0], [float(x) for x in got_cfg[1]], float(got_cfg[2])) != (Ls, [float(x) for x in band], float(fac)):
            chk.impl_failure(case, f"{'individual' if is_ind else 'population'} sampler '{name}' (run {run_no}) works with window/band/factor "
                                   f"{got_cfg}, configured for its level: {(Ls, band, fac)}")
        chk.tag("real_run_sampler_level", "individual" if is_ind else "population")
        n_expected = runs[run_no - 1][1]
        if len(r["rows"]) != n_expected:
            chk.impl_failure(case, f"sampler '{name}': {len(r['rows'])} scale updates in {n_expected} iterations")
            continue
        for what, fid in std_predicate(env, chk, Ls, band, fac, r["std0"], r["rows"], r["trace"])[:2]:
            chk.impl_failure(case, f"sampler '{name}' (run {run_no}): {what}", finding=fid)
        reqs.append(std_request(Ls, band, fac, r["std0"], r["rows"]))
        want.append((std_canon(r["trace"]), f"sampler '{name}' (run {run_no}): scales in a real run"))
        chk.tag("real_run_adaptations", "changed" if any(a != b for a, b in zip([r["std0"]] + r["trace"], r["trace"])) else "none")
    out = chk.model(reqs)
    for (impl, what), resp in zip(want, out):
        if impl != resp:
            chk.disagree(case, _short(_short_std(impl)), _short(_short_std(resp)), what)
    chk.case(("real", repr(sorted((k, repr(v)) for k, v in case.items()))), nontrivial=True,
             sample=case, tags={"kind": "real-run", "model": case["model"]})


REAL_KINDS = {
    # name: (factory name, mock cohort of api_common.cohort, number of individuals or None, hyper-parameters)
    "univariate": ("logistic", "uni", None, dict(dimension=1)),
    "joint": ("joint", "joint", 6, dict(source_dimension=1)),
    "shared_speed": ("shared_speed_logistic", "multi", None, dict(source_dimension=1)),
    "mixture": ("mixture_logistic", "multi", None, dict(dimension=3, source_dimension=2, n_clusters=2)),
}


def real_cases(chk):
    rng = chk.rng
    base = [dict(kind="real", model="logistic", n_iter=30, seed=0, L=5, band=[0.2, 0.4], f=0.1, ind=dict(L=4, band=[0.3, 0.7], f=0.3),
                 annealing=dict(do_annealing=True, initial_temperature=3.3, n_plateau=4, n_iter_frac=0.5),
                 personalize=dict(algo="mean_posterior", n_iter=20,
                                  annealing=dict(do_annealing=True, initial_temperature=5, n_plateau=8, n_iter_frac=0.8)))]
    # another model kind (other latent variables, hence other samplers and shapes), another population sampler, short windows,
    # the printing output manager switched on; personalisation where the mock cohort supports it
    for i in range(6 if chk.tier == "thorough" else 1):
        kind = rng.choice(sorted(REAL_KINDS))
        P = rng.randrange(2, 6)
        base.append(dict(kind="real", model=kind, n_iter=rng.randrange(14, 30), seed=50 + i, L=rng.choice([2, 3, 4]),
                         band=rng.choice([[0.2, 0.4], [0.25, 0.5]]), f=rng.choice([0.1, 0.3]),
                         sampler_pop=rng.choice(["Gibbs", "FastGibbs", "Metropolis-Hastings"]),
                         ind=dict(L=rng.choice([2, 3, 5]), band=[0.3, 0.7], f=rng.choice([0.2, 0.5])),
                         print_periodicity=rng.choice([1, 1, 2, 3]),
                         annealing=dict(do_annealing=True, initial_temperature=rng.choice([2, 3.3, 10]), n_plateau=P, n_iter_frac=rng.choice([0.5, 0.8])),
                         personalize=(dict(algo=rng.choice(["mean_posterior", "mode_posterior"]), n_iter=rng.randrange(8, 16),
                                           annealing=dict(do_annealing=True, initial_temperature=5, n_plateau=3, n_iter_frac=0.5))
                                      if kind in ("univariate", "shared_speed") else None)))
    if chk.tier == "thorough":
        for i in range(12):
            P = rng.randrange(1, 9)
            n_iter = rng.randrange(12, 60)
            base.append(dict(kind="real", model=rng.choice(["logistic", "linear"]), n_iter=n_iter, seed=10 + i,
                             L=rng.choice([2, 3, 5, 7]), band=rng.choice([[0.2, 0.4], [0.25, 0.5], [0.1, 0.3]]), f=rng.choice([0.1, 0.3]),
                             sampler_pop=rng.choice(["Gibbs", "FastGibbs", "Metropolis-Hastings"]),
                             ind=rng.choice([None, dict(L=rng.choice([2, 3, 4, 6]), band=rng.choice([[0.3, 0.7], [0.15, 0.35], [0.2, 0.4]]),
                                                        f=rng.choice([0.1, 0.2, 0.3]))]),
                             annealing=dict(do_annealing=rng.random() < 0.85, initial_temperature=rng.choice([1.5, 2, 3.3, 5, 10]),
                                            n_plateau=P, n_iter_frac=rng.choice([0.5, 0.8, 1.0, 0.67])),
                             personalize=rng.choice([None, dict(algo=rng.choice(["mean_posterior", "mode_posterior"]), n_iter=rng.randrange(8, 30),
                                                                annealing=dict(do_annealing=True, initial_temperature=rng.choice([2, 5, 10]),
                                                                               n_plateau=rng.randrange(2, 6), n_iter_frac=0.5))])))
    return base



# =====================================================================================================
# composition of the fit / personalisation loops (Model/FitLoop.lean)
# =====================================================================================================
def _nb_expected(n_iter, count, frac):
    return count if count is not None else int(frac * n_iter)


def _burn_kws(count, frac):
    return dict(n_burn_in_iter=count, n_burn_in_iter_frac=None) if count is not None else dict(n_burn_in_iter_frac=frac)


def _ann_tuple(algo, n_iter, a):
    return (algo, n_iter, a.get("do_annealing", False), a.get("initial_temperature", 10), a.get("n_plateau", 10),
            a.get("n_iter"), a.get("n_iter_frac", 0.5))


def _same(torch, a, b):
    return a.shape == b.shape and bool(((a == b) | (a.isnan() & b.isnan())).all())


def loop_record(env, case):
    """Run the real fit (and personalisation) of `case`; return the list of recorded runs, each
    {algo, kind, T0, tinv0, names, events:[...]} with events in call order:
      ("sample", k, name, temperature_inv) ("mstep", k, memoryless|None, burn_in, n_update_calls) ("keep", k)
      ("updT", k, temperature, temperature_inv);  k = algo.current_iteration at the time of the call."""
    import pandas as pd
    from leaspy.algo.algo_with_annealing import AlgorithmWithAnnealingMixin as AM
    from leaspy.algo.fit.mcmc_saem import TensorMcmcSaemAlgorithm as FIT
    from leaspy.algo.personalize.mcmc import McmcPersonalizeAlgorithm as PERS
    from leaspy.algo.personalize.mean_posterior import MeanPosteriorAlgorithm as MEANP
    from leaspy.algo.personalize.mode_posterior import ModePosteriorAlgorithm as MODEP
    from leaspy.io.data import Data
    from leaspy.models import model_factory
    from leaspy.samplers.gibbs import AbstractPopulationGibbsSampler as POPS
    from leaspy.samplers.gibbs import IndividualGibbsSampler as INDS
    from leaspy.utils.weighted_tensor import WeightedTensor
    from leaspy.variables.state import State
    torch = env["torch"]
    df = pd.read_csv(core.REPO / "tests/_data/data_mock/multivariate_data.csv")
    data = Data.from_dataframe(df)
    runs = []
    cur = {"run": None, "depth": 0}

    def tens(v):
        return (v.weighted_value if isinstance(v, WeightedTensor) else v).detach().clone()

    orig = dict(ia=AM._initialize_annealing, ut=AM._update_temperature, ms=FIT._maximization_step,
                ps=POPS.sample, is_=INDS.sample, gtv=State.get_tensor_value,
                cm=MEANP._compute_individual_parameters_from_samples_torch,
                co=MODEP._compute_individual_parameters_from_samples_torch)

    def ia(self):
        orig["ia"](self)
        kind = "pers" if isinstance(self, PERS) else "fit"
        cur["run"] = dict(algo=str(getattr(self.name, "value", self.name)), kind=kind, obj=self, T0=self.temperature,
                          tinv0=self.temperature_inv, events=[], post={}, prevS=None, final=None,
                          sampler_names=sorted(self.samplers or {}))
        runs.append(cur["run"])

    def ut(self):
        orig["ut"](self)
        r = cur["run"]
        if r is not None and r["obj"] is self:
            r["events"].append(("updT", self.current_iteration, self.temperature, self.temperature_inv))

    def make_sample(o):
        def sample(self, state, *a, **kw):
            r = cur["run"]
            if r is not None:
                tinv = kw["temperature_inv"] if "temperature_inv" in kw else (a[0] if a else None)
                r["events"].append(("sample", r["obj"].current_iteration, self.name, tinv))
            cur["depth"] += 1
            try:
                out = o(self, state, *a, **kw)
            finally:
                cur["depth"] -= 1
            if r is not None and r["kind"] == "pers":
                # values after the (so far) last sampler call of this iteration
                r["post"][r["obj"].current_iteration] = {n: state[n].detach().clone() for n in r["ind_names"]}
            return out
        return sample

    def ms(self, model, state):
        r = cur["run"]
        seen = dict(s=None, S=None, burn=None, n=0)
        o_css, o_up = model.compute_sufficient_statistics, model.update_parameters

        def css(st):
            out = o_css(st)
            seen["s"] = {k: tens(v) for k, v in out.items()}
            return out

        def up(st, ss, *a, **kw):
            seen["S"] = {k: tens(v) for k, v in ss.items()}
            seen["burn"] = kw["burn_in"] if "burn_in" in kw else (a[0] if a else None)
            seen["n"] += 1
            return o_up(st, ss, *a, **kw)

        model.compute_sufficient_statistics, model.update_parameters = css, up
        try:
            orig["ms"](self, model, state)
        finally:
            del model.compute_sufficient_statistics, model.update_parameters
        ml, amb = None, False
        if seen["s"] is not None and seen["S"] is not None:
            ml = set(seen["s"]) == set(seen["S"]) and all(_same(torch, seen["S"][k], seen["s"][k]) for k in seen["s"])
            pS = r["prevS"] if r is not None else None
            # all proposals rejected and nothing kept from before: the convex combination may reproduce the current statistics
            amb = bool(ml and pS is not None and set(pS) == set(seen["s"]) and all(_same(torch, pS[k], seen["s"][k]) for k in pS))
        if r is not None and r["obj"] is self:
            r["events"].append(("mstep", self.current_iteration, ml, None if seen["burn"] is None else bool(seen["burn"]), seen["n"], amb))
            r["prevS"] = seen["S"]

    def gtv(self, name):
        r = cur["run"]
        if r is not None and r["kind"] == "pers" and r["final"] is None and cur["depth"] == 0 and name == "nll_attach_ind":
            r["events"].append(("keep", r["obj"].current_iteration))
        return orig["gtv"](self, name)

    def make_final(o):
        def final(self, values, attachments, regularities):
            r = cur["run"]
            if r is not None and r["obj"] is self:
                r["final"] = dict(values={k: v.detach().clone() for k, v in values.items()},
                                  n_att=int(attachments.shape[0]), n_reg=int(regularities.shape[0]))
            return o(self, values, attachments, regularities)
        return final

    kw = dict(dimension=3, source_dimension=2)
    model = model_factory(case["model"], **kw)
    from leaspy.variables.specs import IndividualLatentVariable, PopulationLatentVariable
    fit_kws = dict(n_iter=case["n_iter"], seed=case["seed"], progress_bar=False, annealing=case["annealing"],
                   random_order_variables=case.get("random_order", True), sampler_pop=case.get("sampler_pop", "Gibbs"),
                   **_burn_kws(case.get("nb_count"), case.get("nb_frac")))
    err = None
    try:
        AM._initialize_annealing, AM._update_temperature, FIT._maximization_step = ia, ut, ms
        POPS.sample, INDS.sample, State.get_tensor_value = make_sample(orig["ps"]), make_sample(orig["is_"]), gtv
        MEANP._compute_individual_parameters_from_samples_torch = make_final(orig["cm"])
        MODEP._compute_individual_parameters_from_samples_torch = make_final(orig["co"])
        with core.quiet(), warnings.catch_warnings():
            warnings.simplefilter("ignore")
            model.fit(data, "mcmc_saem", **fit_kws)
            if runs:
                runs[-1]["expected_names"] = sorted(list(model.dag.sorted_variables_by_type[PopulationLatentVariable])
                                                    + list(model.dag.sorted_variables_by_type[IndividualLatentVariable]))
            cur["run"] = None
            p = case.get("personalize")
            if p:
                ind_names = sorted(model.dag.sorted_variables_by_type[IndividualLatentVariable])
                o_ia = ia

                def ia_p(self):
                    o_ia(self)
                    cur["run"]["ind_names"] = ind_names
                    cur["run"]["expected_names"] = ind_names
                AM._initialize_annealing = ia_p
                model.personalize(data, p["algo"], n_iter=p["n_iter"], seed=case["seed"], progress_bar=False,
                                  annealing=p["annealing"], **_burn_kws(p.get("nb_count"), p.get("nb_frac")))
    except Exception as e:  # noqa
        err = f"{type(e).__name__}: {e}"
    finally:
        AM._initialize_annealing, AM._update_temperature, FIT._maximization_step = orig["ia"], orig["ut"], orig["ms"]
        POPS.sample, INDS.sample, State.get_tensor_value = orig["ps"], orig["is_"], orig["gtv"]
        MEANP._compute_individual_parameters_from_samples_torch = orig["cm"]
        MODEP._compute_individual_parameters_from_samples_torch = orig["co"]
        cur["run"] = None
    return runs, err


def loop_predicate(env, chk, r, n_iter, nb, ann, random_order=True):
    """Clauses (a)-(e) of the composition, evaluated on the recording alone. Returns [(what, finding)]."""
    torch = env["torch"]
    fails, seen_cats = [], set()

    def add(item):
        """keep the first failure of each sort (same text up to numbers and names)"""
        cat = re.sub(r"[-+0-9.e]+|'[^']*'|\[[^\]]*\]", "#", item[0])
        if cat not in seen_cats:
            seen_cats.add(cat)
            fails.append(item)

    ev = r["events"]
    names = r["expected_names"]
    kind = r["kind"]
    on = bool(ann.get("do_annealing", False))
    P = ann.get("n_plateau", 10)
    n_a = expected_na(_ann_tuple(r["algo"], n_iter, ann)) if on else None
    # (c) shape and order of every iteration
    by_k = {}
    for e in ev:
        by_k.setdefault(e[1], []).append(e)
    ks = [e[1] for e in ev]
    if ks != sorted(ks) or sorted(by_k) != list(range(1, n_iter + 1)):
        add((f"{r['algo']}: events recorded for iterations {sorted(by_k)[:8]}… (expected 1..{n_iter}, in order)", None))
    T_after = {0: r["T0"]}
    for k in range(1, n_iter + 1):
        es = by_k.get(k, [])
        kinds = [e[0] for e in es]
        called = [e[2] for e in es if e[0] == "sample"]
        for n in names:
            if called.count(n) != 1:
                add((f"{r['algo']} iteration {k}: sampler of latent variable '{n}' called {called.count(n)} times (expected exactly once)", None))
        extra = [n for n in called if n not in names]
        if extra:
            add((f"{r['algo']} iteration {k}: sampler calls for {extra} which are not latent variables of the model", None))
        if not random_order and called != names:
            add((f"{r['algo']} iteration {k}: random_order_variables=False but samplers called in order {called}", None))
        mid = "mstep" if kind == "fit" else "keep"
        want_mid = 1 if (kind == "fit" or k > nb) else 0
        if kinds.count(mid) != want_mid:
            add((f"{r['algo']} iteration {k}: " + (f"{kinds.count('mstep')} maximisation steps (expected exactly one)" if kind == "fit" else
                          f"draws {'kept' if kinds.count('keep') else 'not kept'} (memory-less phase is k<={nb}: kept iff k>{nb})"), None))
        if kinds.count("updT") != 1:
            add((f"{r['algo']} iteration {k}: _update_temperature called {kinds.count('updT')} times (expected exactly once)", None))
        want_order = ["sample"] * len(called) + [mid] * kinds.count(mid) + ["updT"] * kinds.count("updT")
        if kinds != want_order:
            add((f"{r['algo']} iteration {k}: calls in order {_runs_of(kinds)}, expected all samplers, then "
                          f"{'the maximisation step' if kind == 'fit' else 'the keep-the-draws step'}, then the temperature update", None))
        for e in es:
            if e[0] == "updT":
                T_after[k] = e[2]
                if not (e[2] != 0 and e[3] == 1 / e[2]):
                    add((f"{r['algo']} iteration {k}: temperature_inv {e[3]!r} != 1/temperature ({e[2]!r}) after the update", None))
        # (d) flags of the maximisation step
        for e in es:
            if e[0] == "mstep":
                _, _, ml, burn, n_up, amb = e
                if n_up != 1:
                    add((f"{r['algo']} iteration {k}: update_parameters called {n_up} times in one maximisation step", None))
                    continue
                if burn != (k <= nb):
                    add((f"{r['algo']} iteration {k}: update_parameters told burn_in={burn}, memory-less phase is k<={nb}", None))
                if amb:
                    chk.tag("loop_memoryless_ambiguous", "excluded")
                elif ml != (k <= nb + 1):
                    add((f"{r['algo']} iteration {k}: statistics handed to the maximisation are "
                                  f"{'the current ones' if ml else 'not the current ones'}; memory-less iff k<={nb}+1", None))
    # (a) inverse temperature received = 1 / (temperature after k-1 updates);  (b) envelope
    prev_t = None
    for k in range(1, n_iter + 1):
        tinvs = [e[3] for e in by_k.get(k, []) if e[0] == "sample"]
        if (k - 1) not in T_after:
            continue
        Tprev = T_after[k - 1]
        for t in tinvs:
            if isinstance(t, bool) or not isinstance(t, (int, float)):
                add((f"{r['algo']} iteration {k}: temperature_inv passed to a sampler is {t!r}", None))
                break
            if t != 1 / Tprev:
                add((f"{r['algo']} iteration {k}: a sampler received temperature_inv={t!r}, but the temperature after "
                              f"{k-1} updates is {Tprev!r} (1/T = {1/Tprev!r})", None))
                break
            if not (0 < t <= 1):
                add((f"{r['algo']} iteration {k}: temperature_inv={t!r} outside (0, 1]", "F5c" if (P == 1 and ann.get("initial_temperature", 10) < 1) else None))
                break
            if prev_t is not None and t < prev_t:
                add((f"{r['algo']} iteration {k}: temperature_inv decreases {prev_t!r} -> {t!r}", None))
                break
            if (not on or (n_a is not None and k > n_a)) and t != 1:
                fid = "F5b" if (on and P == 1 and ann.get("initial_temperature", 10) > 1) else None
                add((f"{r['algo']} iteration {k}: temperature_inv={t!r} != 1 "
                              + (f"after the {n_a} annealing iterations" if on else "without annealing"), fid))
                break
            prev_t = t
    if kind == "fit" and by_k.get(1) and on:
        t1 = [e[3] for e in by_k[1] if e[0] == "sample"]
        T0 = ann.get("initial_temperature", 10)
        if t1 and isinstance(t1[0], (int, float)) and t1[0] != 1 / T0:
            add((f"{r['algo']}: first iteration samples at temperature_inv={t1[0]!r}, initial temperature is {T0!r}", None))
    # (e) personalisation: what is kept
    if kind == "pers":
        f = r["final"]
        if f is None:
            add((f"{r['algo']}: the kept draws were never aggregated", None))
        else:
            want = max(n_iter - nb, 0)
            if f["n_att"] != want or f["n_reg"] != want or any(v.shape[0] != want for v in f["values"].values()):
                add((f"{r['algo']}: {f['n_att']} draws kept for n_iter={n_iter}, n_burn_in_iter={nb} (expected {want})", None))
            else:
                for n, v in f["values"].items():
                    for j in range(want):
                        post = r["post"].get(nb + 1 + j, {}).get(n)
                        if post is None or not _same(torch, v[j], post):
                            add((f"{r['algo']}: kept draw {j} of '{n}' is not the value after the samplers of iteration {nb+1+j}", None))
                            break
                    else:
                        continue
                    break
    return fails


def _runs_of(kinds):
    out = []
    for x in kinds:
        if out and out[-1][0] == x:
            out[-1][1] += 1
        else:
            out.append([x, 1])
    return " ".join(f"{x}x{n}" for x, n in out)


def loop_canon(r, n_iter):
    """The recording in the driver's syntax, and the `order=` rows for the request."""
    names = r["expected_names"]
    rank = {n: i for i, n in enumerate(names)}
    rows, toks, cur_k = [], [], None
    for e in r["events"]:
        if e[1] != cur_k:
            cur_k = e[1]
            rows.append([])
            toks.append([])
        if e[0] == "sample":
            rows[-1].append(rank.get(e[2], 999))
            toks[-1].append(f"s{rank.get(e[2], 999)}@{fmt_float(float(e[3])) if isinstance(e[3], (int, float)) else '?'}")
        elif e[0] == "mstep":
            toks[-1].append(f"m{'?' if e[2] is None else int(e[2])}{'?' if e[3] is None else int(e[3])}")
        elif e[0] == "keep":
            toks[-1].append("k1")
        elif e[0] == "updT":
            if r["kind"] == "pers" and "k1" not in toks[-1]:
                toks[-1].append("k0")
            toks[-1].append(f"T@{fmt_float(float(e[2]))}")
    if r["kind"] == "pers":
        for t in toks:
            if not any(x.startswith("k") for x in t):
                t.append("k0")
    canon = "ok it=" + (";".join(",".join(t) if t else "_" for t in toks) if toks else "_")
    order = ";".join(",".join(map(str, row)) if row else "_" for row in rows) if rows else "_"
    return canon, order


def loop_request(r, n_iter, nb, ann, order):
    c = _ann_tuple(r["algo"], n_iter, ann)
    _, _, on, T0, P, na, frac = c
    return (f"loop kind={r['kind']} niter={n_iter} nb={nb} nvars={len(r['expected_names'])} on={1 if on else 0} "
            f"t0={fmt_float(float(T0))} P={P} na={'none' if na is None else na} "
            f"frac={'none' if frac is None else fmt_float(float(frac))} clamp=1 order={order}")


def _short_loop(s, n=900):
    def tok(t):
        if "@" in t:
            h, v = t.split("@")
            try:
                return f"{h}@{parse_float(v)!r}"
            except Exception:  # noqa
                return t
        return t
    if s.startswith("ok it="):
        s = "ok it=" + ";".join(",".join(tok(t) for t in row.split(",")) for row in s[6:].split(";"))
    return s if len(s) <= n else s[:n] + "…"


def loop_run_case(chk, env, case):
    """One real fit (+ personalisation): every sampler call, maximisation step, kept draw and temperature update in
    call order; clauses (a)-(e) on the recording; event list compared with `Model/FitLoop.lean`."""
    runs, err = loop_record(env, case)
    if err is not None:
        chk.impl_failure(case, f"valid configuration aborted: {err}")
    specs = [(case["n_iter"], _nb_expected(case["n_iter"], case.get("nb_count"), case.get("nb_frac")), case["annealing"],
              case.get("random_order", True))]
    p = case.get("personalize")
    if p:
        specs.append((p["n_iter"], _nb_expected(p["n_iter"], p.get("nb_count"), p.get("nb_frac")), p["annealing"], True))
    if err is None and len(runs) != len(specs):
        chk.impl_failure(case, f"_initialize_annealing called {len(runs)} times for {len(specs)} algorithm runs")
    reqs, want = [], []
    nontriv = False
    for r, (n_iter, nb, ann, ro) in zip(runs, specs):
        if "expected_names" not in r:
            continue
        for what, fid in loop_predicate(env, chk, r, n_iter, nb, ann, ro)[:6]:
            chk.impl_failure(case, what, finding=fid)
        canon, order = loop_canon(r, n_iter)
        reqs.append(loop_request(r, n_iter, nb, ann, order))
        want.append((canon, f"{r['algo']}: events of the {'fit' if r['kind'] == 'fit' else 'personalisation'} loop "
                            f"(sampler calls with their temperature_inv, maximisation/keep step, temperature update)"))
        tinvs = {e[3] for e in r["events"] if e[0] == "sample"}
        nontriv = nontriv or len(tinvs) > 1 or 0 < nb < n_iter
        chk.tag("loop_runs", r["kind"] + (":annealed" if len(tinvs) > 1 else ":flat"))
    out = chk.model(reqs)
    for (impl, what), resp in zip(want, out):
        if impl != resp:
            chk.disagree(case, _short_loop(impl), _short_loop(resp), what)
    chk.case(("loop", repr(sorted((k, repr(v)) for k, v in case.items()))), nontrivial=nontriv,
             sample=case if case.get("seed") == 0 else None, tags={"kind": "loop", "model": case["model"]})


def _accepted_annealing(rng, n_iter, allow_single=False):
    """A configuration accepted by `_initialize_annealing`, with at least one boundary inside the run."""
    if rng.random() < 0.25:
        return dict(do_annealing=False)
    P = rng.choice([2, 2, 3, 3, 4, 5] + ([1] if allow_single else []))
    T0 = rng.choice([1.5, 2, 3.3, 5, 10])
    if rng.random() < 0.5:
        na = rng.randrange(max(P - 1, 1), n_iter + 3)
        return dict(do_annealing=True, initial_temperature=T0, n_plateau=P, n_iter=na, n_iter_frac=None)
    fracs = [f for f in (0.3, 0.5, 0.67, 0.8, 1.0) if int(f * n_iter) >= max(P - 1, 1)]
    if not fracs:
        return dict(do_annealing=True, initial_temperature=T0, n_plateau=2, n_iter=max(1, n_iter // 2), n_iter_frac=None)
    return dict(do_annealing=True, initial_temperature=T0, n_plateau=P, n_iter_frac=rng.choice(fracs))


def loop_cases(chk):
    rng = chk.rng
    cases = [
        # hand-picked: boundary at every second iteration, burn-in ends in the middle of the annealing
        dict(kind="loop", model="logistic", n_iter=9, seed=0, nb_count=3, nb_frac=None, random_order=True,
             annealing=dict(do_annealing=True, initial_temperature=4, n_plateau=4, n_iter=7, n_iter_frac=None),
             personalize=dict(algo="mean_posterior", n_iter=8, nb_count=None, nb_frac=0.5,
                              annealing=dict(do_annealing=True, initial_temperature=5, n_plateau=3, n_iter=4, n_iter_frac=None))),
        dict(kind="loop", model="linear", n_iter=6, seed=1, nb_count=None, nb_frac=0.9, random_order=False,
             annealing=dict(do_annealing=False),
             personalize=dict(algo="mode_posterior", n_iter=7, nb_count=2, nb_frac=None,
                              annealing=dict(do_annealing=True, initial_temperature=2, n_plateau=2, n_iter_frac=0.5))),
        # period 1: the temperature moves at every iteration, burn-in 0 (iteration 1 is the only memory-less one)
        dict(kind="loop", model="logistic", n_iter=7, seed=2, nb_count=0, nb_frac=None, random_order=True,
             annealing=dict(do_annealing=True, initial_temperature=10, n_plateau=5, n_iter=4, n_iter_frac=None),
             personalize=dict(algo="mean_posterior", n_iter=6, nb_count=0, nb_frac=None,
                              annealing=dict(do_annealing=True, initial_temperature=3.3, n_plateau=4, n_iter=3, n_iter_frac=None))),
    ]
    n_random = 14 if chk.tier == "thorough" else 5
    for i in range(n_random):
        n_iter = rng.randrange(6, 26)
        if rng.random() < 0.5:
            nb_count, nb_frac = rng.choice([0, 1, 2, n_iter // 2, n_iter - 2, n_iter - 1, n_iter, n_iter + 3]), None
        else:
            nb_count, nb_frac = None, rng.choice([0.0, 0.1, 0.5, 0.9, 1.0])
        pers = None
        if rng.random() < 0.8:
            pn = rng.randrange(6, 21)
            if rng.random() < 0.5:
                pc, pf = rng.choice([0, 1, pn // 2, pn - 2, pn - 1]), None
            else:
                pc, pf = None, rng.choice([0.0, 0.2, 0.5, 0.8])
            pers = dict(algo=rng.choice(["mean_posterior", "mode_posterior"]), n_iter=pn, nb_count=pc, nb_frac=pf,
                        annealing=_accepted_annealing(rng, pn))
        cases.append(dict(kind="loop", model=rng.choice(["logistic", "linear"]), n_iter=n_iter, seed=100 + i,
                          nb_count=nb_count, nb_frac=nb_frac, random_order=rng.random() < 0.8,
                          sampler_pop=rng.choice(["Gibbs", "FastGibbs", "Metropolis-Hastings"]),
                          annealing=_accepted_annealing(rng, n_iter, allow_single=(i == 0)), personalize=pers))
    return cases


# =====================================================================================================
def probe_findings(chk, env):
    listed = {f["id"]: f for f in chk.findings}
    c = ("mcmc_saem", 100, True, 5, 1, None, 0.5)
    res = run_temp(env, c)
    if "F5b" in listed:
        if res["stage"] == "done" and res["T"][-1] != 1:
            chk.known_finding_reproduces("F5b", f"n_plateau=1: temperature stays at the initial value {res['T'][-1]!r} "
                                                f"after the annealing iterations (upstream only warns)")
        else:
            chk.note("finding F5b no longer reproduces")
    # window length 0 (not part of the property's clauses; recorded for the reader)
    try:
        r = run_std(env, dict(sampler="mh", shape=[2], n_patients=None, scale=1.0, L=0, band=[0.2, 0.4], f=0.1, rod=False, rows=["1"]))
        chk.tag("window0", r.get("run", r.get("ctor")))
    except Exception as e:  # noqa
        chk.tag("window0", f"probe failed: {type(e).__name__}")


def run(chk: core.Check):
    env = _imports()
    chk.rule = ("temperature: real algorithm objects over the grid n_iter<=40 x 11 fractions x 6 initial temperatures x n_plateau 1..12 "
                "(exhaustive in thorough, 6000 sampled in quick) + explicit-count boundary layer n_a in {P-2,P-1,P,..} + random "
                "configurations (three algorithms, counts/fractions, invalid values); non-trivial = at least one temperature change, "
                "a refusal, or a single-plateau run. scale: real samplers with injected decisions — every 0/1 history of length 2L+1 "
                "for window L=1..4 (L=5: length 10) on a one-block sampler with bounds on attainable means, edge windows for L=25/20/10/8 "
                "on multi-block samplers, random multi-block histories; non-trivial = the scale changed at least once. "
                "real: short fits/personalisations with recorded schedules. "
                "loop: real fits of 6-25 iterations (+ mean/mode-posterior personalisations of 6-20) on the 5-individual mock cohort, "
                "3 hand-picked (boundary every 1-2 iterations, burn-in 0 / inside the annealing, fixed order) + random "
                "(annealing on/off, explicit count or fraction of burn-in incl. 0, n-1, n, >n, three population sampler kinds); "
                "non-trivial = the samplers saw at least two different inverse temperatures or the burn-in ends inside the run. "
                "hardening: temperature configurations also given as a partial annealing dictionary (documented defaults), through a "
                "settings file, as numpy scalars, and through `load_parameters` after construction (before the first run / between two "
                "runs); NaN initial temperature; fractions whose double product with n_iter falls just below an integer; 100-2000 "
                "plateaus and runs of 2e3-2e4 iterations; the count of annealing iterations for n_iter up to 1e7 (constructor only); "
                "scale: 70-400 adaptations in one direction per block (no floor / ceiling), windows of 50 / 100 (thorough: 128 / 250) "
                "at the band edges, scales from 1e-28 to 1e30 and one scale per coordinate (tensor), band given as list or tuple; "
                "real runs of other model kinds (univariate, joint, shared-speed, mixture) with short windows and the printing output "
                "manager switched on. Distinct by full configuration + history.")
    probe_findings(chk, env)
    # corpus first
    corpus = core.load_corpus(PROP)
    t_cases = [temp_case_from_json(c) for c in corpus if c.get("kind") == "temp"]
    s_cases = [{k: v for k, v in c.items() if k != "kind"} for c in corpus if c.get("kind") == "std"]
    t_cases += anchor_temp_cases() + grid_temp_cases(chk) + random_temp_cases(chk, 10000 if chk.tier == "thorough" else 800)
    t_cases += boundary_temp_cases(chk)
    check_temp_cases(chk, env, t_cases)
    v_cases, v_hows = variant_temp_cases(chk)
    check_temp_cases(chk, env, v_cases, sample_some=False, hows=v_hows)
    na_derivation_check(chk, env)
    s_cases += exhaustive_std_cases(chk) + edge_std_cases(chk) + random_std_cases(chk, 5000 if chk.tier == "thorough" else 400)
    s_cases += drift_std_cases(chk)
    check_std_cases(chk, env, s_cases)
    for case in real_cases(chk):
        real_run_case(chk, env, case)
    for case in [c for c in corpus if c.get("kind") == "loop"] + loop_cases(chk):
        loop_run_case(chk, env, case)


def replay(chk: core.Check, payload):
    env = _imports()
    case = payload.get("case") or (payload.get("disagreements") or [{}])[0].get("case")
    if not case:
        chk.note("replay file has no case")
        return
    if case.get("kind") == "temp" and case.get("constructor_only"):
        c = temp_case_from_json(case)
        got = _build_temp_algo(env, c, None).algo_parameters["annealing"].get("n_iter")
        want = c[5] if c[5] is not None else int(c[6] * c[1])
        if got != want:
            chk.impl_failure(case, f"annealing iterations {got!r}, configured {want!r}")
        chk.case(("na", c[1], c[5], repr(c[6])), sample=case)
    elif case.get("kind") == "temp":
        check_temp_cases(chk, env, [temp_case_from_json(case)], sample_some=False, hows=[case.get("how")])
    elif case.get("kind") == "std":
        check_std_cases(chk, env, [{k: v for k, v in case.items() if k != "kind"}])
    elif case.get("kind") == "real":
        real_run_case(chk, env, case)
    elif case.get("kind") == "loop":
        loop_run_case(chk, env, case)
    else:
        chk.note(f"unknown case kind {case.get('kind')!r}")
