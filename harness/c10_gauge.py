"""C10 — re-centring is a pure gauge change; space shifts are orthogonal to progression.

Correspondence: real `_center_xi_realizations` / `compute_sufficient_statistics` on random states of
logistic, linear and joint models (with / without sources), real `compute_orthonormal_basis`, and the
`mixing_matrix` / `space_shifts` of real states (also shared-speed), against `Model/Gauge.lean`
(+ `Model/Traj.lean`) through `drivers/C10.lean`.

The property's own predicate (model values, attachment terms and event likelihoods unchanged, mean(xi)=0,
<mixing row, metric^2 v0> = 0, <space shift, metric^2 v0> = 0) is evaluated on the implementation's
tensors independently of the Lean model.
"""
from __future__ import annotations

import json
import math
import warnings

from . import core
from .core import fmt_float, parse_float, fmt_list, fmt_list2, split_ne
from .c09_traj import EPS32, TINY32, err_class, f32, reference

PROP = "C10"
LEAN = dict(
    props="LeaspyVerif.Props.C10",
    driver="drivers/C10.lean",
    harness="c10_gauge.py",
    extra_modules=["LeaspyVerif.Model.Traj", "LeaspyVerif.Model.Gauge", "LeaspyVerif.Model.MStep", "LeaspyVerif.Model.Dist",
                   "LeaspyVerif.Lemmas.TrajReal"],
    theorems=["center_mean_zero", "centerJoint_components", "centerJoint_mean_zero", "center_preserves_v0alpha",
              "center_preserves_v0rt", "center_preserves_logistic", "center_preserves_linear",
              "center_preserves_logisticTraj", "center_preserves_linearTraj", "center_preserves_attachment",
              "centerJoint_preserves_nuRep", "centerJoint_preserves_nuRepSources", "centerJoint_without_compensation",
              "householder_orth", "basis_cols_orth", "mixing_rows_orth", "spaceShift_orth",
              "spaceShift_orth_of_householder", "householder_degenerate_counterexample", "spaceShift_orth_real",
              "manifold_spaceShift_orth", "sharedSpeed_spaceShift_orth",
              # gauge completeness
              "center_eq_shift", "shift_group", "center_of_mean_zero", "center_idempotent", "center_shift",
              "shift_neg_mean_center", "gauge_fibre_iff", "centerJoint_idempotent", "centerJoint_shiftJoint",
              "suffXi_sums", "xi_mean_update_after_center", "xi_var_update_after_center", "xi_std_burnin_gauge_invariant",
              "regul_xi_shift", "regul_xi_center", "regul_xi_center_hyper", "regul_xi_invariant_iff",
              "regul_xi_not_invariant_counterexample",
              # orthonormality
              "householderQ_symm", "householderQ_orthogonal", "householderQ_involutive", "householderQ_col_j",
              "householderQ_reflects", "basis_orthonormal", "basis_cols_unit", "basis_cols_pairwise_orth",
              "basis_projector", "basis_spans_complement", "spaceShift_in_basis", "basis_cols_metric_orth_direction",
              "basis_metric_orthonormal_counterexample", "basis_metric_orthonormal_partial", "mixing_rank_le",
              "householderQ_orthogonal_real", "basis_orthonormal_real", "manifold_basis_orthonormal"],
    trusted_extra=[
        "theorems are over an ordered field / the reals (Real.exp, Real.sqrt); the executable instance is IEEE double "
        "(Float.exp / Float.sqrt), the implementation is torch float32: compared inside derived envelopes",
        "the attachment / event likelihood formulas themselves belong to C08; here only their invariance is checked on the real tensors",
    ],
    assumptions=[
        "population / individual values and visit ages are generated float32-representable",
        "model values: the C09 envelope (before and after each carry it); gaussian attachment: sum over observations of "
        "(|y-model|*2tol + 4tol^2)/sigma^2 + 64*eps32*(|nll| + n_obs*(|log sigma|+1)); event NLL: 64*eps32*(1+rho)*(survival + |log hazard| + 1); "
        "mean(xi): n*2*eps32*max|xi|; orthogonality: |<row, a>| <= 64*eps32*||a||_2*sum_j|betas_js| (times sum|sources| for a shift)",
        "the Householder hypothesis a_j != 0 is discharged by v0 = exp(.) > 0, metric > 0; the excluded point is run on the real code and reported in evidence",
        "orthonormality (dtype eps = 2^-24 float32 / 2^-53 float64, dimension <= 12; for a 2-D metric the direction G @ dgamma is formed in double by the "
        "predicate and the rounding of the function's own product, (d+2) eps |G||dgamma|, is added): |B^T B - I|, |B B^T + a a^T/|a|^2 - I| <= 64*eps entrywise "
        "(each entry is a sum of <= 6 products of entries of magnitude <= 1 that carry a few ulps each from the norm, the division and 1 - 2 v_i v_k); "
        "model Gram matrices against the implementation's: 64*eps (times max G for the metric-weighted one)",
        "idempotence / orbit of the centring: the first centring leaves a float32 mean r with |r| <= 2(n+2)*eps32*(max|xi|+|m|), so a second centring moves every "
        "entry by at most |r| + 2*eps32*|entry|; centring after a shift by c: 2(n+4)*eps32*(max|xi|+|m|+|c|+max|log_v0|+max|n_log_nu|+3)",
        "sufficient statistics: |sum xi'| <= n*(mean envelope); |sum xi'^2 - (sum xi^2 - n m^2)| <= 2*[2(n+2)*eps32*(max|xi|+|m|)*sum|xi_i-m| + 4*eps32*sum(xi_i-m)^2] "
        "(entry error of xi' times 2|xi'|, plus the rounding of the squares and of the float32 sum); xi_std^2 from the real update rule: the same over n, relative 8*eps32 for the sqrt",
        "nll_regul_xi: 32*eps32*sum_i(0.5 z_i^2 + |log sigma| + c) for the float32 entry-wise formula and sum, plus sum_i |z'_i|*delta/sigma for the entry error delta of xi' after centring",
    ],
)


def _imports():
    warnings.filterwarnings("ignore")
    import leaspy.models  # noqa: F401  (must precede leaspy.variables)
    import numpy as np
    import pandas as pd
    import torch
    from leaspy.models import BaseModel
    from leaspy.io.data import Data, Dataset
    from leaspy.utils.linalg import compute_orthonormal_basis
    from leaspy.utils.weighted_tensor import WeightedTensor
    from leaspy import exceptions as lex
    from leaspy.variables.specs import ModelParameter
    from leaspy.variables.distributions import NormalFamily as Normal
    return dict(MP=ModelParameter, Normal=Normal, np=np, pd=pd, torch=torch, BaseModel=BaseModel, Data=Data, Dataset=Dataset, cob=compute_orthonormal_basis,
                WeightedTensor=WeightedTensor, lex=lex)


def val(env, v):
    return (v.weighted_value if isinstance(v, env["WeightedTensor"]) else v).detach().clone().double()


# ----------------------------------------------------------------------------------------------
def settings_for(rng, kind, d, ns, opts=None):
    """opts (all optional): wide (positions / velocities / mixing coefficients to the edge of what the models accept),
    bern (binary outcomes, logistic kind), nb_events (joint kind)."""
    opts = opts or {}
    wide = bool(opts.get("wide"))
    P = {}
    name = kind
    obs = {"y": "gaussian-diagonal" if d > 1 else "gaussian-scalar"}
    extra = {}

    def logv0():
        u = rng.random()
        if u < 0.25:                 # slowly changing outcomes / ages in another unit: tiny velocities
            return rng.uniform(-14, -9)
        if wide and u < 0.45:        # fast outcomes (ages in decades): the whole course within a few years
            return rng.uniform(-2.0, 0.0)
        return rng.uniform(-5, -2.0)
    if kind in ("logistic", "joint"):
        P["log_g_mean"] = [f32(rng.uniform(-4.0, 6.0) if wide else rng.uniform(-1.5, 3.0)) for _ in range(d)]
        regime = logv0()
        P["log_v0_mean"] = [f32(regime + rng.uniform(-1.5, 1.5) if wide else (rng.uniform(-14, -9) if regime < -8 else rng.uniform(-5, -2.0))) for _ in range(d)]
    elif kind == "linear":
        P["g_mean"] = [f32(rng.uniform(-0.5, 1.5)) for _ in range(d)]
        regime = logv0()
        P["log_v0_mean"] = [f32(regime + rng.uniform(-1.5, 1.5) if wide else (rng.uniform(-14, -9) if regime < -8 else rng.uniform(-5, -2.0))) for _ in range(d)]
    else:  # shared_speed_logistic
        P["log_g_mean"] = [f32(rng.uniform(-3.0, 5.0) if wide else rng.uniform(-1.5, 3.0))]
        P["deltas_mean"] = [f32(rng.uniform(-1.5, 1.5)) for _ in range(d - 1)]
        if d > 1 and rng.random() < 0.35:
            # an early marker already saturated, or a late one still normal, at the reference time (outcome within 1% of 0 or 1)
            k = rng.randrange(d - 1)
            P["deltas_mean"][k] = f32(rng.choice([-1, 1]) * rng.uniform(3.2, 6.0))
        P["xi_mean"] = [f32(rng.uniform(-4, -1))]
    if ns > 0:
        bmag = rng.choice([0.3, 0.3, 3.0, 0.01]) if wide else 0.3
        P["betas_mean"] = [[f32(rng.uniform(-bmag, bmag)) for _ in range(ns)] for _ in range(d - 1)]
        if wide and rng.random() < 0.2:          # a source that moves nothing (all its coefficients exactly 0)
            z = rng.randrange(ns)
            for row in P["betas_mean"]:
                row[z] = 0.0
    if kind == "joint":
        ne = int(opts.get("nb_events", 1))
        P["n_log_nu_mean"] = [f32(rng.uniform(-3.0, -1.0)) for _ in range(ne)]
        P["log_rho_mean"] = [f32(rng.uniform(0.2, 1.8) if not wide else rng.uniform(-1.0, 2.3)) for _ in range(ne)]
        obs["event"] = "weibull-right-censored-with-sources" if ns > 0 else "weibull-right-censored"
        if ns > 0:
            P["zeta_mean"] = [[f32(rng.uniform(-0.3, 0.3)) for _ in range(ne)] for _ in range(ns)]
        extra["nb_events"] = ne
        if ns == 0:
            obs["y"] = "gaussian-scalar"   # the joint model without sources only supports the scalar-noise observation model
    if opts.get("bern") and kind == "logistic":
        obs["y"] = "bernoulli"
    P["tau_mean"] = [f32(rng.uniform(60, 80))]
    P["tau_std"] = [f32(rng.uniform(3, 10))]
    P["xi_std"] = [f32(rng.uniform(.2, 1))]
    if obs["y"] != "bernoulli":
        P["noise_std"] = [f32(rng.uniform(.05, .2)) for _ in range(d)] if obs["y"] == "gaussian-diagonal" else f32(0.1)
    s = {"leaspy_version": "2.0.0-dev", "name": name, "features": [f"Y{k}" for k in range(d)], "dimension": d,
         "obs_models": obs, "parameters": P, "source_dimension": ns}
    s.update(extra)
    return s


def make_table(rng, n, d, joint, binary=False, nb_events=1):
    rows = []
    # sometimes one individual has no observed value at all (every feature missing at each of its visits: a subject
    # followed for the event only, or a table read with drop_full_nan=False): the gauge must hold for it as well
    blank = rng.randrange(n) if (n >= 3 and rng.random() < 0.35) else None
    for i in range(n):
        nv = rng.randrange(1, 5)
        t0 = rng.uniform(55, 80)
        ts = sorted({round((t0 + rng.uniform(0, 10)) * 16) / 16 for _ in range(nv)})
        et = round((ts[-1] + rng.uniform(0.5, 6)) * 16) / 16
        # both censored and observed events are present when n >= 2; with several competing events the public reader
        # wants the code of the event that occurred (1 .. nb_events), the largest code present at least once
        eb = (nb_events if i == 0 else 1 + (i // 2) % nb_events) if (i % 2 == 0) else 0
        for t in ts:
            r = {"ID": f"s{i:02d}", "TIME": t}
            if joint:
                r["EVENT_TIME"], r["EVENT_BOOL"] = et, eb
            some = False
            for k in range(d):
                if i == blank:
                    r[f"Y{k}"] = float("nan")
                elif rng.random() > 0.2 or (k == d - 1 and not some):
                    r[f"Y{k}"] = float(rng.random() < 0.5) if binary else round(rng.uniform(0, 1) * 64) / 64
                    some = True
                else:
                    r[f"Y{k}"] = float("nan")
            rows.append(r)
    return rows


def read_cohort(env, rows, kind):
    pd = env["pd"]
    df = pd.DataFrame(rows)
    data = env["Data"].from_dataframe(df, data_type="joint", drop_full_nan=False) if kind == "joint" else env["Data"].from_dataframe(df, drop_full_nan=False)
    return env["Dataset"](data)


def build_state(env, chk, rng, kind, d, ns, n_ind, case, opts=None):
    """model + dataset + a random state (population and individual latent variables). Returns None on (reported) failure."""
    torch = env["torch"]
    opts = opts or {}
    wide = bool(opts.get("wide"))
    st = settings_for(rng, kind, d, ns, opts)
    ne = int(opts.get("nb_events", 1)) if kind == "joint" else 1
    rows = make_table(rng, n_ind, d, kind == "joint", binary=(st["obs_models"]["y"] == "bernoulli"), nb_events=ne)
    case.update({"settings": st, "table": rows})
    if opts:
        case["opts"] = dict(opts)
    try:
        with core.quiet():
            model = env["BaseModel"].load(st)
            ds = read_cohort(env, rows, kind)
            # the state the algorithms work on keeps its automatic fork; both kinds of clone are used
            state = model.state.clone(disable_auto_fork=not opts.get("keep_fork"))
            model.put_data_variables(state, ds)
    except Exception as e:  # noqa
        chk.impl_failure(case, f"admissible model / data refused: {err_class(e, env)}: {e}")
        return None
    n = ds.n_individuals
    lat = {}
    # population latent variables: a perturbation of the prior mode, as the sampler would leave them
    pop_names = {"logistic": ["log_g", "log_v0", "betas"], "linear": ["g", "log_v0", "betas"],
                 "joint": ["log_g", "log_v0", "betas", "n_log_nu", "log_rho", "zeta"]}[kind]
    for name in pop_names:
        if name in ("betas", "zeta") and ns == 0:
            continue
        cur = state[name]
        pert = torch.tensor([f32(rng.uniform(-0.05, 0.05)) for _ in range(cur.numel())]).reshape(cur.shape)
        lat[name] = (cur + pert).float()
    if wide:
        # a state whose individual parameters are expressed with another speed unit (any offset, either sign, also none at all),
        # individuals several prior std-devs apart
        off = rng.choice([0.0, 0.3, -0.3, 2.0, -2.0, rng.uniform(3, 8), -rng.uniform(3, 8), rng.uniform(5, 8), -rng.uniform(5, 8)])
        spread = rng.choice([1.0, 1.0, 4.5, 0.0])
        lat["xi"] = torch.tensor([[f32(rng.uniform(-spread, spread) + off)] for _ in range(n)])
    else:
        center_big = rng.random() < 0.3
        lat["xi"] = torch.tensor([[f32(rng.uniform(-1, 1) + (2.0 if center_big else 0.3))] for _ in range(n)])
    # tau below the event time (joint) so that the survival term is moderate
    if kind == "joint":
        ev = ds.event_time.reshape(n, -1)[:, 0].tolist()
        # (wide) now and then an event BEFORE the reference time: the prohibitive constant must come through the centring untouched
        lat["tau"] = torch.tensor([[f32(e + rng.uniform(0.5, 3)) if (wide and rng.random() < 0.15) else f32(e - rng.uniform(2, 25))] for e in ev])
    else:
        lat["tau"] = torch.tensor([[f32(rng.uniform(55, 85))] for _ in range(n)])
    if ns > 0:
        smag = rng.choice([1.5, 1.5, 4.0]) if wide else 1.5
        lat["sources"] = torch.tensor([[f32(rng.uniform(-smag, smag)) for _ in range(ns)] for _ in range(n)])
    try:
        with core.quiet():
            for k, v in lat.items():
                state[k] = v
    except Exception as e:  # noqa
        chk.impl_failure(case, f"state refused admissible latent values: {err_class(e, env)}: {e}")
        return None
    case["latents"] = {k: v.tolist() for k, v in lat.items()}
    return model, ds, state


def snapshot(env, state, kind, ns):
    names = ["model", "nll_attach_ind", "xi", "log_v0", "tau", "v0", "metric", "nll_regul_xi", "xi_std", "xi_mean"]
    names.append("g" if kind == "linear" else "log_g")
    if kind == "joint":
        names += ["nll_attach_y_ind", "nll_attach_event_ind", "n_log_nu", "nu", "rho", "event"]
        if ns > 0:
            names += ["survival_shifts"]
    if ns > 0:
        names += ["space_shifts", "mixing_matrix", "orthonormal_basis", "metric_sqr", "betas", "sources"]
    out = {}
    for k in names:
        out[k] = val(env, state[k])
    return out


# ----------------------------------------------------------------------------------------------
def center_case(chk, env, rng, kind, d, ns, n_ind, lines, pending, forced=None, opts=None, expect_after=None):
    np, torch = env["np"], env["torch"]
    case = {"op": "center", "kind": kind, "d": d, "ns": ns, "n_individuals": n_ind}
    if forced is not None:
        built = forced(case)
        opts = case.get("opts") or {}
    else:
        opts = opts or {}
        built = build_state(env, chk, rng, kind, d, ns, n_ind, case, opts)
    if built is None:
        return
    model, ds, state = built
    daf = not opts.get("keep_fork")
    bern = case["settings"]["obs_models"]["y"] == "bernoulli"
    try:
        with core.quiet():
            before = snapshot(env, state, kind, ns)
            A = state.clone(disable_auto_fork=daf)
            type(model)._center_xi_realizations(A)
            after_direct = snapshot(env, A, kind, ns)
            B = state.clone(disable_auto_fork=daf)
            suff = model.compute_sufficient_statistics(B)
            after = snapshot(env, B, kind, ns)
            untouched = snapshot(env, state, kind, ns)
            # two states given the very same tensor of individual log-accelerations (a State stores what it is given): re-centring
            # one of them must leave every value of the other one - trajectories, attachments, event terms - as it was
            shared_xi = state["xi"].clone().contiguous()
            shared_copy = shared_xi.clone()
            T = state.clone(disable_auto_fork=True)
            U = state.clone(disable_auto_fork=True)
            T["xi"] = shared_xi
            U["xi"] = shared_xi
            twin_before = snapshot(env, U, kind, ns)
            if rng.random() < 0.5:
                type(model)._center_xi_realizations(T)
            else:
                model.compute_sufficient_statistics(T)
            U2 = U.clone(disable_auto_fork=True)       # what a later re-centring of the other state would start from
            U2["xi"] = U["xi"]
            twin_after = snapshot(env, U2, kind, ns)
            twin_tensor_same = bool(torch.equal(shared_xi, shared_copy))
            # centring twice; centring after a gauge shift by c
            A2 = A.clone(disable_auto_fork=True)
            type(model)._center_xi_realizations(A2)
            twice = snapshot(env, A2, kind, ns)
            gc = case.get("gauge_c")
            if gc is None:
                # (wide) a change of the speed unit by up to exp(+-8)
                gc = f32(rng.uniform(-8, 8) if (opts.get("wide") and rng.random() < 0.6) else rng.uniform(-2, 2))
                case["gauge_c"] = gc
            S = state.clone(disable_auto_fork=True)
            S["xi"] = (state["xi"] - gc).float()
            S["log_v0"] = (state["log_v0"] + gc).float()
            if kind == "joint":
                S["n_log_nu"] = (state["n_log_nu"] + gc).float()
            type(model)._center_xi_realizations(S)
            orbit = snapshot(env, S, kind, ns)
            # the real M-step rule of xi_std on the statistics collected after the centring
            mp = B.dag.sorted_variables_by_type[env["MP"]]
            has_xi_mean_rule = "xi_mean" in mp
            try:
                std_new = float(mp["xi_std"].compute_update(state=B.clone(disable_auto_fork=True), suff_stats=suff, burn_in=False).reshape(-1)[0])
            except env["lex"].LeaspyConvergenceError:
                std_new = "err:algo"
    except Exception as e:  # noqa
        chk.impl_failure(case, f"re-centring raised on an admissible state: {err_class(e, env)}: {e}")
        return
    fails = []
    n = ds.n_individuals
    xi0 = before["xi"].reshape(-1)
    m_true = float(xi0.mean())
    # 0'. (states taken from a running fit) the fit's own call left exactly what the direct call leaves
    for k, v in (expect_after or {}).items():
        if k in after and not torch.equal(after[k], v):
            fails.append(f"the re-centring performed inside the fit left another '{k}' than compute_sufficient_statistics called on a copy of the same state "
                         f"(max difference {float((after[k] - v).abs().max()):.3g})")
            break
    # 0. the two entry points agree, the source state is not modified by working on clones
    for k in after:
        if not torch.equal(after[k], after_direct[k]):
            fails.append(f"compute_sufficient_statistics and _center_xi_realizations leave different '{k}'")
            break
    for k in before:
        if not torch.equal(before[k], untouched[k]):
            fails.append(f"centring a clone changed '{k}' of the original state")
            break
    for k in twin_before:
        if not same_values(twin_before[k], twin_after[k]):
            fails.append(f"re-centring one state changed '{k}' of ANOTHER state that had been given the same tensor of individual log-accelerations "
                         f"(max difference {float((twin_before[k].double() - twin_after[k].double()).abs().max()):.3g}; mean(xi) = {m_true:.3g})")
            break
    else:
        if not twin_tensor_same:
            fails.append(f"re-centring rewrote in place the tensor of individual log-accelerations the caller had handed to the state "
                         f"(max change {float((shared_xi - shared_copy).abs().max()):.3g})")
    # 1. mean zero
    xmax = float(xi0.abs().max())
    mean_after = float(after["xi"].mean())
    tol_mean = 2 * (n + 2) * EPS32 * (xmax + abs(m_true)) + 1e-30
    if abs(mean_after) > tol_mean:
        fails.append(f"mean(xi) after re-centring is {mean_after!r} (envelope {tol_mean:.3g}); before it was {m_true!r}")
    # 2. model values unchanged (per individual, real visits only)
    pop = {"kind": "linear" if kind == "linear" else "logistic", "d": d, "ns": ns, "features": [f"Y{k}" for k in range(d)]}
    if kind == "linear":
        pop["g"] = before["g"].reshape(-1).tolist()
    else:
        pop["log_g"] = before["log_g"].reshape(-1).tolist()
    pop["log_v0"] = before["log_v0"].reshape(-1).tolist()
    if ns > 0:
        pop["betas"] = before["betas"].tolist()
    nvis = [int(x) for x in ds.n_visits_per_individual]
    tp = ds.timepoints.double()
    tols = []
    ages_rows, w_rows = [], []
    worst_model = 0.0
    for i in range(n):
        ages = [float(x) for x in tp[i, :nvis[i]]]
        ip = {"xi": float(xi0[i]), "tau": float(before["tau"].reshape(-1)[i])}
        w = before["space_shifts"][i].tolist() if ns > 0 else [0.0] * d
        if ns > 0:
            ip["sources"] = before["sources"][i].tolist()
        ref, tol, _ = reference(pop, ip, ages, w=w)
        tols.append(tol)
        ages_rows.append(ages)
        w_rows.append(w)
        # the gauge invariant itself, for EVERY individual (also one without any observed value, whose rows of `model` are
        # masked to 0): log-velocity xi_i + log_v0 (and xi_i + n_log_nu in the joint model) is unchanged
        for nm in (["log_v0"] + (["n_log_nu"] if kind == "joint" else [])):
            bsum = (before["xi"].reshape(-1)[i].double() + before[nm].reshape(-1).double())
            asum = (after["xi"].reshape(-1)[i].double() + after[nm].reshape(-1).double())
            dev = float((asum - bsum).abs().max())
            env_g = 8 * EPS32 * (float(before["xi"].abs().max()) + float(before[nm].abs().max()) + abs(m_true) + 1.0)
            if dev > env_g:
                fails.append(f"xi + {nm} of individual {i} changed by the re-centring by {dev:.3g} (envelope {env_g:.3g}): its velocity is not what it was")
        observed_visit = [bool((ds.mask[i, j, :] > 0).any()) for j in range(nvis[i])]
        for j in range(nvis[i]):
            if not observed_visit[j]:
                # by design the model value is exactly 0 where no feature of the visit is observed (C06)
                if float(before["model"][i, j, :].abs().max()) != 0.0 or float(after["model"][i, j, :].abs().max()) != 0.0:
                    fails.append(f"model value of individual {i} at visit {j} without any observed feature is not 0")
                continue
            for k in range(d):
                b, a = float(before["model"][i, j, k]), float(after["model"][i, j, k])
                worst_model = max(worst_model, abs(a - b))
                if abs(a - b) > 2 * tol[j][k]:
                    fails.append(f"model value of individual {i}, visit {j}, feature {k} changed by the re-centring: {b!r} -> {a!r} (envelope {2*tol[j][k]:.3g})")
                if abs(b - ref[j][k]) > tol[j][k]:
                    fails.append(f"model value of individual {i}, visit {j}, feature {k} is {b!r}, closed form {ref[j][k]!r}")
    chk.extra_cov["max_model_change"] = max(chk.extra_cov.get("max_model_change", 0.0), worst_model)
    # 3. attachment of the outcomes unchanged (gaussian: current noise level; binary outcomes: Bernoulli)
    key_y = "nll_attach_y_ind" if kind == "joint" else "nll_attach_ind"
    sig = [1.0] if bern else val(env, state["noise_std"]).reshape(-1).tolist()
    yv, mask = ds.values.double(), ds.mask.double()
    for i in range(n):
        bound, nobs = 0.0, 0
        for j in range(nvis[i]):
            for k in range(d):
                if mask[i, j, k] > 0:
                    t2 = 2 * tols[i][j][k]
                    if bern:
                        # d/dp of -log p^y (1-p)^(1-y) is 1/p resp. 1/(1-p), p clamped to [eps, 1-eps] by torch
                        pm_ = float(before["model"][i, j, k])
                        q = pm_ if float(yv[i, j, k]) == 1.0 else 1.0 - pm_
                        bound += 2.0 * t2 / max(q - t2, 2.0 ** -23)
                    else:
                        s = sig[k] if len(sig) > 1 else sig[0]
                        bound += (abs(float(yv[i, j, k]) - float(before["model"][i, j, k])) * t2 + t2 * t2) / (s * s)
                    nobs += 1
        b, a = float(before[key_y].reshape(-1)[i]), float(after[key_y].reshape(-1)[i])
        lsig = max(abs(math.log(s)) for s in sig)
        bound += 64 * EPS32 * (abs(b) + nobs * (lsig + 1))
        if not abs(a - b) <= bound:
            fails.append(f"attachment term '{key_y}' of individual {i} changed by the re-centring: {b!r} -> {a!r} (envelope {bound:.3g})")
    # 4. joint: event likelihood unchanged (every competing event)
    if kind == "joint":
        rhos = before["rho"].reshape(-1).tolist()
        nus = before["nu"].reshape(-1).tolist()
        ne = len(rhos)
        ev_t = ds.event_time.double().reshape(n, -1).tolist()
        ev_b = ds.event_bool.reshape(n, -1).tolist()
        if len(ev_t[0]) != ne or before["n_log_nu"].numel() != ne:
            fails.append(f"{len(ev_t[0])} event columns in the data, {ne} Weibull shapes, {before['n_log_nu'].numel()} n_log_nu in the state")
        worst_ev = 0.0
        for i in range(n):
            xi_i, tau_i = float(xi0[i]), float(before["tau"].reshape(-1)[i])
            bound = 0.0
            for e_ in range(min(ne, len(ev_t[i]))):
                rho, nu = rhos[e_], nus[e_]
                sshift = float(before["survival_shifts"][i].reshape(-1)[e_]) if ns > 0 else 0.0
                nu_rep = nu * math.exp(-(xi_i + sshift / rho)) if ns > 0 else math.exp(-xi_i) * nu
                dt = max(ev_t[i][e_] - tau_i, 0.0)
                surv = (dt / nu_rep) ** rho
                lh = abs(math.log(rho / nu_rep)) + abs((rho - 1) * math.log(dt / nu_rep)) if dt > 0 else 0.0
                bound += 64 * EPS32 * (1 + rho) * (surv + lh + 1.0)
            b, a = float(before["nll_attach_event_ind"].reshape(-1)[i]), float(after["nll_attach_event_ind"].reshape(-1)[i])
            worst_ev = max(worst_ev, abs(a - b) / (abs(b) + 1))
            if not abs(a - b) <= bound:
                fails.append(f"event likelihood of individual {i} (event at {ev_t[i]}, observed={[bool(x) for x in ev_b[i]]}) changed by the re-centring: {b!r} -> {a!r} (envelope {bound:.3g})")
            if abs(b) >= 1e300 and a != b:
                fails.append(f"prohibitive constant of individual {i} (event before the reference time) changed by the re-centring: {b!r} -> {a!r}")
        chk.extra_cov["max_rel_event_nll_change"] = max(chk.extra_cov.get("max_rel_event_nll_change", 0.0), worst_ev)
        # reparametrised scale from the public variables nu, xi (and survival shifts)
        for i in range(n):
            for e_ in range(ne):
                args = f"nurep nlognu={fmt_float(float(before['n_log_nu'].reshape(-1)[e_]))} xi={fmt_float(float(xi0[i]))} m={fmt_float(m_true)}"
                if ns > 0:
                    args += f" rho={fmt_float(rhos[e_])} s={fmt_float(float(before['survival_shifts'][i].reshape(-1)[e_]))}"
                else:
                    args += " rho=none s=none"

                def nurep(snap, i=i, e_=e_):
                    x = float(snap["xi"].reshape(-1)[i]); nn = float(snap["nu"].reshape(-1)[e_]); r = float(snap["rho"].reshape(-1)[e_])
                    if ns > 0:
                        return nn * math.exp(-(x + float(snap["survival_shifts"][i].reshape(-1)[e_]) / r))
                    return math.exp(-x) * nn
                lines.append(args)
                pending.append(("nurep", dict(case, individual=i, event=e_), (nurep(before), nurep(after)), None))
    # 6. gauge completeness on the real code: idempotence, constancy on the orbit, sufficient statistics, regularity term
    gauge_extra(chk, env, case, kind, n, before, after_direct, twice, orbit, suff, std_new, has_xi_mean_rule, gc, tol_mean, fails, lines, pending)
    # 5. space shifts / mixing unchanged up to rounding (the new v0 is collinear to the old one)
    if ns > 0:
        bsum = max(sum(abs(b) for b in col) for col in zip(*pop["betas"]))
        for i in range(n):
            ssum = sum(abs(x) for x in before["sources"][i].tolist())
            dwi = 64 * EPS32 * ssum * bsum + 1e-30
            if float((after["space_shifts"][i] - before["space_shifts"][i]).abs().max()) > 2 * dwi:
                fails.append(f"space shift of individual {i} changed by the re-centring beyond rounding")
    for f in fails[:3]:
        chk.impl_failure(case, f)
    # ---- model line
    popv = pop["g"] if kind == "linear" else pop["log_g"]
    line = (f"gauge kind={kind} pop={fmt_list(popv, fmt_float)} logv0={fmt_list(pop['log_v0'], fmt_float)} "
            f"xi={fmt_list(xi0.tolist(), fmt_float)} tau={fmt_list(before['tau'].reshape(-1).tolist(), fmt_float)} "
            f"w={fmt_list2(w_rows, fmt_float) if ns > 0 else 'none'} ages={fmt_list2(ages_rows, fmt_float)} "
            f"nlognu={fmt_list(before['n_log_nu'].reshape(-1).tolist(), fmt_float) if kind == 'joint' else 'none'}")
    impl = {"xi": after["xi"].reshape(-1).tolist(), "logv0": after["log_v0"].reshape(-1).tolist(),
            "nlognu": after["n_log_nu"].reshape(-1).tolist() if kind == "joint" else None,
            "before": [[float(before["model"][i, j, k]) for j in range(nvis[i]) for k in range(d)] for i in range(n)],
            "after": [[float(after["model"][i, j, k]) for j in range(nvis[i]) for k in range(d)] for i in range(n)],
            "tol": [[tols[i][j][k] for j in range(nvis[i]) for k in range(d)] for i in range(n)],
            # entries of visits at which some feature is observed (elsewhere `model` is 0 by design and is not compared)
            "obs": [[bool((ds.mask[i, j, :] > 0).any()) for j in range(nvis[i]) for k in range(d)] for i in range(n)],
            "tol_lin": 2 * (n + 2) * EPS32 * (xmax + abs(m_true) + max(abs(x) for x in pop["log_v0"]) + 3.0)}
    lines.append(line)
    pending.append(("gauge", case, impl, None))
    chk.case(("center", kind, d, ns, json.dumps(case.get("latents"), sort_keys=True)), nontrivial=(n >= 2 and abs(m_true) > 1e-3),
             sample={k: case[k] for k in ("op", "kind", "d", "ns", "n_individuals", "latents")} if d <= 2 and n <= 3 else None,
             tags={"center_kind": kind, "center_dimension": d, "center_sources": ns, "center_n_individuals": n,
                   "center_obs": case["settings"]["obs_models"]["y"], "center_events": case["settings"].get("nb_events", 0),
                   "center_opts": ",".join(sorted(k for k, v in opts.items() if v)) or "base",
                   "center_mean_xi": "0" if m_true == 0 else ("<-2" if m_true < -2 else "<0" if m_true < 0 else "<=2" if m_true <= 2 else ">2")})
    # orthogonality on this very state too, on the centred one, and on the SAME centred state after writing other positions /
    # velocities / mixing coefficients into it one at a time (a basis kept from before would be orthogonal to the old direction)
    if ns > 0:
        ortho_state(chk, env, case, kind, before, lines, pending)
        ortho_state(chk, env, dict(case, after="re-centring"), kind, after, lines, pending)
        edits = case.get("edits")
        if edits is None:
            posname = "g" if kind == "linear" else "log_g"
            edits = [[posname, [f32(rng.uniform(-1.0, 2.5)) for _ in range(d)]],
                     ["log_v0", [f32(rng.uniform(-6.0, -1.5)) for _ in range(d)]],
                     ["betas", [[f32(rng.uniform(-0.5, 0.5)) for _ in range(ns)] for _ in range(d - 1)]]]
            case["edits"] = edits
        for nm, new_v in edits:
            try:
                with core.quiet():
                    B[nm] = torch.tensor(new_v)
                    snap = snapshot(env, B, kind, ns)
            except Exception as e:  # noqa
                chk.impl_failure(dict(case, after=f"writing {nm}"), f"state refused admissible value of {nm}: {err_class(e, env)}: {e}")
                break
            ortho_state(chk, env, dict(case, after=f"writing {nm} = {new_v} into the centred state"), kind, snap, lines, pending)


def gauge_extra(chk, env, case, kind, n, before, once, twice, orbit, suff, std_new, has_xi_mean_rule, gc, tol_mean, fails, lines, pending):
    """idempotence / orbit / sufficient statistics / regularity term, on the implementation's tensors; queues the `gauge2` model line"""
    torch = env["torch"]
    xi0 = before["xi"].reshape(-1)
    m = float(xi0.mean())
    xmax = float(xi0.abs().max())
    lv = before["log_v0"].reshape(-1)
    nl = before["n_log_nu"].reshape(-1) if kind == "joint" else None
    names = ["xi", "log_v0"] + (["n_log_nu"] if kind == "joint" else [])
    # idempotence
    for k in names:
        a1, a2 = once[k].reshape(-1), twice[k].reshape(-1)
        tol = tol_mean + 2 * EPS32 * float(a1.abs().max()) + 1e-30
        dev = float((a2 - a1).abs().max())
        if dev > tol:
            fails.append(f"re-centring is not idempotent on '{k}': a second centring moves it by {dev:.3g} (envelope {tol:.3g}; mean(xi) after the first was {float(once['xi'].mean())!r})")
            break
    scale = xmax + abs(m) + abs(gc) + float(lv.abs().max()) + (float(nl.abs().max()) if nl is not None else 0.0) + 3.0
    tol_orbit = 2 * (n + 4) * EPS32 * scale
    for k in names:
        dev = float((orbit[k].reshape(-1) - once[k].reshape(-1)).abs().max())
        if dev > tol_orbit:
            fails.append(f"centring after the gauge shift c = {gc!r} (xi - c, log_v0 + c{', n_log_nu + c' if kind == 'joint' else ''}) differs from centring directly on '{k}' by {dev:.3g} (envelope {tol_orbit:.3g})")
            break
    # sufficient statistics collected after the centring
    sx = sq = None
    try:
        sxi, sxq = suff["xi"].double().reshape(-1), suff["xi_sqr"].double().reshape(-1)
        if not torch.equal(sxi, once["xi"].reshape(-1)):
            fails.append("sufficient statistic 'xi' is not the centred xi of the state")
        sx, sq = float(sxi.sum()), float(sxq.sum())
    except KeyError as e:
        fails.append(f"sufficient statistics lack {e}")
    dev0 = (xi0 - m)
    s2 = float((dev0 * dev0).sum())          # = sum xi^2 - n m^2, in double
    s2_alt = float((xi0 * xi0).sum()) - n * m * m
    # first order in the entry error delta of xi' (|delta| <= 2(n+2) eps32 (max|xi| + |m|): the float32 mean and the subtraction), plus the
    # second-order term n delta^2 that is all there is when every xi_i equals the mean (sum of squares of pure rounding residues)
    delta_xi = 2 * (n + 2) * EPS32 * (xmax + abs(m))
    env_sq = 2 * (delta_xi * float(dev0.abs().sum()) + 4 * EPS32 * s2 + n * delta_xi * delta_xi) + 1e-30
    if sx is not None:
        if abs(sx) > n * tol_mean:
            fails.append(f"sum of the collected statistic 'xi' is {sx!r}, not 0 (envelope {n*tol_mean:.3g}; mean removed {m!r})")
        if abs(sq - s2) > env_sq or abs(sq - s2_alt) > env_sq + 8 * 2.0 ** -53 * (float((xi0 * xi0).sum()) + n * m * m):
            fails.append(f"sum of the collected statistic 'xi_sqr' is {sq!r}, expected sum(xi^2) - n*mean^2 = {s2!r} (envelope {env_sq:.3g})")
    # M-step consequences on the real rules
    if has_xi_mean_rule:
        chk.tag("xi_mean_rule", "is-a-model-parameter")
    elif float(before["xi_mean"].reshape(-1)[0]) != 0.0:
        fails.append(f"xi_mean hyperparameter is {float(before['xi_mean'].reshape(-1)[0])!r}, not 0: the centred statistics (mean exactly 0) no longer match the prior mean")
    var = s2 / n
    if isinstance(std_new, str) or std_new is None:
        chk.tag("xi_std_rule", "refused" if var < 1e-5 * (1 + 1e-3) else "refused-unexpectedly")
        if var > 1e-5 * (1 + 1e-3) + env_sq / n:
            fails.append(f"xi_std update rule refused statistics with dispersion {var!r} around 0")
    else:
        chk.tag("xi_std_rule", "ok")
        if abs(std_new * std_new - var) > env_sq / n + 16 * EPS32 * var:
            fails.append(f"xi_std update from the centred statistics is {std_new!r} (square {std_new*std_new!r}); dispersion of xi around its mean is {var!r}")
    # regularity term: NOT gauge-invariant; changes by n m (2 mu - m) / (2 sigma^2)
    sig = float(before["xi_std"].reshape(-1)[0])
    mu = float(before["xi_mean"].reshape(-1)[0])
    cst = float(env["Normal"].nll_constant_standard)
    z0 = (xi0 - mu) / sig
    z1 = (xi0 - m - mu) / sig
    delta = (n + 1) * EPS32 * (xmax + abs(m))
    env_b = 32 * EPS32 * float((0.5 * z0 * z0 + abs(math.log(sig)) + cst).sum())
    env_a = 32 * EPS32 * float((0.5 * z1 * z1 + abs(math.log(sig)) + cst).sum()) + float(z1.abs().sum()) * delta / sig
    rb, ra = float(before["nll_regul_xi"].reshape(-1)[0]), float(once["nll_regul_xi"].reshape(-1)[0])
    expected = n * m * (2 * mu - m) / (2 * sig * sig)
    if abs((ra - rb) - expected) > env_a + env_b:
        fails.append(f"nll_regul_xi moved by {ra-rb!r} under the re-centring, expected n*m*(2*mu-m)/(2*sigma^2) = {expected!r} (envelope {env_a+env_b:.3g})")
    chk.tag("regul_xi", "changed-beyond-rounding" if abs(ra - rb) > env_a + env_b else "within-rounding")
    chk.extra_cov["max_regul_xi_drop"] = max(chk.extra_cov.get("max_regul_xi_drop", 0.0), rb - ra)
    lines.append(f"gauge2 xi={fmt_list(xi0.tolist(), fmt_float)} logv0={fmt_list(lv.tolist(), fmt_float)} "
                 f"nlognu={fmt_list(nl.tolist(), fmt_float) if nl is not None else 'none'} c={fmt_float(gc)} mu={fmt_float(mu)} "
                 f"sigma={fmt_float(sig)} cst={fmt_float(cst)}")
    impl = {"sum": sx, "sumsq": sq, "regul_before": rb, "regul_after": ra, "tol_lin": tol_orbit, "tol_sum": n * tol_mean, "tol_sq": env_sq,
            "tol_rb": env_b, "tol_ra": env_a}
    for tag, snap in (("once", once), ("twice", twice), ("orbit", orbit)):
        impl[f"{tag}_xi"] = snap["xi"].reshape(-1).tolist()
        impl[f"{tag}_logv0"] = snap["log_v0"].reshape(-1).tolist()
        impl[f"{tag}_nlognu"] = snap["n_log_nu"].reshape(-1).tolist() if kind == "joint" else None
    pending.append(("gauge2", dict(case, op="center"), impl, None))


def ortho_state(chk, env, case, kind, snap, lines, pending):
    """<mixing row, metric^2 v0> = 0 and <space shift, metric^2 v0> = 0 on a real state."""
    case = dict(case, op="ortho-state")
    a = (snap["metric_sqr"] * snap["v0"]).reshape(-1)
    check_ortho(chk, env, case, a, snap["mixing_matrix"], snap["space_shifts"], snap["betas"], snap["sources"], snap["orthonormal_basis"])
    # in logit space: shift metric_k w_k is orthogonal to the velocity metric_k v0_k
    lines.append(f"ortho dgamma={fmt_list(snap['v0'].reshape(-1).tolist(), fmt_float)} G={fmt_list(snap['metric_sqr'].reshape(-1).tolist(), fmt_float)} "
                 f"j=0 betas={fmt_list2(snap['betas'].tolist(), fmt_float)} src={fmt_list2(snap['sources'].tolist(), fmt_float)}")
    pending.append(("ortho", case, {"basis": snap["orthonormal_basis"].tolist(), "mixing": snap["mixing_matrix"].tolist(),
                                    "shifts": snap["space_shifts"].tolist(), "betas": snap["betas"].tolist(),
                                    "src": snap["sources"].tolist(), "eps": EPS32}, None))


def check_ortho(chk, env, case, a, mixing, shifts, betas, sources, basis):
    anorm = float(a.norm())
    bs = [sum(abs(float(b)) for b in col) for col in zip(*betas.tolist())]    # per source
    worst = 0.0
    fails = []
    if basis is not None:
        d = a.numel()
        if tuple(basis.shape) != (d, d - 1):
            fails.append(f"orthonormal basis has shape {tuple(basis.shape)}, expected {(d, d-1)}")
        else:
            dots = (basis.t() @ a).abs()
            if float(dots.max()) > 32 * EPS32 * anorm:
                fails.append(f"a column of the orthonormal basis is not orthogonal to a = G*dgamma (metric^2*v0, resp. g_metric*collin): |<col, a>| = {float(dots.max()):.3g} (||a|| = {anorm:.3g})")
    for s in range(mixing.shape[0]):
        dot = abs(float((mixing[s] * a).sum()))
        bound = 64 * EPS32 * anorm * bs[s] + 1e-30
        worst = max(worst, dot / (anorm * (float(mixing[s].norm()) + 1e-30)))
        if dot > bound:
            fails.append(f"mixing-matrix row {s} is not orthogonal to the direction of progression: <row, a> = {dot:.3g} "
                         f"(||row|| = {float(mixing[s].norm()):.3g}, ||a|| = {anorm:.3g}, envelope {bound:.3g})")
    if shifts is not None:
        for i in range(shifts.shape[0]):
            dot = abs(float((shifts[i] * a).sum()))
            bound = 64 * EPS32 * anorm * sum(abs(float(x)) * b for x, b in zip(sources[i].tolist(), bs)) + 1e-30
            if dot > bound:
                fails.append(f"space shift of individual {i} is not orthogonal to the direction of progression: <w, a> = {dot:.3g} (envelope {bound:.3g})")
    chk.extra_cov["max_rel_mixing_dot"] = max(chk.extra_cov.get("max_rel_mixing_dot", 0.0), worst)
    for f in fails[:2]:
        chk.impl_failure(case, f)


SHARED_NAMES = ("collin_to_d_gamma_t0", "g_metric", "metric", "mixing_matrix", "space_shifts", "betas", "sources", "orthonormal_basis",
                "log_g", "deltas")


def shared_case(chk, env, rng, d, ns, n_ind, lines, pending, opts=None):
    """shared-speed model: no re-centring; orthogonality of mixing rows / space shifts to g_metric * collin.
    With opts['edit'] the SAME state then gets another log_g, other deltas and other betas written into it, one at a time, and is
    evaluated again after each (the basis must follow the current positions)."""
    torch = env["torch"]
    opts = opts or {}
    case = {"op": "ortho-shared", "kind": "shared_speed_logistic", "d": d, "ns": ns, "n_individuals": n_ind}
    st = settings_for(rng, "shared_speed_logistic", d, ns, opts)
    case["settings"] = st
    try:
        with core.quiet():
            model = env["BaseModel"].load(st)
            state = model.state.clone(disable_auto_fork=not opts.get("keep_fork"))
            smag = 4.0 if opts.get("wide") and rng.random() < 0.3 else 1.5
            src = torch.tensor([[f32(rng.uniform(-smag, smag)) for _ in range(ns)] for _ in range(n_ind)])
            state["sources"] = src
            state["xi"] = torch.zeros((n_ind, 1))
            state["tau"] = torch.full((n_ind, 1), 70.0)
            snap = {k: val(env, state[k]) for k in SHARED_NAMES}
    except Exception as e:  # noqa
        chk.impl_failure(case, f"shared-speed state could not be evaluated: {err_class(e, env)}: {e}")
        return
    case["sources"] = src.tolist()
    shared_eval(chk, env, case, st, snap, n_ind, lines, pending, opts)
    if opts.get("edit") and d > 1:
        edits = [["log_g", [f32(rng.uniform(-2.0, 4.0))]],
                 ["deltas", [f32(rng.choice([rng.uniform(-1.5, 1.5), rng.choice([-1, 1]) * rng.uniform(3.2, 6.0)])) for _ in range(d - 1)]],
                 ["betas", [[f32(rng.uniform(-0.5, 0.5)) for _ in range(ns)] for _ in range(d - 1)]]]
        for nm, new_v in edits:
            c2 = dict(case, after=f"writing {nm} = {new_v} into the same state")
            try:
                with core.quiet():
                    state[nm] = torch.tensor(new_v)
                    snap = {k: val(env, state[k]) for k in SHARED_NAMES}
            except Exception as e:  # noqa
                chk.impl_failure(c2, f"shared-speed state refused an admissible value of {nm}: {err_class(e, env)}: {e}")
                return
            shared_eval(chk, env, c2, st, snap, n_ind, lines, pending, opts, count=False)


def shared_eval(chk, env, case, st, snap, n_ind, lines, pending, opts, count=True):
    d, ns = case["d"], case["ns"]
    a = (snap["g_metric"] * snap["collin_to_d_gamma_t0"]).reshape(-1)
    check_ortho(chk, env, case, a, snap["mixing_matrix"], snap["space_shifts"], snap["betas"], snap["sources"], snap["orthonormal_basis"])
    # the logit-space reading: sum_k metric_k * w_k = 0
    met = snap["metric"].reshape(-1)
    bs = [sum(abs(float(b)) for b in col) for col in zip(*snap["betas"].tolist())]
    for i in range(n_ind):
        tot = abs(float((met * snap["space_shifts"][i]).sum()))
        # a_k = g_metric_k * collin_k equals metric_k / g only up to the rounding of g_metric = 1/(gamma (1-gamma))^2, whose
        # relative error is ~ 8 eps32 * (1/gamma + 1/(1-gamma)) = 8 eps32 * metric_k (cancellation in 1 - gamma)
        bound = (128 * EPS32 * float(met.norm()) * sum(abs(float(x)) * b for x, b in zip(snap["sources"][i].tolist(), bs))
                 + 16 * EPS32 * float((met * met * snap["space_shifts"][i].abs()).sum()) + 1e-30)
        if tot > bound:
            chk.impl_failure(case, f"shared-speed: logit shifts of individual {i} do not sum to zero: {tot:.3g} (envelope {bound:.3g})")
            break
    lines.append(f"ssvec logg={fmt_float(float(snap['log_g'].reshape(-1)[0]))} deltas={fmt_list(snap['deltas'].reshape(-1).tolist(), fmt_float)}")
    pending.append(("ssvec", case, {"collin": snap["collin_to_d_gamma_t0"].reshape(-1).tolist(), "gmetric": snap["g_metric"].reshape(-1).tolist(),
                                    "metric": met.tolist()}, None))
    lines.append(f"ortho dgamma={fmt_list(snap['collin_to_d_gamma_t0'].reshape(-1).tolist(), fmt_float)} "
                 f"G={fmt_list(snap['g_metric'].reshape(-1).tolist(), fmt_float)} j=0 "
                 f"betas={fmt_list2(snap['betas'].tolist(), fmt_float)} src={fmt_list2(snap['sources'].tolist(), fmt_float)}")
    pending.append(("ortho", case, {"basis": snap["orthonormal_basis"].tolist(), "mixing": snap["mixing_matrix"].tolist(),
                                    "shifts": snap["space_shifts"].tolist(), "betas": snap["betas"].tolist(),
                                    "src": snap["sources"].tolist(), "eps": EPS32}, None))
    if count:
        chk.case(("shared", d, ns, json.dumps(st["parameters"], sort_keys=True), json.dumps(case["sources"])), nontrivial=True,
                 sample=None, tags={"ortho_kind": "shared_speed_logistic", "ortho_dimension": d, "ortho_sources": ns,
                                    "ortho_opts": ",".join(sorted(k for k, v in opts.items() if v)) or "base"})


def same_values(a, b):
    return a.shape == b.shape and bool(((a == b) | ((a != a) & (b != b))).all())


def direct_case(chk, env, rng, lines, pending, spec=None):
    """compute_orthonormal_basis called directly: any strip column, both dtypes, the refusals, the excluded point."""
    torch, cob = env["torch"], env["cob"]
    if spec is None:
        d = rng.randrange(1, 7) if rng.random() < 0.85 else rng.randrange(7, 13)
        dtype = rng.choice(["float32", "float64"])
        dg = [f32(rng.choice([1, -1]) * math.exp(rng.uniform(-4, 2))) for _ in range(d)]
        G = [f32(math.exp(rng.uniform(-2, 4))) for _ in range(d)]
        j = rng.randrange(0, d)
        flavour = rng.choice(["ok"] * 4 + ["nometric", "nometric", "scalar", "neg", "size", "strip", "matrix", "matrix", "matrix_bad", "tiny", "tiny", "huge"])
        scalar = False
        G2 = None
        if flavour == "nometric":          # Euclidean case: G is the identity
            G = [1.0] * d
        elif flavour == "scalar":          # 0-D metric: G proportional to the identity (the `G_metric.item() * dgamma_t0` branch)
            G = [G[0]] * d
            scalar = True
        elif flavour == "tiny":            # |G dgamma| far below 1 (ages in days, outcomes that hardly move)
            c_ = math.exp(rng.uniform(-30, -9))       # documented: any vector collinear to the velocity gives the same basis
            dg = [f32(x * c_) for x in dg]
        elif flavour == "huge":
            c_ = math.exp(rng.uniform(6, 25))
            dg = [f32(x * c_) for x in dg]
        if flavour == "neg" and rng.random() < 0.3:      # 0-D metric that is zero or negative
            G = [rng.choice([0.0, -1.0, -0.5])] * d
            scalar = True
        elif flavour == "neg":
            G[rng.randrange(d)] = rng.choice([0.0, -1.0])
        elif flavour == "size":
            G = G + [1.0]
        elif flavour == "strip":
            j = d + rng.randrange(0, 2)
        elif flavour in ("matrix", "matrix_bad"):
            # 2-D metric (documented: a general symmetric positive-definite G): diagonal + a rank-one term
            u = [f32(rng.uniform(-1, 1)) for _ in range(d)]
            G2 = [[f32((G[r] if r == c else 0.0) + 0.5 * u[r] * u[c]) for c in range(d)] for r in range(d)]
            if flavour == "matrix_bad":
                G2 = rng.choice([[row + [0.0] for row in G2], [G2]])      # d x (d+1), resp. a 3-D metric
        spec = {"dgamma": dg, "G": G, "j": j, "dtype": dtype}
        if scalar:
            spec["scalar"] = True
        if G2 is not None:
            spec["G2"] = G2
        if rng.random() < 0.15:
            spec["ambient"] = "f64default"     # torch.eye(dimension) inside the function follows the process-wide default dtype
    case = dict(spec, op="compute_orthonormal_basis")
    dt = torch.float64 if spec["dtype"] == "float64" else torch.float32
    eps = 2.0 ** -53 if spec["dtype"] == "float64" else EPS32
    dg, G, j = spec["dgamma"], spec["G"], spec["j"]
    d = len(dg)
    G2 = spec.get("G2")
    a_eff = None
    prev_default = torch.get_default_dtype()
    try:
        with core.quiet():
            if spec.get("ambient") == "f64default":
                torch.set_default_dtype(torch.float64)
            if G2 is not None:
                Gt = torch.tensor(G2, dtype=dt)
            else:
                Gt = torch.tensor(G[0], dtype=dt) if spec.get("scalar") else torch.tensor(G, dtype=dt)
            dgt = torch.tensor(dg, dtype=dt)
            Q = cob(dgt, Gt, strip_col=j)
            if not same_values(dgt, torch.tensor(dg, dtype=dt)) or (G2 is None and not spec.get("scalar") and not same_values(Gt, torch.tensor(G, dtype=dt))):
                chk.impl_failure(case, "compute_orthonormal_basis modified its arguments in place")
        impl = {"basis": Q.double().tolist(), "eps": eps}
        if G2 is not None and Gt.dim() == 2 and tuple(Gt.shape) == (d, d):
            a_eff = (Gt @ dgt).double().tolist()        # the very product the function forms, in its dtype
    except AssertionError:
        impl = "err:stripcol"
    except Exception as e:  # noqa
        c = err_class(e, env)
        if c == "err:model":
            impl = "err:negmetric" if ("negative" in str(e)) else "err:size"
        else:
            impl = c
    finally:
        torch.set_default_dtype(prev_default)
    if G2 is not None:
        # the model knows diagonal metrics: it is asked for the basis orthogonal to a = G @ dgamma with the identity metric
        # (an inadmissible 2-D / 3-D metric is put to it as a metric of the wrong size)
        ok2 = len(G2) == d and all(isinstance(r, list) and len(r) == d and all(not isinstance(x, list) for x in r) for r in G2)
        slack_mv = 0.0
        if ok2:
            # the predicate's own direction: G @ dgamma in double; the function forms it in its dtype (d products and sums per entry)
            a_true = [sum(G2[r][c] * dg[c] for c in range(d)) for r in range(d)]
            slack_mv = (d + 2) * eps * math.sqrt(sum(sum(abs(G2[r][c] * dg[c]) for c in range(d)) ** 2 for r in range(d)))
            if a_eff is None:
                a_eff = a_true
        dg, G = (a_eff, [1.0] * d) if ok2 else (dg, [1.0] * (d + 1))
    else:
        a_true, slack_mv = None, 0.0
    # predicate
    valid = all(g > 0 for g in G) and len(G) == d and 0 <= j < d
    a = [g * x for g, x in zip(G, dg)] if len(G) == d else None
    if valid and G2 is not None:
        a = a_true
    excluded = valid and a[j] == 0.0
    if not valid:
        if not isinstance(impl, str):
            chk.impl_failure(case, "incoherent metric / strip column accepted")
    elif isinstance(impl, str):
        chk.impl_failure(case, f"admissible input refused: {impl}")
    else:
        B = torch.tensor(impl["basis"], dtype=torch.float64).reshape(d, max(d - 1, 0))
        av = torch.tensor(a, dtype=torch.float64)
        if tuple(B.shape) != (d, d - 1):
            chk.impl_failure(case, f"basis has shape {tuple(B.shape)}")
        elif d > 1:
            dots = (B.t() @ av).abs()
            gram = (B.t() @ B - torch.eye(d - 1, dtype=torch.float64)).abs().max()
            if excluded:
                chk.extra_cov["excluded_point_max_dot"] = max(chk.extra_cov.get("excluded_point_max_dot", 0.0), float(dots.max() / (av.norm() + 1e-300)))
            else:
                if float(dots.max()) > 64 * eps * float(av.norm()) + slack_mv:
                    chk.impl_failure(case, f"basis column not orthogonal to G*dgamma: |<col, a>| = {float(dots.max()):.3g}, ||a|| = {float(av.norm()):.3g}")
                if float(gram) > 64 * eps:
                    norms = (B * B).sum(0).sqrt()
                    chk.impl_failure(case, f"basis columns not orthonormal for the canonical inner product: max |B^T B - I| = {float(gram):.3g} "
                                           f"(column norms {[round(float(x), 9) for x in norms]}, envelope {64*eps:.3g})")
                # completeness: [a/||a|| | B] is a full orthonormal frame, i.e. B B^T is the projector onto the complement of a
                ah = av / av.norm()
                comp = (B @ B.t() + ah.view(-1, 1) * ah - torch.eye(d, dtype=torch.float64)).abs().max()
                if float(comp) > 64 * eps + 4 * slack_mv / float(av.norm()):
                    chk.impl_failure(case, f"B B^T is not the orthogonal projector onto the complement of a = G*dgamma: max |B B^T + a a^T/|a|^2 - I| = {float(comp):.3g} (envelope {64*eps:.3g})")
                # for the record: the basis is NOT orthonormal for the metric unless G is scalar (basis_metric_orthonormal_counterexample)
                Gv = torch.tensor(G, dtype=torch.float64)
                gdev = float((B.t() @ (Gv.view(-1, 1) * B) - float(Gv[0]) * torch.eye(d - 1, dtype=torch.float64)).abs().max()) / float(Gv.max())
                is_scalar = all(g == G[0] for g in G)
                if is_scalar and gdev > 64 * eps:
                    chk.impl_failure(case, f"scalar metric g = {G[0]!r}: B^T (g I) B deviates from g I by {gdev:.3g} (relative to g)")
                if not is_scalar:
                    chk.tag("metric_gram", "not-metric-orthonormal" if gdev > 64 * eps else "metric-orthonormal-by-accident")
                    chk.extra_cov["max_metric_gram_dev"] = max(chk.extra_cov.get("max_metric_gram_dev", 0.0), gdev)
                sgn = 1.0 if a[j] > 0 else -1.0
                # the direction as the model is given it (differs from `a` only for a 2-D metric: the product formed in the dtype)
                av_m = torch.tensor([g * x for g, x in zip(G, dg)], dtype=torch.float64)
                ah_m = av_m / av_m.norm()
                lines.append(f"gram dgamma={fmt_list(dg, fmt_float)} G={fmt_list(G, fmt_float)} j={j}")
                pending.append(("gram", case, {"gram": (B.t() @ B).tolist(), "proj": (B @ B.t()).tolist(),
                                               "gramg": (B.t() @ (Gv.view(-1, 1) * B)).tolist(), "gmax": float(Gv.max()),
                                               "colj": (-sgn * ah_m).tolist(), "eps": eps}, None))
    lines.append(f"ortho dgamma={fmt_list(dg, fmt_float)} G={fmt_list(G, fmt_float)} j={j} betas=none src=none")
    pending.append(("ortho", case, impl, None))
    chk.case(("direct", json.dumps(spec, sort_keys=True)), nontrivial=(valid and d > 1 and not excluded), sample=spec if d <= 3 and len(chk.samples) < 5 else None,
             tags={"direct": ("excluded-point" if excluded else "ok") if valid else "refused", "direct_dtype": spec["dtype"], "strip_col": j,
                   "direct_metric": "2-D" if G2 is not None else "0-D" if spec.get("scalar") else "1-D", "direct_dimension": d if d <= 6 else ">6",
                   "direct_ambient": spec.get("ambient", "default")})


# ----------------------------------------------------------------------------------------------
def parse_kv(resp):
    return dict(p.split("=", 1) for p in resp.split(" "))


def pm(s):
    return None if s == "none" else [[parse_float(x) for x in split_ne(r)] for r in split_ne(s, ";")]


def pv(s):
    return None if s == "none" else [parse_float(x) for x in split_ne(s)]


def close_lists(a, b, tol):
    if a is None or b is None:
        return (a is None) == (b is None)
    if len(a) != len(b):
        return False
    for x, y, t in zip(a, b, tol if isinstance(tol, list) else [tol] * len(a)):
        if isinstance(x, list):
            if not close_lists(x, y, t):
                return False
        elif not abs(float(x) - float(y)) <= t:
            return False
    return True


def compare(chk, lines, pending):
    out = chk.model(lines)
    for (kind, case, impl, _), resp in zip(pending, out):
        if kind == "gauge":
            if not resp.startswith("xi="):
                chk.disagree(case, "values", resp, "model refused the centring request")
                continue
            r = parse_kv(resp)
            tl = impl["tol_lin"]
            if not close_lists(impl["xi"], pv(r["xi"]), tl):
                chk.disagree(case, impl["xi"], pv(r["xi"]), "xi after re-centring")
            elif not close_lists(impl["logv0"], pv(r["logv0"]), tl):
                chk.disagree(case, impl["logv0"], pv(r["logv0"]), "log_v0 after re-centring")
            elif not close_lists(impl["nlognu"], pv(r["nlognu"]), tl):
                chk.disagree(case, impl["nlognu"], pv(r["nlognu"]), "n_log_nu after re-centring")
            else:
                def at_observed(rows, ref):
                    return [[x if o else y for x, y, o in zip(rx, ry, ro)] for rx, ry, ro in zip(rows, ref, impl["obs"])]
                mb, ma = at_observed(pm(r["before"]), impl["before"]), at_observed(pm(r["after"]), impl["after"])
                if not close_lists(impl["before"], mb, impl["tol"]):
                    chk.disagree(case, impl["before"], mb, "model values before re-centring")
                elif not close_lists(impl["after"], ma, impl["tol"]):
                    chk.disagree(case, impl["after"], ma, "model values after re-centring")
        elif kind == "nurep":
            if not resp.startswith("before="):
                chk.disagree(case, impl, resp, "model refused the nu request")
                continue
            r = parse_kv(resp)
            mb, ma = parse_float(r["before"]), parse_float(r["after"])
            if not (abs(impl[0] - mb) <= 16 * EPS32 * abs(mb) and abs(impl[1] - ma) <= 16 * EPS32 * abs(ma)):
                chk.disagree(case, impl, (mb, ma), "reparametrised Weibull scale before / after the joint re-centring")
        elif kind == "gauge2":
            if not resp.startswith("once_xi="):
                chk.disagree(case, "values", resp, "model refused the gauge2 request")
                continue
            r = parse_kv(resp)
            bad = None
            for tag in ("once", "twice", "orbit"):
                for fld in ("xi", "logv0", "nlognu"):
                    if not close_lists(impl[f"{tag}_{fld}"], pv(r[f"{tag}_{fld}"]), impl["tol_lin"]):
                        bad = (impl[f"{tag}_{fld}"], pv(r[f"{tag}_{fld}"]), f"{fld} after centring ({tag}: once = center, twice = center.center, orbit = center.shift c)")
                        break
                if bad:
                    break
            if bad is None and impl["sum"] is not None:
                if not abs(impl["sum"] - parse_float(r["sum"])) <= impl["tol_sum"]:
                    bad = (impl["sum"], parse_float(r["sum"]), "sum of the statistic xi collected after centring")
                elif not abs(impl["sumsq"] - parse_float(r["sumsq"])) <= impl["tol_sq"]:
                    bad = (impl["sumsq"], parse_float(r["sumsq"]), "sum of the statistic xi_sqr collected after centring")
            if bad is None:
                if not abs(impl["regul_before"] - parse_float(r["regul_before"])) <= impl["tol_rb"]:
                    bad = (impl["regul_before"], parse_float(r["regul_before"]), "nll_regul_xi before centring")
                elif not abs(impl["regul_after"] - parse_float(r["regul_after"])) <= impl["tol_ra"]:
                    bad = (impl["regul_after"], parse_float(r["regul_after"]), "nll_regul_xi after centring")
            if bad:
                chk.disagree(case, *bad)
        elif kind == "gram":
            if not resp.startswith("gram="):
                chk.disagree(case, "gram", resp, "model refused the gram request")
                continue
            r = parse_kv(resp)
            eps = impl["eps"]
            for key, scale in (("gram", 1.0), ("proj", 1.0), ("gramg", impl["gmax"])):
                if not close_lists(impl[key], pm(r[key]), 64 * eps * scale):
                    chk.disagree(case, impl[key], pm(r[key]), {"gram": "B^T B", "proj": "B B^T", "gramg": "B^T diag(G) B"}[key] + " of the orthonormal basis")
                    break
            else:
                # the stripped column of the model's Q against the closed form -sign(a_j) a / ||a|| (both double)
                if not close_lists(impl["colj"], pv(r["colj"]), 1e-12):
                    chk.disagree(case, impl["colj"], pv(r["colj"]), "stripped column Q[:, j] vs -sign(a_j) a/||a||")
        elif kind == "ssvec":
            r = parse_kv(resp) if resp.startswith("collin=") else None
            if r is None:
                chk.disagree(case, impl, resp, "model refused the shared-speed vectors request")
                continue
            met_model = pv(r["metric"])
            for key in ("collin", "gmetric", "metric"):
                mv = pv(r[key])
                # g_metric = 1/(gamma (1-gamma))^2 loses 1/gamma + 1/(1-gamma) = metric in relative accuracy (cancellation in 1-gamma)
                rel = [32 * EPS32 + (8 * EPS32 * mk if key == "gmetric" else 0.0) for mk in met_model]
                if len(mv) != len(impl[key]) or any(abs(x - y) > t * abs(y) for x, y, t in zip(impl[key], mv, rel)):
                    chk.disagree(case, impl[key], mv, f"shared-speed vector {key}")
                    break
        elif kind == "ortho":
            if isinstance(impl, str) or resp.startswith("err:"):
                if impl != resp:
                    chk.disagree(case, impl if isinstance(impl, str) else "basis", resp, "compute_orthonormal_basis outcome")
                continue
            r = parse_kv(resp)
            eps = impl["eps"]
            mb = pm(r["basis"])
            ib = impl["basis"]
            # dimension 1: a (1, 0) matrix prints as `_` on the Lean side; compare the non-empty rows
            ib = [r for r in ib if len(r)]
            mb = [r for r in (mb or []) if len(r)]
            if not close_lists(ib, mb, 32 * eps):
                chk.disagree(case, ib, mb, "orthonormal basis")
                continue
            if "mixing" in impl:
                bs = [sum(abs(float(b)) for b in col) for col in zip(*impl["betas"])]
                mm = pm(r["mixing"])
                ok = len(mm) == len(impl["mixing"]) and all(close_lists(ri, rm, 64 * eps * bs[s] + 1e-30) for s, (ri, rm) in enumerate(zip(impl["mixing"], mm)))
                if not ok:
                    chk.disagree(case, impl["mixing"], mm, "mixing matrix")
                    continue
                ms = pm(r["shifts"])
                ok = len(ms) == len(impl["shifts"]) and all(
                    close_lists(ri, rm, 64 * eps * sum(abs(x) * b for x, b in zip(impl["src"][i], bs)) + 1e-30)
                    for i, (ri, rm) in enumerate(zip(impl["shifts"], ms)))
                if not ok:
                    chk.disagree(case, impl["shifts"], ms, "space shifts")


# ----------------------------------------------------------------------------------------------
def fit_case(chk, env, rng, lines, pending, spec=None):
    """The re-centring where it lives: a real (short) fit.  `compute_sufficient_statistics` and `update_parameters` of the model are
    wrapped call-through: (1) every iteration re-centres (as many calls as iterations; at the time of every maximisation the
    log-accelerations are zero-mean); (2) copies of the chain's state taken just before the call go through the whole battery of
    `center_case` (invariance of model values / attachment / event terms, gauge, statistics, orthogonality, Lean model), and
    what the fit's own call left must equal what the direct call leaves on the copy."""
    torch = env["torch"]
    from leaspy.models import model_factory
    if spec is None:
        kind = rng.choice(["logistic", "linear", "joint", "joint"])
        d = rng.choice([1, 2, 3])
        ns = 0 if d == 1 else rng.choice([0, 1, d - 1])
        ne = rng.choice([1, 2]) if kind == "joint" else 0
        n_ind = rng.randrange(6, 11)
        spec = {"kind": kind, "d": d, "ns": ns, "nb_events": ne, "n_iter": rng.randrange(3, 7), "seed": rng.randrange(10 ** 6),
                "table": make_table(rng, n_ind, d, kind == "joint", nb_events=max(ne, 1))}
    kind, d, ns, ne = spec["kind"], spec["d"], spec["ns"], spec["nb_events"]
    case = dict(spec, op="fit-center")
    stash, at_mstep = [], []
    try:
        with core.quiet():
            ds = read_cohort(env, spec["table"], kind)
            kw = dict(dimension=d, source_dimension=ns)
            if kind == "joint":
                kw["nb_events"] = ne
                if ns == 0 and d > 1:
                    kw["obs_models"] = "gaussian-scalar"   # the joint model without sources only supports the scalar-noise observation model
            model = model_factory(kind, **kw)
            orig_css, orig_up = model.compute_sufficient_statistics, model.update_parameters

            def css(state):
                copy = state.clone(disable_auto_fork=True)
                r = orig_css(state)
                stash.append((copy, snapshot(env, state, kind, ns)))
                return r

            def up(state, ss, *, burn_in):
                at_mstep.append((float(state["xi"].double().mean()), float(state["xi"].abs().max()), state["xi"].numel()))
                return orig_up(state, ss, burn_in=burn_in)
            model.compute_sufficient_statistics = css
            model.update_parameters = up
            model.fit(ds, "mcmc_saem", n_iter=spec["n_iter"], seed=spec["seed"], progress_bar=False)
    except env["lex"].LeaspyConvergenceError:
        chk.tag("fit_center", "fit-did-not-converge")
        return
    except Exception as e:  # noqa
        if not stash and "Scale of variable" in str(e):
            # the data-driven initial value of a population variable is exactly 0 on this random table and the sampler derives its
            # proposal scale from it: the fit never starts (not this property's matter; counted)
            chk.tag("fit_center", "refused-at-initialisation (zero initial value -> zero proposal scale)")
            return
        chk.impl_failure(case, f"short fit on an admissible cohort aborted: {err_class(e, env)}: {e}")
        return
    if len(stash) != spec["n_iter"] or len(at_mstep) != spec["n_iter"]:
        chk.impl_failure(case, f"{len(stash)} re-centrings / {len(at_mstep)} maximisations for {spec['n_iter']} iterations: the re-centring is not applied at every iteration")
    for it, (mean, xmax, n) in enumerate(at_mstep, 1):
        tol = 2 * (n + 2) * EPS32 * (2 * xmax + 1.0)
        if abs(mean) > tol:
            chk.impl_failure(dict(case, iteration=it), f"at the maximisation step of iteration {it} the log-accelerations have mean {mean!r} (envelope {tol:.3g}): not re-centred")
            break
    obsname = [om.to_string() for om in model.obs_models][0]
    picks = sorted({0, len(stash) // 2, len(stash) - 1}) if stash else []
    for ix in picks:
        copy, after_fit = stash[ix]

        def forced(c, copy=copy, ix=ix):
            c.update({"settings": {"obs_models": {"y": obsname}, "nb_events": ne}, "fit": {k: v for k, v in spec.items()}, "iteration": ix + 1,
                      "latents": {k: val(env, copy[k]).tolist() for k in ("xi", "tau", "log_v0")}, "op": "fit-center"})
            return model, ds, copy
        center_case(chk, env, rng, kind, d, ns, ds.n_individuals, lines, pending, forced=forced, expect_after=after_fit)
    chk.tag("fit_center", f"{kind}:ok")


# ----------------------------------------------------------------------------------------------
EXCLUDED = [
    {"dgamma": [0.0, 1.0], "G": [1.0, 1.0], "j": 0, "dtype": "float32"},
    {"dgamma": [0.0, 3.0, 4.0], "G": [1.0, 1.0, 1.0], "j": 0, "dtype": "float64"},
    {"dgamma": [2.0, 0.0, 1.0], "G": [1.0, 2.0, 1.0], "j": 1, "dtype": "float32"},
]
METRIC_WITNESS = [   # basis_metric_orthonormal_counterexample: Euclidean-orthonormal, not orthonormal for G = (1, 1, 4)
    {"dgamma": [7.0, 14.4, 4.8], "G": [1.0, 1.0, 4.0], "j": 0, "dtype": "float64"},
    {"dgamma": [7.0, 14.4, 4.8], "G": [1.0, 1.0, 4.0], "j": 0, "dtype": "float32"},
]
PYTHAGOREAN = [
    {"dgamma": [7.0, 14.4, 19.2], "G": [1.0, 1.0, 1.0], "j": 0, "dtype": "float64"},
    {"dgamma": [7.0, 24.0], "G": [1.0, 1.0], "j": 0, "dtype": "float64"},
    {"dgamma": [-7.0, 24.0], "G": [1.0, 1.0], "j": 0, "dtype": "float32"},
]


def run(chk: core.Check):
    env = _imports()
    rng = chk.rng
    chk.rule = ("centring: random states (perturbed population latents, random xi with non-zero mean, tau, sources) of logistic / linear / "
                "joint models, dimension 1..4, source dimension 0..dim-1, 1..8 individuals with 1-4 visits and missing values, on a "
                "synthetic cohort; both entry points (_center_xi_realizations, compute_sufficient_statistics) on clones. orthogonality: "
                "the same states, shared-speed states, and direct compute_orthonormal_basis calls (dimension 1..6, any strip column, both "
                "dtypes, 1-D metric / identity metric / 0-D scalar metric, refused inputs, the excluded point a_j = 0): B^T B = I, B B^T + a a^T/|a|^2 = I. "
                "gauge completeness on every centring case: second centring, centring after a random gauge shift c in [-2, 2], sums of the collected "
                "statistics xi / xi_sqr, the real xi_std update rule, nll_regul_xi before / after. Non-trivial: centring with >= 2 individuals and |mean xi| > 1e-3; "
                "orthogonality with dimension >= 2 at an admissible point; distinct by full state / input. "
                "Hardened generation: a second family of centring cases at the edge of the domain (log_g in [-4, 6], log_v0 from -15.5 to +1.5, mixing "
                "coefficients 0 / 0.01 / 3, a source with all-zero coefficients, sources up to 4, xi offsets of either sign up to 8 and none at all, "
                "identical xi for everybody, individuals 4.5 apart, gauge shifts up to +-8, any number of sources, 6 and 11 outcomes, 1 .. 30 individuals, "
                "1-3 competing events through the public reader with the compensation checked per event, events before the reference time (the "
                "prohibitive constant must not move), binary outcomes (Bernoulli attachment), clones that keep the automatic fork); orthogonality "
                "re-checked on the centred state and on the SAME state after writing other positions / velocities / mixing coefficients into it one at "
                "a time (manifold and shared-speed models); real short fits (3-6 iterations, logistic / linear / joint with 1-2 events) with "
                "call-through wrappers: one re-centring per iteration, zero-mean xi at every maximisation, copies of the chain's states through the "
                "whole battery and bitwise agreement between the fit's own call and the direct call; compute_orthonormal_basis with dimension up to "
                "12, 2-D (general SPD) metrics and their refusals, directions scaled by exp(-30) .. exp(25), process-wide default dtype float64, "
                "arguments checked untouched.")
    lines, pending = [], []
    for c in core.load_corpus(PROP):
        if c.get("op") == "compute_orthonormal_basis":
            direct_case(chk, env, rng, lines, pending, spec={k: c[k] for k in ("dgamma", "G", "j", "dtype", "scalar") if k in c})
    for spec in EXCLUDED + PYTHAGOREAN + METRIC_WITNESS:
        direct_case(chk, env, rng, lines, pending, spec=dict(spec))
    combos = []
    for kind in ("logistic", "linear", "joint"):
        for d in (1, 2, 3, 4):
            for ns in sorted({0, 1, d - 1}):
                if ns < d and (ns == 0 or d > 1):
                    combos.append((kind, d, ns))
    quick = chk.tier == "quick"
    rounds = 2 if quick else 40
    for _ in range(rounds):
        for kind, d, ns in combos:
            center_case(chk, env, rng, kind, d, ns, rng.choice([1, 2, 3, 5, 8]) if kind != "joint" else rng.choice([2, 3, 5, 8]), lines, pending)
        for d in (2, 3, 4, 6):
            for ns in sorted({1, d - 1}):
                shared_case(chk, env, rng, d, ns, rng.randrange(1, 5), lines, pending)
    # the same with everything pushed to the edge of what the models accept: positions / velocities / mixing coefficients / offsets of xi
    # of either sign / far-apart individuals, any number of sources, more than ten outcomes, two competing events, binary outcomes,
    # one individual, a large cohort, events before the reference time, the state keeping its automatic fork (as in a fit)
    for _ in range(18 if quick else 250):
        kind = rng.choice(["logistic", "logistic", "linear", "joint", "joint"])
        d = rng.choice([1, 2, 3, 4, 4, 6, 11])
        ns = 0 if d == 1 else rng.randrange(0, d)
        if d == 11:
            ns = rng.choice([1, 3, 10])
        opts = {"wide": True, "keep_fork": rng.random() < 0.5}
        if kind == "joint":
            opts["nb_events"] = rng.choice([1, 2, 2, 3])
        elif kind == "logistic" and rng.random() < 0.4:
            opts["bern"] = True
        n_ind = rng.choice([1, 2, 3, 5, 8, 30]) if d < 11 else rng.choice([1, 3])
        center_case(chk, env, rng, kind, d, ns, n_ind, lines, pending, opts=opts)
    for _ in range(5 if quick else 80):
        d = rng.choice([2, 3, 4, 6, 11])
        shared_case(chk, env, rng, d, rng.randrange(1, d), rng.randrange(1, 5), lines, pending,
                    opts={"wide": True, "edit": True, "keep_fork": rng.random() < 0.5})
    for _ in range(3 if quick else 20):
        fit_case(chk, env, rng, lines, pending)
    for _ in range(90 if quick else 3000):
        direct_case(chk, env, rng, lines, pending)
    compare(chk, lines, pending)
    if "excluded_point_max_dot" in chk.extra_cov:
        chk.note("excluded point a_j = 0 run on the real compute_orthonormal_basis: torch.sign(0) = 0, columns are NOT orthogonal "
                 f"(max |<col, a>|/||a|| = {chk.extra_cov['excluded_point_max_dot']:.3g}); unreachable from the models since a_j = metric^2 * exp(log_v0) > 0; "
                 "the Lean model reproduces the same matrix there (householder_degenerate_counterexample)")


def replay(chk: core.Check, payload):
    env = _imports()
    case = payload.get("case") or (payload.get("disagreements") or [{}])[0].get("case")
    if not case:
        chk.note("replay file has no case")
        return
    lines, pending = [], []
    if case.get("op") == "compute_orthonormal_basis":
        direct_case(chk, env, chk.rng, lines, pending, spec={k: case[k] for k in ("dgamma", "G", "j", "dtype", "scalar") if k in case})
    elif case.get("op") in ("center", "ortho-state"):
        torch, pd = env["torch"], env["pd"]

        def forced(c):
            c.update({"settings": case["settings"], "table": case["table"], "latents": case["latents"]})
            for k in ("gauge_c", "opts", "edits"):
                if k in case:
                    c[k] = case[k]
            kind = case["kind"]
            with core.quiet():
                model = env["BaseModel"].load(case["settings"])
                ds = read_cohort(env, case["table"], kind)
                state = model.state.clone(disable_auto_fork=not (case.get("opts") or {}).get("keep_fork"))
                model.put_data_variables(state, ds)
                for k, v in case["latents"].items():
                    state[k] = torch.tensor(v)
            return model, ds, state
        if "fit" in case:
            fit_case(chk, env, chk.rng, lines, pending, spec=case["fit"])
        else:
            center_case(chk, env, chk.rng, case["kind"], case["d"], case["ns"], case["n_individuals"], lines, pending, forced=forced)
    elif case.get("op") == "fit-center":
        fit_case(chk, env, chk.rng, lines, pending, spec=case.get("fit") or {k: case[k] for k in ("kind", "d", "ns", "nb_events", "n_iter", "seed", "table")})
    elif case.get("op") == "ortho-shared":
        import random
        shared_case(chk, env, random.Random(0), case["d"], case["ns"], case["n_individuals"], lines, pending)
        chk.note("shared-speed replay regenerates a state of the same shape (the recorded one is in the replay file)")
    compare(chk, lines, pending)
