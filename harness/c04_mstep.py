"""C04 — the maximisation step is the closed-form maximiser of the sufficient statistics.

Correspondence: real `compute_sufficient_statistics` + `update_parameters` (recorded inside real short fits of
every model kind / noise structure on random tiny cohorts with random missingness, and re-invoked on cloned,
perturbed pre-step states) against `Model/MStep.lean` through `drivers/C04.lean`.  The Lean model is fed the exact
rationals of the float32 statistics; variances (never square roots) are compared within a float32 envelope.
The property predicate itself is evaluated independently with numpy (float64).
Mixture model: every rule of `models/mixture.py` (`compute_ind_param_mean_from_suff_stats_mixture`,
`compute_ind_param_std_from_suff_stats_mixture(_burn_in)`, `compute_probs_from_state`) is compared with `MixRule.apply`
(request `mixstep`): exact rationals of the float32/float64 inputs, exponentials of the softmax computed by numpy; envelopes
derived from the dtypes actually used and the number of operations.
Widened generators (`gen_wide_cases`) and observation points (`check_fresh_stats`, `check_iterations`, `threshold_records`): see
`chk.rule` in `run`.
"""
from __future__ import annotations

import math
import random
import warnings
from fractions import Fraction

from . import core
from .core import fmt_rat

PROP = "C04"
LEAN = dict(
    props="LeaspyVerif.Props.C04",
    driver="drivers/C04.lean",
    harness="c04_mstep.py",
    extra_modules=["LeaspyVerif.Model.MStep"],
    theorems=["indVar_eq_meansq", "indVar_nonneg", "indVar_affine", "indVarBurnIn_bessel", "indVar_vs_burnIn",
              "noiseVarDiag_eq_rms", "noiseVarScalar_eq_rms", "noiseVarScalarOld_partial",
              "noiseVarScalarOld_counterexample", "softmaxRow_sum_one", "mixtureProbs_sum_one",
              "updateAll_reads_old", "updateAll_order_irrelevant", "updateAll_pointwise", "step_order_irrelevant",
              "updateSeq_differs",
              # mixture rules
              "mixMean_first_order", "mixMean_sqdev_identity", "mixMean_minimises", "mixMean_unique_minimiser",
              "mixMean_in_hull", "mixVarDoc_nonneg", "mixVar_eq_meansq", "mixVar_nonneg", "mixAvgConst_cancels",
              "mixVar_not_weighted_counterexample", "mixVar_weighted_partial", "mixVar_minus_doc",
              "mixMean_single_cluster", "mixVar_single_cluster", "mixAvgConst_single_cluster", "mixStdVarE_of_guard",
              "mixStd_no_collapse_guard", "resp_in_unit", "mixtureProbs_eq_mean_resp", "mixtureProbs_in_unit",
              "mixtureProbs_single_cluster", "mixMeanE_ok_iff", "mixMeanE_eq", "mixMeanE_zero_total",
              "total_resp_pos_iff", "mixStdVarE_ok_iff", "mixMeans_defined_iff", "resp_total_pos",
              "emptied_cluster_example", "mixStep_reads_old", "mixStep_order_irrelevant", "mixMean_ignores_stats",
              "mixProbs_ignores_stats", "mixStd_ignores_latents", "mixSeq_differs"],
    trusted_extra=[
        "theorems are over an ordered field (exact arithmetic); the implementation computes in float32: compared through "
        "an explicit envelope K*eps32*(sum of magnitudes of the terms of the formula), K=64",
        "sqrt is never evaluated by the model: std**2 of the implementation is compared with the model's variance",
        "softmax exponentials of the mixture rules are computed by numpy (float64) from the recorded "
        "nll_regul_ind_sum_ind (clamped at -100 by the harness as the code does) and handed to the model",
        "mixture rules: envelopes are (operation count) * eps(dtype actually used) * (magnitudes), plus the propagated relative "
        "error (K + 4 + max|z - zmax|) * eps(dtype of nll) of the responsibilities",
    ],
    assumptions=[
        "scalar noise rule is modelled after repair F3 (fixes/F3.patch); on a tree without the patch the scalar-noise cases "
        "with a feature missing inside a visit fail",
        "mixture std rule is modelled as coded (F26: unweighted dispersion of all individuals about the pre-step cluster "
        "mean, no collapse guard); the documented responsibility-weighted dispersion is evaluated on every step and its "
        "failure is classified F26 only when the value equals the coded closed form",
    ],
)

EPS32 = 2.0 ** -23
K_ENV = 64.0
TOL_VAR = Fraction(float.fromhex("0x1.4f8b588e368f1p-17"))  # python float 1e-5 (tol of compute_std_from_variance)
assert float(TOL_VAR) == 1e-5


# ------------------------------------------------------------------ imports / environment
def _imports():
    warnings.filterwarnings("ignore")
    import leaspy.models  # noqa: F401  (must precede leaspy.variables)
    import numpy as np
    import pandas as pd
    import torch
    from leaspy.exceptions import LeaspyConvergenceError
    from leaspy.io.data import Data, Dataset
    from leaspy.models import model_factory
    from leaspy.utils.weighted_tensor import WeightedTensor
    from leaspy.variables.specs import IndividualLatentVariable, ModelParameter, PopulationLatentVariable

    class Env:
        pass
    e = Env()
    e.np, e.pd, e.torch = np, pd, torch
    e.Data, e.Dataset, e.model_factory, e.WT = Data, Dataset, model_factory, WeightedTensor
    e.MP, e.PopLV, e.IndLV = ModelParameter, PopulationLatentVariable, IndividualLatentVariable
    e.ConvErr = LeaspyConvergenceError
    return e


def err_class(e):
    n = type(e).__name__
    if n == "LeaspyConvergenceError":
        return "err:conv"
    if n in ("LeaspyInputError", "LeaspyDataInputError"):
        return "err:data"
    if n == "LeaspyAlgoInputError":
        return "err:algo"
    if n == "LeaspyModelInputError":
        return "err:model"
    return f"err:other:{n}"


# ------------------------------------------------------------------ data generation
def gen_table(env, case):
    """Deterministic tiny cohort from `case` (a plain dict).

    Optional keys (absent = the historical behaviour, same random stream): `nv_min` / `nv_max` (visits per subject), `time_unit` and
    `t_shift` (reported age = (age in years - t_shift) * time_unit: months, days, years since baseline), `y_scale` (unit of a linear
    model's features), `nb_events` (competing risks of the joint layout), `miss_ft` (one missing rate per feature: unbalanced
    counts), `blank` (list among "feature_one" = one feature wholly missing for one subject, "visit" = one visit wholly missing,
    "individual" = every value of one subject missing; the last two need `keep_nan` to reach the Dataset)."""
    r = random.Random(case["data_seed"])
    n, nft, miss = case["n_ind"], case["n_ft"], case["miss"]
    joint = case["model"] == "joint"
    unit, shift, ys = case.get("time_unit", 1.0), case.get("t_shift", 0.0), case.get("y_scale", 1.0)
    n_ev = case.get("nb_events", 1)
    rep = (lambda t: round(t, 3)) if (unit == 1.0 and shift == 0.0) else (lambda t: round((t - shift) * unit, 3))
    rows = []
    for i in range(n):
        nv = r.randint(case.get("nv_min", 2), case.get("nv_max", 5))
        t0 = 60 + 15 * r.random()
        speed = math.exp(r.gauss(0, 0.4))
        tau = 70 + r.gauss(0, 5)
        t, times = t0, []
        for _ in range(nv):
            t += 0.5 + 1.5 * r.random()
            times.append(round(t, 3))
        ev_t, ev_b = round(times[-1] + 0.5 + 4 * r.random(), 3), (i % (n_ev + 1))
        for t in times:
            vals = []
            for k in range(nft):
                if case["model"] == "linear":
                    v = 0.3 + 0.02 * speed * (t - tau - 2 * k) + r.gauss(0, 0.03)
                    if ys != 1.0:
                        v = float(f"{v * ys:.6g}")
                else:
                    v = 1 / (1 + math.exp(-speed * (t - tau - 3 * k) / 6)) + r.gauss(0, 0.05)
                    v = min(max(v, 0.01), 0.99)
                vals.append(round(v, 5) if ys == 1.0 else v)
            rows.append([f"s{i:02d}", rep(t)] + ([rep(ev_t), ev_b] if joint else []) + vals)
    fts = [f"Y{k}" for k in range(nft)]
    cols = ["ID", "TIME"] + (["EVENT_TIME", "EVENT_BOOL"] if joint else []) + fts
    df = env.pd.DataFrame(rows, columns=cols)
    # random missing cells; every visit keeps one observed feature; every feature keeps >= 2 subjects with >= 2 values
    nan = float("nan")
    miss_ft = case.get("miss_ft") or [miss] * nft
    for idx in range(len(df)):
        for k, f in enumerate(fts):
            if nft > 1 and r.random() < miss_ft[k]:
                others = [g for g in fts if g != f and not math.isnan(df.at[idx, g])]
                if others:
                    old = df.at[idx, f]
                    df.at[idx, f] = nan
                    ok = (df.groupby("ID")[f].count() >= 2).sum() >= 2
                    if not ok:
                        df.at[idx, f] = old
    if case.get("blank"):
        r2 = random.Random(case["data_seed"] * 7 + 3)
        ids = sorted(df["ID"].unique())

        def keeps(frame):
            return all((frame.groupby("ID")[f].count() >= 2).sum() >= 2 for f in fts)
        for what in case["blank"]:
            trial = df.copy()
            sid = r2.choice(ids)
            rows_i = list(trial.index[trial["ID"] == sid])
            if what == "feature_one" and nft > 1:
                trial.loc[rows_i, r2.choice(fts)] = nan
                if trial.loc[rows_i, fts].notna().any(axis=1).all() or case.get("keep_nan"):
                    df = trial if keeps(trial) else df
            elif what == "visit" and len(rows_i) >= 3:
                trial.loc[r2.choice(rows_i), fts] = nan
                df = trial if keeps(trial) else df
            elif what == "individual" and len(ids) >= 4:
                trial.loc[rows_i, fts] = nan
                df = trial if keeps(trial) else df
    return df


def model_kwargs(env, case):
    """Keyword arguments of `model_factory` for this case.  `obs` selects HOW the noise structure is requested (every spelling the
    constructors accept): "str" (historical), "tuple", "list", "dict", "instance", "default" (no `obs_models`), "nodim" (neither
    `obs_models` nor the dimension), "features" (feature names instead of the dimension)."""
    nft = case["n_ft"]
    obs = case.get("obs", "str")
    kw = dict(source_dimension=case["src"])
    if obs == "features":
        kw["features"] = [f"Y{k}" for k in range(nft)]
    elif obs != "nodim":
        kw["dimension"] = nft
    if case["noise"] in ("scalar", "diagonal") and obs not in ("default", "nodim"):
        name = "gaussian-" + case["noise"]
        if obs == "tuple":
            kw["obs_models"] = (name,)
        elif obs == "list":
            kw["obs_models"] = [name]
        elif obs == "dict":
            kw["obs_models"] = {"y": name}
        elif obs == "instance":
            from leaspy.models.obs_models import FullGaussianObservationModel as G
            kw["obs_models"] = G.with_noise_std_as_model_parameter(1 if case["noise"] == "scalar" else nft)
        else:
            kw["obs_models"] = name
    if case["model"] == "mixture_logistic":
        kw["n_clusters"] = case.get("n_clusters", 2)
    if case.get("nb_events", 1) != 1:
        kw["nb_events"] = case["nb_events"]
    return kw


def make_data(env, case, df):
    kwd = dict(drop_full_nan=False) if case.get("keep_nan") else {}
    if case["model"] == "joint":
        return env.Data.from_dataframe(df, "joint", **kwd)
    return env.Data.from_dataframe(df, **kwd)


def build(env, case):
    df = gen_table(env, case)
    dataset = env.Dataset(make_data(env, case, df))
    model = env.model_factory(case["model"], **model_kwargs(env, case))
    return df, dataset, model


# ------------------------------------------------------------------ recording real maximisation steps
def tens(env, v):
    return v.value if isinstance(v, env.WT) else v


def clone_stats(env, ss):
    out = {}
    for k, v in ss.items():
        if isinstance(v, env.WT):
            out[k] = env.WT(v.value.detach().clone(), None if v.weight is None else v.weight.detach().clone())
        else:
            out[k] = v.detach().clone()
    return out


def algo_kwargs(case):
    """Settings of the fit.  `settings` (optional): `frac` = memory-less phase given as a fraction (the documented count is
    int(frac * n_iter); generated so that it is `n_burn`), `power`, `annealing` (dict), `sampler_pop`, `sampler_ind_params`,
    `sampler_pop_params`, `random_order`."""
    st = case.get("settings") or {}
    kw = dict(n_iter=case["n_iter"], seed=case["seed"], progress_bar=False)
    if st.get("frac") is not None:
        kw["n_burn_in_iter_frac"] = st["frac"]
    else:
        kw["n_burn_in_iter"] = case["n_burn"]
    if st.get("power") is not None:
        kw["burn_in_step_power"] = st["power"]
    if st.get("annealing"):
        kw["annealing"] = dict(st["annealing"])
    for k_case, k_algo in (("sampler_pop", "sampler_pop"), ("sampler_ind_params", "sampler_ind_params"),
                           ("sampler_pop_params", "sampler_pop_params"), ("random_order", "random_order_variables")):
        if st.get(k_case) is not None:
            kw[k_algo] = st[k_case]
    return kw


def run_fit(env, case, dataset, model, df=None, algo_box=None):
    """Real fit; every `update_parameters` call is recorded: (iteration, pre-step state clone, statistics, flag, new values | error).
    Returns (outcome, records, per-iteration observations).  `entry` (optional key of the case) selects the public entry point:
    "kwargs" (historical: `model.fit(dataset, "mcmc_saem", **settings)`), "settings" (an `AlgorithmSettings` object), "file"
    (settings saved to / loaded from a JSON file), "run" (`algorithm_factory(settings).run(model, dataset)`; `algo_box` keeps the
    algorithm object so that a second fit re-uses it); `container`: "dataset" (historical) | "data" | "dataframe"."""
    rec, iters = [], []
    orig_up = model.update_parameters

    def up(state, ss, *, burn_in):
        pre = state.clone(disable_auto_fork=True)
        S = clone_stats(env, ss)
        try:
            r = orig_up(state, ss, burn_in=burn_in)
        except Exception as e:  # noqa
            rec.append(dict(k=len(rec) + 1, pre=pre, S=S, burn=bool(burn_in), new=None, err=err_class(e)))
            raise
        new = {p: state[p].detach().clone() for p in state.dag.sorted_variables_by_type[env.MP]}
        rec.append(dict(k=len(rec) + 1, pre=pre, S=S, burn=bool(burn_in), new=new, err=None))
        return r

    # second, independent observation point: the parameters held by the state when the whole iteration is over (whatever the
    # algorithm did around / instead of `update_parameters`), the iteration counter and the memory-less length it runs with
    from leaspy.algo.fit.mcmc_saem import TensorMcmcSaemAlgorithm as A
    orig_it = A.__dict__.get("_iteration")

    def it(self, mdl, state):
        n0 = len(rec)
        orig_it(self, mdl, state)
        try:
            post = {p: state[p].detach().clone() for p in state.dag.sorted_variables_by_type[env.MP]}
            iters.append(dict(k=int(self.current_iteration), calls=len(rec) - n0, post=post, nb=self.algo_parameters.get("n_burn_in_iter")))
        except Exception:  # noqa  — the monitor must not disturb the fit
            pass

    entry, container = case.get("entry", "kwargs"), case.get("container", "dataset")
    data = dataset
    if container == "data" and df is not None:
        data = make_data(env, case, df)
    elif container == "dataframe" and df is not None and case["model"] != "joint" and not case.get("keep_nan"):
        data = df.copy()
    model.update_parameters = up
    if orig_it is not None:
        A._iteration = it
    out, final = "ok", {}
    try:
        with core.quiet():
            kw = algo_kwargs(case)
            if entry == "kwargs":
                model.fit(data, "mcmc_saem", **kw)
            else:
                from leaspy.algo import AlgorithmSettings, algorithm_factory
                settings = AlgorithmSettings("mcmc_saem", **kw)
                if entry == "settings":
                    model.fit(data, algorithm_settings=settings)
                elif entry == "file":
                    import os
                    import tempfile
                    with tempfile.TemporaryDirectory() as d:
                        settings.save(os.path.join(d, "fit_settings.json"))
                        model.fit(data, algorithm_settings_path=os.path.join(d, "fit_settings.json"))
                elif entry == "reconf":
                    # the algorithm object is built with OTHER lengths and re-configured afterwards through the documented
                    # `load_parameters` (its docstring example does exactly this): the run follows what the parameters say then
                    kw_first = dict(kw, n_iter=kw["n_iter"] + 5)
                    kw_first.pop("n_burn_in_iter_frac", None)
                    kw_first["n_burn_in_iter"] = (kw["n_iter"] + 3) if case["n_burn"] <= kw["n_iter"] // 2 else 0
                    import warnings as _w
                    with _w.catch_warnings():
                        _w.simplefilter("ignore")
                        algo = algorithm_factory(AlgorithmSettings("mcmc_saem", **kw_first))
                        algo.load_parameters({"n_iter": kw["n_iter"], "n_burn_in_iter": case["n_burn"]})
                    if not model.is_initialized:
                        model.initialize(dataset)
                    algo.run(model, dataset)
                else:
                    if algo_box is not None and algo_box.get("algo") is not None:
                        algo = algo_box["algo"]
                    else:
                        algo = algorithm_factory(settings)
                        if algo_box is not None:
                            algo_box["algo"] = algo
                    if not model.is_initialized:
                        model.initialize(dataset)
                    algo.run(model, dataset)
            final = {p: v.detach().clone() for p, v in model.parameters.items()}
    except Exception as e:  # noqa
        out = err_class(e)
    finally:
        if orig_it is not None:
            A._iteration = orig_it
        try:
            del model.update_parameters
        except Exception:
            pass
    return out, rec, iters, final


# ------------------------------------------------------------------ the property predicate (numpy, float64)
def rule_kinds(env, state):
    """Which documented closed form each model parameter must follow, from the *names* of the variables only."""
    pops = set(state.dag.sorted_variables_by_type[env.PopLV])
    inds = set(state.dag.sorted_variables_by_type[env.IndLV])
    kinds = {}
    for p in state.dag.sorted_variables_by_type[env.MP]:
        if p == "noise_std":
            kinds[p] = ("noise", None)
        elif p == "probs":
            kinds[p] = ("probs", None)
        elif p.endswith("_mean") and p[:-5] in pops:
            kinds[p] = ("pop", p[:-5])
        elif p.endswith("_mean") and p[:-5] in inds:
            kinds[p] = ("imean", p[:-5])
        elif p.endswith("_std") and p[:-4] in inds:
            kinds[p] = ("istd", p[:-4])
        else:
            kinds[p] = ("unknown", None)
    return kinds


def f64(env, t):
    return tens(env, t).detach().double().numpy()


def noise_is_scalar(case, pre):
    """One noise level for all features?  Named by the case, or - when the constructor call leaves it to the default
    (`noise` = "auto") - read off the shape of the parameter: one number for several features is the common noise."""
    if case["noise"] == "auto":
        return int(pre["noise_std"].numel()) == 1
    return tuple(pre["noise_std"].shape) in ((), (1,)) and case["noise"] == "scalar"


def env_tol(*magnitudes):
    return K_ENV * EPS32 * sum(abs(float(m)) for m in magnitudes) + 1e-30


def eps_of(env, *dtypes):
    """machine epsilon of the dtype torch promotes the given dtypes to"""
    torch = env.torch
    dt = dtypes[0]
    for d in dtypes[1:]:
        dt = torch.promote_types(dt, d)
    return float(torch.finfo(dt).eps), float(torch.finfo(dt).tiny) * float(torch.finfo(dt).eps)  # eps, smallest denormal


def responsibilities(env, pre):
    """`Softmax(dim=1)(clamp(-nll_regul_ind_sum_ind, -100))` recomputed in numpy float64 from the recorded pre-step state.
    Returns exponentials `e` (n, K; row maximum 1), responsibilities `r`, and the error model of the implementation's own
    responsibilities: relative `delta`, absolute `tiny` (denormal spacing of the dtype of nll)."""
    np = env.np
    t = tens(env, pre["nll_regul_ind_sum_ind"])
    nll = t.detach().double().numpy()
    z = np.clip(-nll, -100.0, None)
    zmax = z.max(axis=1, keepdims=True)
    e = np.exp(z - zmax)
    eps, tiny = eps_of(env, t.dtype)
    with np.errstate(all="ignore"):
        spread = float((zmax - z).max()) if z.size else 0.0
    return dict(e=e, r=e / e.sum(axis=1, keepdims=True), dtype=t.dtype, tiny=tiny,
                delta=(z.shape[1] + 4 + spread) * eps)


def mixture_expected(env, r, p, kind, var, burn):
    """Closed forms of the mixture rules (numpy float64) for parameter `p`: (kind, expected, tolerance, documented-form or None).
    Means: responsibility-weighted mean of the *current* latent values.  Std (as a variance): the form the code uses
    (Model/MStep.lean `mixVar` / `indVarBurnIn`); the documented responsibility-weighted dispersion is returned as well."""
    np = env.np
    pre, S = r["pre"], r["S"]
    R = responsibilities(env, pre)
    rr, n, K = R["r"], R["r"].shape[0], R["r"].shape[1]
    tot = rr.sum(axis=0)                                   # (K,)
    lat_t = tens(env, pre[var])
    x = lat_t.detach().double().numpy().reshape(n, -1)     # (n, d)
    eps_o, _ = eps_of(env, lat_t.dtype, R["dtype"])
    shape = tuple(pre[p].shape)
    with np.errstate(all="ignore"):
        if kind == "imean":
            v = np.einsum("ic,ij->jc", rr, x) / tot            # (d, K)
            maxdev = np.abs(x[:, :, None] - v[None, :, :]).max(axis=0)
            tol = 2 * maxdev * (R["delta"] + n * R["tiny"] / tot) + (2 * n + 8) * eps_o * np.abs(x).max(axis=0)[:, None] + 1e-300
            return ("mmean", v.reshape(shape), tol.reshape(shape), None)
        # std rules (scalar individual variables only: tau, xi)
        if burn:
            xs = x.reshape(n)
            v0 = xs.var(ddof=1) if n > 1 else float("nan")
            eps_v, _ = eps_of(env, lat_t.dtype)
            v = np.full(K, v0)
            tol = np.full(K, (2 * n + 16) * eps_v * (v0 + np.abs(xs).max() * np.sqrt(v0)) + 4 * (n + 4) * eps_o * v0 + 1e-300)
            wm = (rr * xs[:, None]).sum(axis=0) / tot
            doc = (rr * (xs[:, None] - wm[None, :]) ** 2).sum(axis=0) / tot * (n / (n - 1) if n > 1 else float("nan"))
        else:
            s1_t, s2_t, mu_t = tens(env, S[var]), tens(env, S[var + "_sqr"]), pre[var + "_mean"]
            x1 = s1_t.detach().double().numpy().reshape(n)
            x2 = s2_t.detach().double().numpy().reshape(n)
            mu = mu_t.detach().double().numpy().reshape(K)
            m1, m2 = x1.mean(), x2.mean()
            v = m2 - 2 * mu * m1 + mu ** 2
            # term by term, each in the dtype torch uses for it: `torch.mean(x²)` (dtype of the statistic, n additions),
            # `2 * old_mean * torch.mean(x)` (promoted), `old_mean ** 2` (dtype of the parameter: float32 at the first
            # iteration), three additions in the promoted dtype, then sqrt and the weighted average (4(n+4) roundings)
            eps_v, _ = eps_of(env, s1_t.dtype, s2_t.dtype, mu_t.dtype)
            e1, e2, em = eps_of(env, s1_t.dtype)[0], eps_of(env, s2_t.dtype)[0], eps_of(env, mu_t.dtype)[0]
            tol = ((n + 1) * e2 * abs(m2) + ((n + 1) * e1 + 3 * eps_v) * 2 * np.abs(mu * m1) + 2 * em * mu ** 2
                   + 3 * eps_v * (abs(m2) + 2 * np.abs(mu * m1) + mu ** 2) + 4 * (n + 4) * max(eps_o, eps_v) * np.abs(v) + 1e-300)
            doc = (rr * (x2[:, None] - 2 * mu[None, :] * x1[:, None] + mu[None, :] ** 2)).sum(axis=0) / tot
        v = np.where(v < -tol, float("nan"), v)            # `ip_var.sqrt()` of a negative variance is nan (no guard in this rule)
        # `(probs_ind * std).sum(0) / probs_ind.sum(0)`: nan responsibilities (a collapsed std made the regularity nan at an
        # earlier step) or an emptied cluster (0/0) propagate to the result
        v = np.where(np.isfinite(tot) & (tot > 0), v, float("nan"))
        return ("mstd", v.reshape(shape), tol.reshape(shape), doc.reshape(shape))


def expected_values(env, case, dataset, r, fresh):
    """Closed forms computed independently (numpy float64) from the pre-step state, the statistics and the dataset.
    Returns {param: (kind, expected array (means / variances), tolerance array)}; variances for istd / noise."""
    np = env.np
    # the phase the documentation assigns to this iteration (memory-less rule iff k <= n_burn_in_iter), not the flag the
    # algorithm happened to pass: a wrong flag then shows up as a parameter that is not the documented closed form
    pre, S, burn = r["pre"], r["S"], r.get("burn_doc", r["burn"])
    mixture = case["model"] == "mixture_logistic"
    out = {}
    for p, (kind, var) in rule_kinds(env, pre).items():
        if kind == "pop":
            x = f64(env, S[var])
            out[p] = ("pop", x, np.zeros_like(x))
        elif kind in ("imean", "istd") and mixture:
            k2, v, tol, doc = mixture_expected(env, r, p, kind, var, burn)
            out[p] = (k2, v, tol)
            if doc is not None:
                r.setdefault("doc_std", {})[p] = doc
        elif kind == "imean" and not mixture:
            x = f64(env, S[var])
            out[p] = ("imean", x.mean(axis=0), 8 * EPS32 * np.abs(x).max(axis=0) + 1e-30)
        elif kind == "istd" and not mixture:
            x = f64(env, S[var])
            n = x.shape[0]
            if burn:
                v = x.var(axis=0, ddof=1) if n > 1 else np.full(x.shape[1:], float("nan"))
                tol = K_ENV * EPS32 * (v + np.abs(x).max(axis=0) * np.sqrt(v)) + 1e-30
            else:
                x2 = f64(env, S[var + "_sqr"])
                mu = f64(env, pre[var + "_mean"])
                m1, m2 = x.mean(axis=0), x2.mean(axis=0)
                v = m2 - 2 * mu * m1 + mu ** 2
                tol = K_ENV * EPS32 * (np.abs(m2) + 2 * np.abs(mu * m1) + mu ** 2) + 1e-30
            out[p] = ("istd", v, tol)
        elif kind == "noise":
            y = dataset.values.double().numpy()
            w = dataset.mask.double().numpy()
            scalar = noise_is_scalar(case, pre)
            axes = None if scalar else (0, 1)
            nobs = w.sum(axis=axes)
            if fresh:
                # the property as stated: RMS residual over the observed entries, model values of the pre-step state
                m = f64(env, pre["model"])
                num = (w * (y - m) ** 2).sum(axis=axes)
                mag = (w * (y ** 2 + 2 * np.abs(y * m) + m ** 2)).sum(axis=axes)
            else:
                yxm, mxm = f64(env, S["y_x_model"]), f64(env, S["model_x_model"])
                yxm = np.where(w > 0, yxm, 0.0)
                num = (w * (y ** 2 - 2 * yxm + mxm)).sum(axis=axes)
                mag = (w * (y ** 2 + 2 * np.abs(yxm) + np.abs(mxm))).sum(axis=axes)
            with np.errstate(all="ignore"):
                v = np.atleast_1d(num / nobs)
                tol = np.atleast_1d(K_ENV * EPS32 * mag / nobs) + 1e-30
            out[p] = ("noise", v, tol)
        elif kind == "probs":
            nll = f64(env, pre["nll_regul_ind_sum_ind"])
            z = np.clip(-nll, -100.0, None)
            z = z - z.max(axis=1, keepdims=True)
            pr = np.exp(z) / np.exp(z).sum(axis=1, keepdims=True)
            out[p] = ("probs", pr.mean(axis=0), np.full(pr.shape[1], 16 * EPS32))
    return out


def check_fresh_stats(env, chk, cj, dataset, r):
    """Memory-less step (and first step with memory): the statistics in force are the documented functions of the state the step
    starts from - the latent values themselves, their squares, y * model and model^2 at the observed entries."""
    np = env.np
    pre, S = r["pre"], r["S"]
    lat = set(pre.dag.sorted_variables_by_type[env.PopLV]) | set(pre.dag.sorted_variables_by_type[env.IndLV])
    obs = dataset.mask.numpy() > 0
    for k, v in S.items():
        try:
            got = f64(env, v)
            sel = None
            if k in lat:
                want, rel = f64(env, pre[k]), 0.0
            elif k.endswith("_sqr") and k[:-4] in lat:
                want, rel = f64(env, pre[k[:-4]]) ** 2, 4 * EPS32
            elif k == "y_x_model":
                want, rel, sel = dataset.values.double().numpy() * f64(env, pre["model"]), 4 * EPS32, obs
            elif k == "model_x_model":
                want, rel, sel = f64(env, pre["model"]) ** 2, 4 * EPS32, obs
            else:
                continue
            if got.shape != want.shape:
                chk.impl_failure(cj, f"statistic '{k}' of a memory-less step has shape {got.shape}, the variable it collects {want.shape}")
                continue
            with np.errstate(all="ignore"):
                # (+ the float32 underflow threshold: a product below 1.2e-38 is denormal or 0 in the implementation)
                ok = (np.abs(got - want) <= rel * np.abs(want) + (2e-38 if rel else 0.0)) | (np.isnan(got) & np.isnan(want)) | (got == want)
            if sel is not None:
                ok = ok | ~sel
            if not bool(ok.all()):
                i = int(np.argmax(~ok.ravel()))
                chk.impl_failure(cj, f"statistic '{k}' in force at a memory-less step is {got.ravel()[i]!r} at position {i}, the state the "
                                     f"step starts from gives {want.ravel()[i]!r}")
        except Exception as e:  # noqa
            chk.tag("fresh_stats_skipped", f"{k}:{type(e).__name__}")
    chk.tag("fresh_stats", "checked")


def check_step(env, chk, case, dataset, r, fresh, label):
    """Property predicate on one recorded maximisation step. Returns the `expected` dict for the model comparison."""
    np, torch = env.np, env.torch
    cj = dict(case, step=label)
    exp = expected_values(env, case, dataset, r, fresh)
    new = r["new"]
    within_visit_missing = bool(((dataset.mask.sum(dim=2) > 0) & (dataset.mask.sum(dim=2) < dataset.mask.shape[2])).any())
    if new is None:
        # the step raised: legitimate only if some expected variance is below / near the tolerance
        low = [p for p, (k, v, tol) in exp.items() if k in ("istd", "noise") and not (k == "istd" and r["burn"])
               and bool((v - tol < 1e-5).any())]
        if r["err"] != "err:conv" or not low:
            chk.impl_failure(cj, f"maximisation step aborted with {r['err']} although no variance is below the tolerance")
        chk.tag("step_outcome", r["err"])
        return exp
    chk.tag("step_outcome", "ok")
    # the documented refusal: a prior / noise variance below 1e-5 is a convergence error, never a parameter value (the rules of
    # the memory-less phase and of the mixture have no such guard).  A band of 0.1 % around the bound is left undecided.
    for p, (kind, v, tol) in exp.items():
        if kind in ("istd", "noise") and not (kind == "istd" and r["burn"]):
            with np.errstate(all="ignore"):
                low = np.atleast_1d(v) + np.atleast_1d(tol) < 1e-5 * (1 - 1e-3)
            if bool(low.any()):
                chk.impl_failure(cj, f"{p}: the step stored {np.atleast_1d(new[p].detach().double().numpy()).ravel()[:4].tolist()} although the "
                                     f"variance {np.atleast_1d(v).ravel()[:4].tolist()} is below the documented lower bound 1e-5 "
                                     f"(a convergence error is announced for that case)")
    if fresh:
        check_fresh_stats(env, chk, cj, dataset, r)
    for p, (kind, v, tol) in exp.items():
        got = new[p].detach().double().numpy()
        if kind in ("istd", "noise", "mstd"):
            got = np.atleast_1d(got) ** 2
            got = got.reshape(v.shape) if got.size == v.size else np.broadcast_to(got, v.shape)
        else:
            got = got.reshape(v.shape)
        with np.errstate(all="ignore"):
            bad = ~((np.abs(got - v) <= tol) | (np.isnan(got) & np.isnan(v)))
            if kind == "mstd":
                # a variance within rounding of 0 may come out negative (-> nan) in the implementation: ambiguous, counted
                amb = np.isnan(got) & (np.abs(v) <= tol)
                if bool(amb.any()):
                    chk.tag("ambiguous_threshold", p)
                bad &= ~amb
                # the *documented* closed form: responsibility-weighted dispersion of the cluster
                doc = r["doc_std"][p]
                bad_doc = ~((np.abs(got - doc) <= tol) | (np.isnan(got) & np.isnan(doc)))
                chk.tag("mixture_std_vs_weighted_dispersion", "differs" if bool(bad_doc.any()) else "equal-within-envelope")
                if not bool(bad_doc.any()):
                    # the documented form holds: the property is satisfied whatever the coded form is (if the code was
                    # repaired the model comparison below reports that the model no longer corresponds)
                    bad[...] = False
                if bool(bad_doc.any()) and not bool(bad.any()):
                    # F26: the value is exactly the coded closed form (unweighted dispersion of all individuals about the
                    # pre-step cluster mean), not the responsibility-weighted one
                    i = int(np.argmax(bad_doc.ravel()))
                    chk.impl_failure(cj, f"{p}: prior std of cluster {i} is {float(np.sqrt(got.ravel()[i])):.6g} = dispersion of ALL "
                                         f"individuals about the pre-step cluster mean; responsibility-weighted dispersion of the "
                                         f"cluster is {float(np.sqrt(max(doc.ravel()[i], 0.0))):.6g}", finding="F26")
        if bool(bad.any()):
            fid = None
            if kind == "noise" and case["noise"] == "scalar" and within_visit_missing and not r.get("synthetic"):
                fid = "F3"
            what = {"pop": "prior mean of a population variable is not the (averaged) latent value",
                    "imean": "prior mean of an individual variable is not the mean of the (averaged) latent values",
                    "istd": ("prior std is not the Bessel-corrected dispersion (memory-less phase)" if r["burn"] else
                             "prior variance is not mean(x^2) - 2*old_mean*mean(x) + old_mean^2"),
                    "noise": ("noise variance is not the mean squared residual over observed entries" if fresh else
                              "noise variance is not (y_L2 - 2*sum_obs(y_x_model) + sum_obs(model_x_model)) / n_obs"),
                    "mmean": "mixture prior mean is not the responsibility-weighted mean of the current latent values",
                    "mstd": ("mixture prior std is not the Bessel-corrected dispersion of the current latent values (memory-less phase)"
                             if r["burn"] else "mixture prior variance is not mean(x^2) - 2*old_cluster_mean*mean(x) + old_cluster_mean^2"),
                    "probs": "mixture probabilities are not the mean cluster responsibilities"}[kind]
            chk.impl_failure(cj, f"{p}: {what}: got {got.ravel()[:4].tolist()} expected {v.ravel()[:4].tolist()} "
                                 f"(tol {np.atleast_1d(tol).ravel()[:4].tolist()})", finding=fid)
    if "probs" in new:
        s = float(new["probs"].double().sum())
        if abs(s - 1) > 16 * EPS32:
            chk.impl_failure(cj, f"mixture probabilities sum to {s!r}")
        pr = new["probs"].double()
        if not bool(((pr >= 0) & (pr <= 1) | torch.isnan(pr)).all()):   # nan: already compared with the expected value above
            chk.impl_failure(cj, f"a mixture probability lies outside [0, 1]: {pr.tolist()}")
    if "noise_std" in new:
        n_state = r["pre"]["n_obs" if "n_obs" in r["pre"].dag else "n_obs_per_ft"]
        want = dataset.mask.sum() if n_state.ndim == 0 else dataset.mask.sum(dim=(0, 1))
        if not torch.equal(n_state.double().reshape(-1), want.double().reshape(-1)):
            chk.impl_failure(cj, f"observation count used by the noise rule {n_state.tolist()} != number of observed entries {want.tolist()}")
    # all parameters from the pre-step state: each one alone, from a fresh clone of the pre-step state, in reverse order
    mps = r["pre"].dag.sorted_variables_by_type[env.MP]
    for p in reversed(list(mps)):
        try:
            alone = mps[p].compute_update(state=r["pre"].clone(disable_auto_fork=True), suff_stats=r["S"], burn_in=r["burn"])
        except Exception as e:  # noqa
            chk.impl_failure(cj, f"{p}: update alone from the pre-step state raises {err_class(e)} but the batched step succeeded")
            continue
        a, b = alone.detach().reshape(-1), new[p].detach().reshape(-1)
        if a.shape != b.shape or not bool(((a == b) | (torch.isnan(a) & torch.isnan(b))).all()):
            chk.impl_failure(cj, f"{p}: batched update {b.tolist()[:4]} differs from the update computed alone from the "
                                 f"pre-step state {a.tolist()[:4]} (a rule saw another rule's new value)")
    return exp


# ------------------------------------------------------------------ Lean side
def frs(xs):
    return core.fmt_list([fmt_rat(Fraction(float(x))) for x in xs])


def lean_line(env, case, dataset, r):
    """One `step` request for the recorded step (None when nothing to compare)."""
    np = env.np
    pre, S, burn = r["pre"], r["S"], r["burn"]
    mixture = case["model"] == "mixture_logistic"
    kinds = rule_kinds(env, pre)
    old, stats, rules, order, lat = [], [], [], [], []
    seen = set()

    def add_lat(name):
        if ("lat", name) in seen:
            return
        seen.add(("lat", name))
        x = f64(env, pre[name])
        lat.append(f"{name}:" + ";".join(frs(row) for row in x.reshape(x.shape[0], -1)))

    def add_stat(name):
        if name in seen or name not in S:
            return
        seen.add(name)
        x = f64(env, S[name])
        if name in pre.dag.sorted_variables_by_type[env.PopLV]:
            rows = [x.reshape(-1)]
        else:
            rows = x.reshape(x.shape[0], -1)
        stats.append(f"{name}:" + ";".join(frs(row) for row in rows))

    for p, (kind, var) in kinds.items():
        if int(pre[p].numel()) == 0:
            continue     # e.g. `deltas_mean` of a univariate shared-speed model: no entry, nothing to compare
        if kind == "pop":
            add_stat(var)
            rules.append(f"{p}:pop:{var}:0")
        elif kind == "imean" and mixture:
            add_lat(var)
            rules.append(f"{p}:mmean:{var}:0")
        elif kind == "istd" and mixture:
            add_lat(var)
            add_stat(var)
            add_stat(var + "_sqr")
            old.append(f"{var}_mean:" + frs(f64(env, pre[var + "_mean"]).reshape(-1)))
            rules.append(f"{p}:mstd:{var}:0")
        elif kind == "probs" and mixture:
            rules.append(f"{p}:mprobs:{int(pre[p].numel())}:0")
        elif kind == "imean" and not mixture:
            add_stat(var)
            rules.append(f"{p}:imean:{var}:0")
        elif kind == "istd" and not mixture:
            add_stat(var)
            add_stat(var + "_sqr")
            old.append(f"{var}_mean:" + frs(f64(env, pre[var + "_mean"]).reshape(-1)))
            rules.append(f"{p}:istd:{var}:{fmt_rat(TOL_VAR)}")
        elif kind == "noise":
            scalar = noise_is_scalar(case, pre) if case["noise"] == "auto" else case["noise"] == "scalar"
            rules.append(f"{p}:{'nscalar' if scalar else 'ndiag'}:-:{fmt_rat(TOL_VAR)}")
        else:
            continue
        order.append(p)
    line = f"step burn={int(burn)} old={'|'.join(old) or '_'} stats={'|'.join(stats) or '_'} rules={'|'.join(rules) or '_'}"
    if mixture:
        e = responsibilities(env, pre)["e"]
        if not bool(np.isfinite(e).all()):
            raise ValueError("non-finite responsibilities")
        line = "mix" + line + f" lat={'|'.join(lat) or '_'} expo=" + ";".join(frs(row) for row in e)
    if "noise_std" in kinds:
        y = dataset.values.double().numpy()
        w = dataset.mask.numpy() > 0
        yxm = np.where(w, f64(env, S["y_x_model"]), 0.0)
        mxm = f64(env, S["model_x_model"])
        nft = y.shape[2]
        keys = np.broadcast_to(np.arange(nft), y.shape).reshape(-1)
        line += (f" ny={frs(y.reshape(-1))} nw={''.join('1' if b else '0' for b in w.reshape(-1))}"
                 f" nyxm={frs(yxm.reshape(-1))} nmxm={frs(mxm.reshape(-1))} nkeys={core.fmt_list(keys.tolist())} nft={nft}")
    return line, order


def compare_model(env, chk, items):
    """items: list of (case_json, record, expected, line, order). One driver call for all."""
    np = env.np
    lines = [it[3] for it in items]
    # mixture probabilities: one extra line per item that has them
    probs_idx = []
    for i, (cj, r, exp, line, order) in enumerate(items):
        if "probs" in exp and r["new"] is not None:
            nll = f64(env, r["pre"]["nll_regul_ind_sum_ind"])
            z = np.clip(-nll, -100.0, None)
            z = z - z.max(axis=1, keepdims=True)
            e = np.exp(z)
            if not bool(np.isfinite(e).all()):
                chk.tag("nonfinite_statistics_not_sent_to_model", "mixture-probs")
                continue
            lines.append(f"probs k={e.shape[1]} expo=" + ";".join(frs(row) for row in e))
            probs_idx.append(i)
    out = chk.model(lines)
    for (cj, r, exp, line, order), resp in zip(items, out[:len(items)]):
        try:
            parts = dict(tok.split("=", 1) for tok in resp.split(" ")) if resp else {}
        except Exception:
            parts = None
        if parts is None or set(parts) != set(order):
            chk.disagree(cj, "?", resp[:200], "unparsable / incomplete model response")
            continue
        for p in order:
            kind, v, tol = exp[p]
            m = parts[p]
            if r["new"] is None:
                continue  # handled below
            got = r["new"][p].detach().double().numpy().reshape(-1)
            if kind in ("istd", "noise", "mstd"):
                got = got ** 2
            if kind == "istd" and r["burn"] and bool(np.isnan(np.atleast_1d(v)).all()):
                # one individual: the Bessel-corrected dispersion is 0/0 (torch: nan, required by the predicate above); the model's
                # theorems are stated for two individuals or more (`indVarBurnIn_bessel`), its total division answers 0
                chk.tag("outside_model_domain", "memory-less dispersion of a single individual")
                continue
            if m in ("err:nan", "err:inf"):
                # the model says torch stores a non-finite number (0/0 for an emptied cluster, sqrt of a negative variance)
                if bool(np.isfinite(got).all()):
                    if kind == "mstd" and bool((np.abs(np.atleast_1d(v)) <= np.atleast_1d(tol)).any()):
                        chk.tag("ambiguous_threshold", p)
                    else:
                        chk.disagree(cj, got.tolist(), m, f"{p}: model gives a non-finite value, implementation does not")
                continue
            if m.startswith("err"):
                # model refuses (variance < tol) but the implementation went on: ambiguous only if within the envelope of tol
                if kind in ("istd", "noise") and bool((np.abs(np.atleast_1d(v) - 1e-5) <= np.atleast_1d(tol)).any()):
                    chk.tag("ambiguous_threshold", p)
                else:
                    chk.disagree(cj, got.tolist(), m, f"{p}: model raises, implementation does not")
                continue
            mv = np.array([float(Fraction(x)) for x in core.split_ne(m)])
            if mv.size != got.size:
                if mv.size == 1 or got.size == 1:
                    mv, got = np.broadcast_arrays(mv, got)
                else:
                    chk.disagree(cj, got.tolist(), mv.tolist(), f"{p}: shape")
                    continue
            t = np.broadcast_to(np.atleast_1d(tol).reshape(-1), mv.shape)
            if kind == "pop":
                ok = bool((got == mv).all())
            elif kind == "mstd":
                ok = bool(((np.abs(got - mv) <= t) | (np.isnan(got) & (np.abs(mv) <= t))).all())
            else:
                ok = bool((np.abs(got - mv) <= t).all())
            if not ok:
                chk.disagree(cj, got.tolist(), mv.tolist(), f"{p} ({kind}{', burn-in' if r['burn'] else ''}): beyond the envelope {t.tolist()[:3]}")
        if r["new"] is None:
            # implementation raised a convergence error: the model must raise for at least one parameter (or be within envelope)
            errs = [p for p in order if parts[p].startswith("err")]
            near = [p for p in order if exp[p][0] in ("istd", "noise")
                    and bool((np.abs(np.atleast_1d(exp[p][1]) - 1e-5) <= np.atleast_1d(exp[p][2])).any())]
            if not errs and near:
                chk.tag("ambiguous_threshold", near[0])
            elif not errs:
                chk.disagree(cj, r["err"], resp[:200], "implementation raises a convergence error, model does not")
    for i, resp in zip(probs_idx, out[len(items):]):
        cj, r, exp, line, order = items[i]
        try:
            mv = np.array([float(Fraction(x)) for x in core.split_ne(resp.split("=", 1)[1])])
        except Exception:
            chk.disagree(cj, "?", resp[:200], "unparsable probs response")
            continue
        got = r["new"]["probs"].detach().double().numpy().reshape(-1)
        if mv.shape != got.shape or not bool((np.abs(got - mv) <= 16 * EPS32).all()):
            chk.disagree(cj, got.tolist(), mv.tolist(), "probs: beyond the float32 envelope")


# ------------------------------------------------------------------ one case
def _reinvoke(env, model, pre, S, burn, label, **extra):
    """The real `update_parameters` on a clone of `pre` -> a record."""
    work = pre.clone(disable_auto_fork=True)
    try:
        with core.quiet():
            type(model).update_parameters(work, S, burn_in=burn)
        new = {p: work[p].detach().clone() for p in work.dag.sorted_variables_by_type[env.MP]}
        return dict(k=label, pre=pre, S=S, burn=burn, new=new, err=None, **extra)
    except Exception as e:  # noqa
        return dict(k=label, pre=pre, S=S, burn=burn, new=None, err=err_class(e), **extra)


def perturbed_records(env, case, model, rec):
    """Re-invoke the real `update_parameters` on clones of a recorded pre-step state whose prior means were shifted,
    in both phases: the rules must read exactly these pre-step values.  Two historical shifts (+3 years / +0.25) and two of a
    random sign and size (up to several prior standard deviations and beyond)."""
    out = []
    if not rec:
        return out
    base = rec[-1]
    if base["new"] is None:
        return out
    r = random.Random(case["data_seed"] * 13 + 5)
    plans = [(False, None), (True, None), (False, r), (True, r)]
    for j, (burn, rnd) in enumerate(plans):
        pre = base["pre"].clone(disable_auto_fork=True)
        for p, (kind, var) in rule_kinds(env, pre).items():
            if kind == "istd" and (var + "_mean") in pre.dag.sorted_variables_by_type[env.MP]:
                mu = pre[var + "_mean"]
                if rnd is None:
                    delta = 3.0 if var == "tau" else 0.25
                else:
                    delta = rnd.choice([-1, 1]) * (10 ** rnd.uniform(-2, 1.8) if var == "tau" else 10 ** rnd.uniform(-3, 0.5))
                pre[var + "_mean"] = (mu + delta).clone()
        out.append(_reinvoke(env, model, pre, base["S"], burn, f"{base['k']}+shift{'B' if burn else ''}{'' if rnd is None else 'r'}"))
    return out


def mixture_emptied_records(env, case, model, rec):
    """Mixture only: the recorded pre-step state with one cluster moved far away from every individual (its mean
    reference time shifted by 400 years), so that its responsibilities vanish: the probabilities must still be the mean
    responsibilities and sum to one.  Historical: the last cluster.  Added: a cluster chosen at random moved backwards, and ALL
    clusters moved away (every log-density below the documented floor of -100: uniform responsibilities)."""
    out = []
    if not rec or rec[-1]["new"] is None:
        return out
    base = rec[-1]
    r = random.Random(case["data_seed"] * 17 + 1)
    K = int(base["pre"]["tau_mean"].numel())
    plans = [("emptied-cluster", [K - 1], 400.0), (f"emptied-cluster{r.randrange(K)}-", None, -400.0), ("all-clusters-far", list(range(K)), 400.0)]
    for name, which, delta in plans:
        if which is None:
            which = [int(name[len("emptied-cluster"):-1])]
        for burn in (False, True):
            pre = base["pre"].clone(disable_auto_fork=True)
            mu = pre["tau_mean"].clone()
            for c in which:
                mu[c] = mu[c] + delta
            pre["tau_mean"] = mu
            out.append(_reinvoke(env, model, pre, base["S"], burn, f"{base['k']}+{name}{'B' if burn else ''}"))
    return out


def threshold_records(env, case, dataset, model, rec, n_targets=None):
    """The refusal rule driven directly: statistics built so that one variance lies at a chosen distance from the documented
    lower bound 1e-5 (half, 0.1 % below, one float32 step either side, 0.1 % above, twice).  Prior std of tau / xi: all latent
    values and the pre-step mean 0, squares = target.  Noise: observations 0, model^2 = target at every observed entry (diagonal
    noise: only ONE feature at the target, the others at 0.01).  Returns [(record, dataset the expectations are computed from)]."""
    import copy
    out = []
    if not rec or rec[-1]["new"] is None or case["model"] == "mixture_logistic":
        return out
    torch, np = env.torch, env.np
    base = rec[-1]
    t32 = np.float32(1e-5)
    targets = [("half", 0.5e-5), ("below", 0.999e-5), ("ulp-", float(np.nextafter(t32, np.float32(0)))), ("at", float(t32)),
               ("ulp+", float(np.nextafter(t32, np.float32(1)))), ("above", 1.001e-5), ("twice", 2e-5)]
    kinds = rule_kinds(env, base["pre"])
    mps = base["pre"].dag.sorted_variables_by_type[env.MP]
    if n_targets is not None:
        targets = random.Random(case["data_seed"] * 19 + 7).sample(targets, n_targets)
    for name, target in targets:
        for p, (kind, var) in kinds.items():
            if kind == "istd":
                pre = base["pre"].clone(disable_auto_fork=True)
                S = dict(base["S"])
                if (var + "_mean") in mps:
                    pre[var + "_mean"] = torch.zeros_like(pre[var + "_mean"])
                elif float(tens(env, pre[var + "_mean"]).abs().max()) != 0.0:
                    continue
                S[var] = torch.zeros_like(tens(env, S[var]))
                S[var + "_sqr"] = torch.full_like(tens(env, S[var + "_sqr"]), target)
                out.append((_reinvoke(env, model, pre, S, False, f"{base['k']}+threshold:{p}:{name}", synthetic=True), dataset))
            elif kind == "noise":
                pre = base["pre"].clone(disable_auto_fork=True)
                S = dict(base["S"])
                y = pre["y"]
                zeros = torch.zeros_like(y.value)
                pre["y"] = env.WT(zeros, y.weight)
                S["y_x_model"] = env.WT(zeros.clone(), y.weight)
                mxm = torch.full_like(zeros, 0.01)
                ft = (hash_small(case["data_seed"]) % zeros.shape[-1]) if not noise_is_scalar(case, pre) else None
                if ft is None:
                    mxm[...] = target
                else:
                    mxm[..., ft] = target
                S["model_x_model"] = mxm
                ds = copy.copy(dataset)
                ds.values = torch.zeros_like(dataset.values)
                out.append((_reinvoke(env, model, pre, S, False, f"{base['k']}+threshold:{p}:{name}", synthetic=True), ds))
    return out


def hash_small(x):
    import zlib
    return zlib.crc32(repr(x).encode())


def check_iterations(env, chk, case, phase_label, rec, iters, final, outcome, nb):
    """Second observation point: what the state holds when an iteration is over is what the maximisation step computed
    (nothing re-touches the parameters afterwards), each iteration ran exactly one maximisation, the fit runs with the
    memory-less length the settings announce, and the fitted model carries the parameters of the last step."""
    torch = env.torch

    def same(a, b):
        a, b = a.detach().reshape(-1), b.detach().reshape(-1)
        return a.shape == b.shape and bool(((a == b) | (torch.isnan(a) & torch.isnan(b))).all())
    by_k = {r["k"]: r for r in rec}
    chk.tag("iteration_monitor", "engaged" if iters else ("not-engaged" if rec else "no-step"))
    for itn in iters:
        cj = dict(case, step=f"{phase_label}{itn['k']}")
        if itn["calls"] != 1:
            chk.impl_failure(cj, f"iteration {itn['k']} ran update_parameters {itn['calls']} times (exactly one maximisation step per iteration)")
            continue
        if itn["nb"] != nb:
            chk.impl_failure(cj, f"the fit runs with a memory-less phase of {itn['nb']} iterations; the settings give {nb}")
        r = by_k.get(itn["k"])
        if r is None or r["new"] is None:
            continue
        for p, v in r["new"].items():
            if p in itn["post"] and not same(itn["post"][p], v):
                chk.impl_failure(cj, f"{p}: after iteration {itn['k']} the state holds {itn['post'][p].reshape(-1)[:4].tolist()}, the "
                                     f"maximisation step had computed {v.reshape(-1)[:4].tolist()} (the closed form of the statistics in force)")
    if outcome == "ok" and rec and rec[-1]["new"] is not None:
        params = final or {}
        for p, v in rec[-1]["new"].items():
            if p in params and not same(params[p], v):
                chk.impl_failure(dict(case, step=f"{phase_label}end"),
                                 f"{p}: the fitted model carries {params[p].reshape(-1)[:4].tolist()}, the last maximisation step "
                                 f"had computed {v.reshape(-1)[:4].tolist()}")


def run_case(env, chk, case, items):
    torch = env.torch
    ambient = case.get("ambient_dtype")
    old_dtype = torch.get_default_dtype()
    try:
        _run_case(env, chk, case, items, ambient)
    finally:
        torch.set_default_dtype(old_dtype)


def _run_case(env, chk, case, items, ambient=None):
    try:
        with core.quiet():
            df, dataset, model = build(env, case)
            if ambient == "float64":
                # earlier code of the same process left another default dtype; model and data exist (and are initialised) already
                model.initialize(dataset)
                env.torch.set_default_dtype(env.torch.float64)
    except Exception as e:  # noqa
        chk.tag("build", err_class(e))
        chk.case(("build-failed", repr(sorted(case.items()))), nontrivial=False)
        return
    algo_box = {}
    phases = []
    outcome, rec, iters, final = run_fit(env, case, dataset, model, df=df, algo_box=algo_box)
    phases.append(("", case, df, dataset, outcome, rec, iters, final))
    if case.get("refit") and outcome == "ok":
        # the SAME model object (and, for entry "run", the same algorithm object) fitted again on another cohort
        case2 = dict(case, **case["refit"])
        case2.pop("refit", None)
        if case.get("entry") == "run":
            # the very same algorithm object runs again: its settings are those it was built with
            case2["n_iter"], case2["n_burn"] = case["n_iter"], case["n_burn"]
        try:
            with core.quiet():
                df2 = gen_table(env, case2)
                dataset2 = env.Dataset(make_data(env, case2, df2))
            out2, rec2, iters2, final2 = run_fit(env, case2, dataset2, model, df=df2, algo_box=algo_box)
            phases.append(("refit:", case2, df2, dataset2, out2, rec2, iters2, final2))
        except Exception as e:  # noqa
            chk.tag("refit_build", err_class(e))
    if outcome not in ("ok", "err:conv"):
        # initialisation of a degenerate tiny cohort may legitimately refuse; nothing to check then
        chk.tag("fit_outcome", outcome)
        if not rec:
            chk.case(("fit-refused", repr(sorted(case.items()))), nontrivial=False)
            return
    mixture = case["model"] == "mixture_logistic"
    all_recs = []
    for label, pcase, pdf, pds, pout, prec, piters, pfinal in phases:
        chk.tag("fit_outcome", pout)
        if label:
            chk.tag("refit_outcome", pout)
        nb = pcase["n_burn"]
        check_iterations(env, chk, case, label, prec, piters, pfinal, pout, nb)
        extra = [(r, pds) for r in perturbed_records(env, pcase, model, prec)]
        if mixture:
            extra = [(r, pds) for r in mixture_emptied_records(env, pcase, model, prec)] + extra
        if not label:
            extra += threshold_records(env, pcase, pds, model, prec, n_targets=(2 if chk.tier == "quick" else 4))
        for r, ds in [(r, pds) for r in prec] + extra:
            k = r["k"]
            fresh = isinstance(k, int) and k <= nb + 1
            step_label = f"{label}{k}"
            if isinstance(k, int):
                r["burn_doc"] = (k <= nb)
                if r["burn"] != r["burn_doc"]:
                    chk.impl_failure(dict(case, step=step_label), f"iteration {k}: the maximisation was run with burn_in={r['burn']} although the "
                                     f"memory-less phase is k <= {nb}")
            try:
                mshape = tuple(tens(env, r["pre"]["model"]).shape) if "model" in r["pre"].dag else None
            except Exception:  # noqa
                mshape = None
            if mshape is not None and mshape != tuple(ds.values.shape):
                chk.impl_failure(dict(case, step=step_label), f"the state of the maximisation step holds model values of shape {mshape}, the "
                                 f"dataset given to this fit has shape {tuple(ds.values.shape)}: the step does not run on the data of the fit")
                continue
            try:
                exp = check_step(env, chk, case, ds, r, fresh, step_label if label else k)
            except Exception as e:  # noqa  (never let a comparison problem escape as an infrastructure error: it would hide the step)
                chk.impl_failure(dict(case, step=step_label), f"the recorded step could not be evaluated against the dataset of the fit: "
                                 f"{type(e).__name__}: {str(e)[:200]}")
                continue
            try:
                line, order = lean_line(env, case, ds, r)
                items.append((dict(case, step=step_label if label else k), r, exp, line, order))
            except (ValueError, OverflowError):
                # a non-finite statistic (degenerate chain): no exact rational to hand to the model; predicate still evaluated
                chk.tag("nonfinite_statistics_not_sent_to_model", case["model"])
            chk.tag("phase", "synthetic-threshold" if r.get("synthetic") else
                    ("burn-in" if r["burn"] else ("first-with-memory" if fresh else "averaged")))
            all_recs.append(r)
    missing_inside = bool(((dataset.mask.sum(dim=2) > 0) & (dataset.mask.sum(dim=2) < dataset.mask.shape[2])).any())
    n_steps = len(all_recs)
    chk.case((case["model"], case["noise"], case["data_seed"], case["seed"], case["n_iter"], case["n_burn"],
              repr(sorted((k, repr(v)) for k, v in case.items() if k not in BASE_KEYS))),
             nontrivial=(n_steps >= 2 and any(not r["burn"] for r in all_recs)),
             sample=dict(case, table_head=df.head(4).round(4).values.tolist()) if len(chk.samples) < 3 else None,
             tags={"model": case["model"], "noise": case["noise"], "n_ind": case["n_ind"], "n_ft": case["n_ft"], "src": case["src"],
                   "missing_inside_visit": missing_inside, "padded": bool(len(set(dataset.n_visits_per_individual)) > 1),
                   "entry": case.get("entry", "kwargs"), "container": case.get("container", "dataset"), "obs": case.get("obs", "str"),
                   "class": case.get("cls", "historical")})


BASE_KEYS = ("model", "noise", "n_ind", "n_ft", "src", "miss", "data_seed", "n_iter", "n_burn", "seed", "n_clusters")
F3_WITNESS = dict(model="logistic", noise="scalar", n_ind=5, n_ft=2, src=1, miss=0.3, data_seed=4004, n_iter=3, n_burn=1, seed=0)


def gen_cases(chk):
    rng = chk.rng
    cases = [dict(F3_WITNESS)]
    combos = [("logistic", "scalar"), ("logistic", "diagonal"), ("linear", "scalar"), ("linear", "diagonal"),
              ("shared_speed_logistic", "diagonal"), ("shared_speed_logistic", "scalar"), ("joint", "diagonal"), ("joint", "scalar"),
              ("mixture_logistic", "diagonal")]
    reps = 3 if chk.tier == "quick" else 40
    for rep in range(reps):
        for model, noise in combos:
            n_iter = rng.randint(3, 6) if chk.tier == "quick" else rng.randint(3, 10)
            n_ft = rng.choice([2, 2, 3])
            case = dict(model=model, noise=noise, n_ind=rng.randint(3, 8), n_ft=n_ft,
                        src=1, miss=rng.choice([0.0, 0.15, 0.3, 0.45]), data_seed=rng.randrange(10 ** 6),
                        n_iter=n_iter, n_burn=rng.randint(0, n_iter), seed=rng.randrange(1000))
            if model == "mixture_logistic":
                # every shape coincidence between (sources, clusters): 1x2, 2x2 (square), 2x3, 1x3
                case["n_ft"] = 3
                case["src"], case["n_clusters"] = rng.choice([(1, 2), (2, 2), (2, 2), (2, 3), (1, 3)])
                case["n_ind"] = rng.randint(5, 9)
            cases.append(case)
    return cases + gen_wide_cases(chk)


NONMIX = ["logistic", "linear", "shared_speed_logistic", "joint"]


def gen_wide_cases(chk):
    """Configuration classes beyond the historical grid (one generator per class; quick: every class once per run; thorough: four
    times)."""
    rng = chk.rng

    def base(model=None, noise=None, **kw):
        n_iter = rng.randint(3, 6)
        c = dict(model=model or rng.choice(NONMIX), noise=noise or rng.choice(["scalar", "diagonal"]), n_ind=rng.randint(3, 8),
                 n_ft=rng.choice([2, 3]), src=1, miss=rng.choice([0.0, 0.15, 0.3, 0.45]), data_seed=rng.randrange(10 ** 6),
                 n_iter=n_iter, n_burn=rng.randint(0, n_iter), seed=rng.randrange(1000))
        c.update(kw)
        if c["model"] == "mixture_logistic":
            c.setdefault("n_clusters", 2)
            c["n_ind"] = max(c["n_ind"], 3 * c["n_clusters"] + 2)
        return c

    def settings(frac=False):
        st = {}
        u = rng.random()
        if u < 0.5 or frac:
            st["frac"] = "from-n_burn"
        if rng.random() < 0.4:
            st["power"] = rng.choice([0.51, 0.65, 1.0])
        if rng.random() < 0.6:
            # (annealing.n_iter >= n_plateau - 1 is a documented requirement; longer and shorter than the memory-less phase / the fit)
            st["annealing"] = dict(do_annealing=True, initial_temperature=rng.choice([2, 10, 50]), n_plateau=rng.choice([2, 3]),
                                   n_iter=rng.choice([2, 3, 4, 6, 9]))
        if rng.random() < 0.5:
            st["sampler_pop"] = rng.choice(["Gibbs", "FastGibbs", "Metropolis-Hastings"])
        if rng.random() < 0.5:
            st["sampler_ind_params"] = dict(acceptation_history_length=rng.choice([1, 2, 3]))
            st["sampler_pop_params"] = dict(acceptation_history_length=rng.choice([1, 2, 3]))
        if rng.random() < 0.4:
            st["random_order"] = False
        return st

    gens = {
        # dimensions
        "univariate": lambda: base(n_ft=1, src=0, miss=0.0),
        "no-source": lambda: base(model=rng.choice(["logistic", "linear", "shared_speed_logistic"]), n_ft=rng.choice([2, 3, 4]), src=0),
        "square-betas": lambda: base(model=rng.choice(["logistic", "linear", "joint", "shared_speed_logistic"]), n_ft=rng.choice([3, 4]), src=None),
        "many-features": lambda: base(n_ft=rng.choice([4, 5]), src=rng.choice([1, 2])),
        # cohort sizes / visits
        "one-or-two-subjects": lambda: [base(n_ind=1, model=rng.choice(["logistic", "linear", "shared_speed_logistic"])), base(n_ind=2)],
        "large-cohort": lambda: base(n_ind=rng.randint(25, 45)),
        "single-visits": lambda: base(nv_min=1, nv_max=rng.choice([2, 3]), n_ind=rng.randint(5, 9)),
        "many-visits": lambda: base(nv_min=6, nv_max=rng.choice([9, 14]), n_ind=rng.randint(3, 5)),
        # units
        "time-unit": lambda: base(time_unit=rng.choice([12.0, 365.25, 52.0])),
        # (the joint layout refuses event times <= 0: documented)
        "baseline-relative-time": lambda: base(model=rng.choice(["logistic", "linear", "shared_speed_logistic"]),
                                               t_shift=rng.choice([60.0, 70.0, 80.0]), time_unit=rng.choice([1.0, 1.0, 12.0])),
        "feature-unit": lambda: [base(model="linear", y_scale=10 ** rng.uniform(-2.5, -0.8)), base(model="linear", y_scale=10 ** rng.uniform(1.9, 3.5))],
        # missing-data patterns
        "unbalanced-features": lambda: base(n_ft=2, miss_ft=rng.choice([[0.0, 0.8], [0.85, 0.0], [0.5, 0.9]])),
        "feature-missing-for-a-subject": lambda: base(blank=["feature_one", "feature_one"]),
        "whole-visit-missing": lambda: base(blank=["visit", "visit"], keep_nan=True),
        "subject-without-observation": lambda: base(blank=["individual"], keep_nan=True, n_ind=rng.randint(5, 8)),
        # how the noise structure is requested
        # (every spelling once per run; the mixture model has its own copy of that constructor code)
        "obs-spelling": lambda: [base(model=rng.choice(["logistic", "linear", "shared_speed_logistic", "joint"] if o != "dict" else
                                                       ["logistic", "linear", "shared_speed_logistic"]), obs=o, n_iter=rng.randint(2, 4),
                                      noise=("diagonal" if o != "instance" else rng.choice(["scalar", "diagonal"])))
                                 for o in ("tuple", "list", "dict", "instance", "features")]
                                + [base(model="mixture_logistic", n_ft=3, obs=rng.choice(["tuple", "list", "dict", "instance", "features"]),
                                        n_iter=rng.randint(2, 3), noise="diagonal")],
        "obs-default": lambda: [base(model=rng.choice(["logistic", "linear", "shared_speed_logistic"]), noise="auto", obs=o)
                                for o in ("default", "nodim")],
        # entry points and containers (every entry point once per run)
        "entry": lambda: [base(entry=e, container=c) for e, c in zip(("settings", "file", "run"),
                                                                    rng.sample(["dataset", "data", "dataframe"], 3))]
                         + [base(entry="reconf", model=rng.choice(["logistic", "linear"]), n_ind=rng.randint(5, 8), miss=0.15,
                                 n_iter=rng.randint(5, 8), n_burn=nb) for nb in (rng.choice([1, 2]), rng.choice([4, 5]))],
        # settings each tested alone elsewhere
        "settings": lambda: base(settings=settings(frac=True), n_burn=rng.randint(0, 2)),
        "settings-entry": lambda: base(settings=settings(), entry=rng.choice(["settings", "file", "run"])),
        # one object fitted twice
        # (same cohort size: a fitted model keeps the individual variables of its training cohort, a cohort of another size is refused
        # with a size error before any maximisation step)
        "refit": lambda: base(entry=rng.choice(["kwargs", "run", "run"]),
                              refit=dict(data_seed=rng.randrange(10 ** 6), n_iter=rng.randint(2, 5), n_burn=0)),
        "refit-burn": lambda: base(entry=rng.choice(["kwargs", "run"]),
                                   refit=dict(data_seed=rng.randrange(10 ** 6), n_iter=4, n_burn=rng.randint(1, 3))),
        # joint: competing risks
        "competing-risks": lambda: base(model="joint", nb_events=2, n_ft=rng.choice([2, 3]), src=rng.choice([1, 2]), n_ind=rng.randint(6, 9)),
        # mixture beyond the historical shapes
        "mixture-scalar": lambda: base(model="mixture_logistic", noise="scalar", n_ft=rng.choice([2, 3, 4]), n_clusters=rng.choice([2, 3])),
        "mixture-many-clusters": lambda: base(model="mixture_logistic", noise="diagonal", n_ft=3, n_clusters=4, n_ind=rng.randint(14, 18),
                                              src=rng.choice([1, 2])),
        "mixture-time-unit": lambda: base(model="mixture_logistic", noise="diagonal", n_ft=3, time_unit=rng.choice([12.0, 365.25])),
        "mixture-settings": lambda: base(model="mixture_logistic", noise=rng.choice(["scalar", "diagonal"]), n_ft=3, settings=settings(),
                                         entry=rng.choice(["kwargs", "run"])),
        # process state
        "ambient-float64": lambda: base(model=rng.choice(["logistic", "linear"]), ambient_dtype="float64"),
    }
    names = list(gens)
    picked = names if chk.tier == "quick" else names * 4
    out = []
    for name in picked:
        made = gens[name]()
        for c in (made if isinstance(made, list) else [made]):
            c["cls"] = name
            out.append(c)
    for c in out:
        if c["src"] is None:                       # square matrix of mixing coefficients: (n_ft - 1) sources
            c["src"] = c["n_ft"] - 1
        c["src"] = min(c["src"], max(c["n_ft"] - 1, 0))
        c["n_burn"] = min(c["n_burn"], c["n_iter"])
        st = c.get("settings")
        if st and st.get("frac") == "from-n_burn":
            # the documented count is int(frac * n_iter): chosen inside [n_burn, n_burn + 1) / n_iter
            # (close to the next integer: any rounding other than truncation gives another count)
            st["frac"] = (c["n_burn"] + 0.9) / c["n_iter"] if c["n_burn"] < c["n_iter"] else 1.0
    return out


def f26_probe(env, chk):
    """F26 witness on the real function: two well separated groups, hard responsibilities, pre-step cluster means at the
    group centres.  Dispersion inside each cluster: 0.  The real rule returns sqrt(50) for both clusters."""
    torch = env.torch
    listed = [f for f in chk.findings if f.get("id") == "F26" and f.get("status") == "finding"]
    try:
        from leaspy.models.utilities import compute_ind_param_std_from_suff_stats_mixture as rule
        x = torch.tensor([[0.0], [0.0], [10.0], [10.0]], dtype=torch.float64)
        nll = torch.tensor([[0.0, 90.0], [0.0, 90.0], [90.0, 0.0], [90.0, 0.0]], dtype=torch.float64)
        state = {"tau_mean": torch.tensor([0.0, 10.0], dtype=torch.float64), "nll_regul_ind_sum_ind": env.WT(nll)}
        got = rule(state, x, x ** 2, ip_name="tau", dim=0).double().reshape(-1).tolist()
    except Exception as e:  # noqa
        chk.note(f"F26 probe could not run: {err_class(e)}")
        return
    chk.tag("F26_probe", "reproduces" if all(abs(g - 50 ** 0.5) < 1e-9 for g in got) else "differs")
    if all(abs(g - 50 ** 0.5) < 1e-9 for g in got):
        if listed:
            chk.known_finding_reproduces("F26", f"tau = 0,0,10,10, responsibilities (1,0),(1,0),(0,1),(0,1), pre-step cluster means 0, 10: "
                                                f"tau_std = {got} (dispersion of all individuals about each cluster mean); each cluster "
                                                f"has dispersion 0")
    elif listed:
        chk.note(f"finding F26 no longer reproduces on its witness (tau_std = {got})")


def finding_probe(env, chk):
    """F3 witness: scalar noise, a feature missing inside a visit."""
    f26_probe(env, chk)
    for f in chk.findings:
        if f.get("id") == "F3" and f.get("status") == "finding":
            bad = [x for x in chk.impl_failures if x.get("finding") == "F3"]
            if bad:
                chk.known_finding_reproduces("F3", bad[0]["what"][:300])
            else:
                chk.note("finding F3 no longer reproduces")


def run(chk: core.Check):
    env = _imports()
    chk.rule = ("real short mcmc_saem fits (3-10 iterations, every burn-in length) of logistic / linear / shared-speed / joint / mixture "
                "models with scalar and diagonal noise on generated cohorts of 3-8 subjects, 2-5 visits, 2-3 features with random "
                "missing cells; every real maximisation step is recorded (pre-step state, statistics, new parameters) and two more "
                "are produced by calling the real update_parameters on clones whose prior means were shifted (mixture: two more, in "
                "both phases, on clones whose last cluster was emptied by shifting its mean reference time by 400 years). A case is non-trivial "
                "when it has >= 2 steps and at least one step after the memory-less phase; distinct by full configuration. "
                "Widened (every class once per quick run, four times per thorough run): univariate / no source / square mixing matrices / "
                "4-5 features; 1, 2 and 25-45 subjects; single-visit and 6-14-visit subjects; ages in months / weeks / days / years "
                "since a baseline; features of a linear model in units from 0.003 to 3000; unbalanced missingness, a feature wholly "
                "missing for a subject, wholly missing visits, a subject without any observation; the noise structure requested as "
                "tuple / list / dict / instance / through feature names / left to the default; fits started from an AlgorithmSettings "
                "object, a settings file, algorithm_factory(...).run, on a Data object or a DataFrame; settings combined (memory-less "
                "phase as a fraction, step power, annealing longer / shorter than it, sampler kinds and windows of 1-3, fixed order); the "
                "same model (and algorithm object) fitted twice; competing risks; mixture with a common noise, 4 clusters, ages in months "
                "/ days; an ambient float64 default dtype. Added observation points: the statistics in force at memory-less steps "
                "against the state they were collected from; the parameters held by the state at the end of each iteration and by the "
                "fitted model against the step's result; the memory-less length the algorithm runs with against the settings; the "
                "refusal rule driven directly with variances at half / 0.1 % / one float32 step either side of 1e-5; random shifts of "
                "the pre-step means; a random emptied cluster and all clusters out of reach.")
    cases = [c for c in core.load_corpus(PROP) if isinstance(c, dict) and "model" in c] + gen_cases(chk)
    items = []
    for case in cases:
        case = {k: v for k, v in case.items() if k not in ("step", "table_head")}
        run_case(env, chk, case, items)
    compare_model(env, chk, items)
    finding_probe(env, chk)
    chk.exhaustive = False


def replay(chk: core.Check, payload):
    env = _imports()
    case = payload.get("case") or (payload.get("disagreements") or [{}])[0].get("case")
    if not case:
        chk.note("replay file has no case")
        return
    case = {k: v for k, v in case.items() if k not in ("step", "table_head")}
    items = []
    run_case(env, chk, case, items)
    compare_model(env, chk, items)
