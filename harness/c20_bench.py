"""C20 — benchmark models implement their documented estimators.

Correspondence of the real `ConstantModel` / `ConstantPredictionAlgorithm` and `LMEModel` / `lme_fit` /
`lme_personalize` with `Model/Bench.lean` through `drivers/C20.lean`, plus the property's own predicate
evaluated on the implementation with references that use neither the Lean model nor leaspy:

  const-api   public API: Data.from_dataframe (shuffled rows, missing values, all-missing features / visits)
              -> model.personalize(data, "constant_prediction", prediction_type=…) -> model.estimate(ages)
  const-algo  the anchored mechanism `_get_individual_last_values(times, values)` called as upstream's own unit
              test calls it: unsorted times (the data layer always sorts, so input-order bugs are only visible
              here), tied ages, empty history
  lme-synth   LMEModel with loaded parameters (dyadic ages_mean, power-of-two ages_std: the float32 age
              normalisation is then exact) -> personalize -> estimate
  lme-fit     random univariate cohorts -> model.fit(data, "lme_fit") with / without random slope
              -> personalize (training + unseen individuals, public API float32 ages and the float64 class-method)
              -> estimate; statsmodels' own `random_effects` of the very fit (recorded call-through) and of an
              independent harness-side MixedLM fit are the external reference the property names
"""
from __future__ import annotations

import json
import math
import warnings
from fractions import Fraction

from . import core
from .core import fmt_rat, fmt_list, split_ne

PROP = "C20"
LEAN = dict(
    props="LeaspyVerif.Props.C20",
    driver="drivers/C20.lean",
    harness="c20_bench.py",
    extra_modules=["LeaspyVerif.Model.Bench"],
    theorems=["pred_perm_invariant", "predict_perm_invariant", "max_mean_perm_invariant",
              "pred_perm_invariant_tied_ages_counterexample", "dropFullNan_perm",
              "last_is_value_at_max_age", "last_sound", "last_of_distinct_ages",
              "lastKnown_spec", "lastKnown_missing_iff", "max_spec", "mean_spec",
              "constTraj_constant", "constEstimate_spec", "predict_length", "lme_perm_invariant",
              "lme_intercept_specialises", "lme_intercept_solves_normal_eq", "lme_solves_normal_eq",
              "lme_normal_eq_unique", "lme_minimises_penalised_ls", "lme_personalize_solves_normal_eq",
              "lmeTraj_affine_in_age"],
    trusted_extra=[
        "theorems are over exact rationals; the implementation computes in float32 (data layer, constant model) and "
        "float64 (LME): constant-model values are dyadic so the comparison is exact (mean: one correctly rounded "
        "division), LME comparisons use a first-order rounding envelope computed per case from the operands",
        "statsmodels MixedLM (fit and its `random_effects`) is an external reference, exercised at run time, not modelled",
        "Python's `sorted(..., reverse=True)` is a stable sort (modelled by a stable insertion sort)",
        "that the minimiser of the penalised least squares is the Gaussian conditional mean is the textbook identity, "
        "not formalised (the theorem proves the minimiser / normal-equation characterisation)",
    ],
    assumptions=[
        "visit ages of one individual are pairwise distinct (enforced by the data layer, C14); with tied ages the "
        "stable sort makes `last`/`last-known` depend on input order (proved as counterexample, compared with the model)",
        "requests in other accepted forms (tuple, integers, scalar, data frame, MultiIndex), individual parameters / models saved "
        "and loaded back: compared bitwise with the list-request result of the original objects (same float64 operations)",
        "modelled as repaired: F90 (scalar / empty request to the constant model), F91 (LME estimate from re-loaded individual "
        "parameters), F92 (with_random_slope_age lost by save + load), F94 (documented spelling last_known) — open findings with fixes/",
        "LME envelopes: normalised ages carry <= 2 float32 roundings through the public API (ages_mean is a float32 "
        "value after lme_fit), float64 otherwise; cases with cond(Z'Z+Psi^-1) too large for a first-order envelope are "
        "counted as ill-conditioned and not compared",
    ],
)

PTS = ["last", "last-known", "max", "mean"]
EPS64 = 2.0 ** -52
EPS32 = 2.0 ** -23


def _imports():
    warnings.filterwarnings("ignore")
    import leaspy.models  # noqa: F401  (must precede leaspy.variables)
    import numpy as np
    import pandas as pd
    import torch  # noqa: F401
    from leaspy.algo import AlgorithmSettings
    from leaspy.algo.personalize import ConstantPredictionAlgorithm, LMEPersonalizeAlgorithm
    from leaspy.io.data import Data, Dataset
    from leaspy.models import model_factory
    import leaspy.exceptions as lex
    import statsmodels.regression.mixed_linear_model as mlm
    return dict(np=np, pd=pd, AlgorithmSettings=AlgorithmSettings, CPA=ConstantPredictionAlgorithm,
                LPA=LMEPersonalizeAlgorithm, Data=Data, Dataset=Dataset, model_factory=model_factory, lex=lex, mlm=mlm)


def err_class(env, e) -> str:
    lex = env["lex"]
    for name, tag in (("LeaspyAlgoInputError", "err:algo"), ("LeaspyDataInputError", "err:data"),
                      ("LeaspyModelInputError", "err:model"), ("LeaspyInputError", "err:input")):
        if isinstance(e, getattr(lex, name)):
            return tag
    return f"err:other:{type(e).__name__}"


# ---------------------------------------------------------------------------- small helpers
def opt(x):
    """implementation number -> Fraction | None (NaN) | 'inf'"""
    x = float(x)
    if math.isnan(x):
        return None
    if math.isinf(x):
        return "inf"
    return Fraction(x)


def fmt_opt(v) -> str:
    return "nan" if v is None else fmt_rat(Fraction(v))


def parse_opt(s: str):
    return None if s == "nan" else Fraction(s)


def fmt_visits(rows) -> str:
    """rows: [(age, [value|None, …])] in input order"""
    return fmt_list([f"{fmt_rat(Fraction(a))}:{fmt_list([fmt_opt(v) for v in vals])}" for a, vals in rows], sep=";")


def show(v):
    return None if v is None else (v if isinstance(v, str) else float(v))


# ---------------------------------------------------------------------------- constant model: reference predicate
def ref_feature(pt, col):
    """The documented estimator on one feature, in exact arithmetic, written independently of leaspy and of the
    Lean model.  col: [(age Fraction, value Fraction|None)].  Returns a *set* of admissible answers (more than one
    only when visits of equal age make 'the last visit' ambiguous), or None when the estimator is undefined (empty)."""
    if not col:
        return None
    pres = [(a, v) for a, v in col if v is not None]
    if pt == "max":
        return {max(v for _, v in pres)} if pres else {None}
    if pt == "mean":
        return {sum(v for _, v in pres) / len(pres)} if pres else {None}
    if pt == "last":
        amax = max(a for a, _ in col)
        return {v for a, v in col if a == amax}
    if pt == "last-known":
        if not pres:
            return {None}
        amax = max(a for a, _ in pres)
        return {v for a, v in pres if a == amax}
    raise ValueError(pt)


def value_matches(impl, want, pt, eps):
    """impl: Fraction|None|'inf' ; want: Fraction|None.  Exact, except `mean` (one rounded division)."""
    if want is None or impl is None or impl == "inf":
        return impl == want
    if impl == want:
        return True
    if pt == "mean":
        return abs(impl - want) <= Fraction(eps) * abs(want)
    return False


def const_predicate(pt, nf, rows, impl_ip, impl_traj, n_query, eps):
    """rows: history as seen by the estimator [(age, [vals])]; impl_ip: [Fraction|None]*nf; impl_traj: rows of same."""
    fails = []
    for j in range(nf):
        col = [(Fraction(a), None if vals[j] is None else Fraction(vals[j])) for a, vals in rows]
        want = ref_feature(pt, col)
        if want is None:
            continue
        if not any(value_matches(impl_ip[j], w, pt, eps) for w in want):
            fails.append(f"prediction_type={pt}: feature {j} predicted {show(impl_ip[j])}, documented estimator gives "
                         f"{sorted(show(w) for w in want) if None not in want else [show(w) for w in want]}")
    if impl_traj is not None:
        if len(impl_traj) != n_query:
            fails.append(f"{len(impl_traj)} estimated rows for {n_query} requested ages")
        for k, row in enumerate(impl_traj):
            if list(row) != list(impl_ip):
                fails.append(f"estimate at requested age #{k} is {[show(v) for v in row]}, personalised values are "
                             f"{[show(v) for v in impl_ip]}")
                break
    return fails


def cmp_const(env, unit, resp):
    """Compare one implementation outcome with the Lean response.  Returns (impl, model, what) or None."""
    np = env["np"]
    impl = unit["impl"]
    if resp.startswith("err") or resp == "bad-request":
        if isinstance(impl, str) and impl.startswith("err") and resp == "err:raise":
            return None
        return (impl if isinstance(impl, str) else "ok", resp, "outcome (raise / return)")
    if isinstance(impl, str):
        return (impl, resp, "outcome (raise / return)")
    parts = dict(p.split("=", 1) for p in resp.split(" "))
    m_ip = [parse_opt(x) for x in split_ne(parts["ip"])]
    m_traj = [[parse_opt(x) for x in split_ne(r)] for r in split_ne(parts["traj"], ";")]
    ip, traj = impl
    f32 = unit["dtype"] == "f32"

    def same(a, m):
        if m is None or a is None or a == "inf":
            return a == m
        if a == m:
            return True
        if unit["pt"] == "mean":
            # numpy: float64 true_divide of the (exact) sum by the count, then cast to the array dtype
            want = Fraction(float(np.float32(float(m)))) if f32 else Fraction(float(m))
            if a == want:
                return True
            if abs(a - m) <= Fraction(EPS32 if f32 else EPS64) * abs(m):
                unit["tags"]["mean_rounding_ambiguous"] = 1
                return True
        return False

    if len(ip) != len(m_ip) or not all(same(a, m) for a, m in zip(ip, m_ip)):
        return ([show(v) for v in ip], [show(v) for v in m_ip], f"individual parameters ({unit['pt']})")
    if traj is not None:
        if len(traj) != len(m_traj) or not all(len(r) == len(mr) and all(same(a, m) for a, m in zip(r, mr))
                                               for r, mr in zip(traj, m_traj)):
            return ([[show(v) for v in r] for r in traj], [[show(v) for v in r] for r in m_traj],
                    f"estimated trajectory ({unit['pt']})")
    return None


# ---------------------------------------------------------------------------- constant model: runners
def run_const_api(env, chk, case, units):
    np, pd = env["np"], env["pd"]
    nf = case["nf"]
    feats = [f"F{j}" for j in range(nf)]
    rows = case["rows"]  # [id, age, [vals]] in data-frame row order
    df = pd.DataFrame([[r[0], r[1]] + [float("nan") if v is None else v for v in r[2]] for r in rows],
                      columns=["ID", "TIME"] + feats)
    drop = case["drop_full_nan"]
    hist = {}
    for r in rows:
        hist.setdefault(r[0], []).append((r[1], r[2]))
    # one model object for the whole case when `reuse` is set: successive personalisations of tables with the same feature
    # names in different column orders must each follow their own table
    reuse = bool(case.get("reuse"))
    shared_model = env["model_factory"]("constant") if reuse else None
    # how the request reaches the code (absent in older cases = Data object, keyword argument, python lists, objects used directly)
    entry = case.get("entry") or {}
    qforms = entry.get("query") or {}
    for k_pt, pt in enumerate(case.get("pts", PTS)):
        focus = dict(case, pts=[pt])
        cols = list(feats)
        if reuse and nf >= 2 and k_pt % 2 == 1:
            cols = cols[1:] + cols[:1]          # same features, rotated column order
            focus["column_order"] = cols
        f90 = {}
        try:
            with core.quiet():
                dfp = df[["ID", "TIME"] + cols]
                data = env["Data"].from_dataframe(dfp) if drop else env["Data"].from_dataframe(dfp, drop_full_nan=False)
                if entry.get("data") == "Dataset":
                    data = env["Dataset"](data)
                elif entry.get("data") == "DataFrame" and drop:
                    data = dfp.copy()            # (a visit table is read with the default drop_full_nan=True)
                model = shared_model if reuse else env["model_factory"]("constant")
                how = entry.get("settings", "kwarg")
                if how == "object":
                    ip = model.personalize(data, algorithm_settings=env["AlgorithmSettings"]("constant_prediction", prediction_type=pt))
                elif how == "default" and pt == "last":
                    ip = model.personalize(data, "constant_prediction")       # documented default: the last visit
                elif how == "documented-spelling" and pt == "last-known":
                    # the docstrings of the algorithm and of the model call this type ``last_known``
                    try:
                        ip = model.personalize(data, "constant_prediction", prediction_type="last_known")
                    except ValueError as e:
                        if "'last_known' is not a valid PredictionType" in str(e):      # F94's region, narrowly
                            chk.impl_failure(focus, f"prediction_type='last_known' (the documented spelling) refused: {e}", finding="F94")
                            continue
                        raise
                else:
                    ip = model.personalize(data, "constant_prediction", prediction_type=pt)
                ids = list(ip._indices)
                query = {i: case["query"][i] for i in ids if i in case["query"]}
                model_feats = list(model.features)
                ip_used, model_used = ip, model
                if entry.get("ip_route") == "json":
                    ip_used = roundtrip_ip(env, ip)
                if entry.get("model_route") == "save-load":
                    model_used = roundtrip_model(env, model)
                    if list(model_used.features) != model_feats:
                        chk.impl_failure(focus, f"features of the saved and re-loaded model {list(model_used.features)} != {model_feats}")
                est, f90 = const_estimate(env, chk, focus, model_used, ip_used, query, qforms, len(cols))
        except Exception as e:  # noqa
            chk.impl_failure(focus, f"valid cohort aborted in personalize/estimate ({pt}): {err_class(env, e)}: {e}")
            continue
        if model_feats != cols:
            chk.impl_failure(focus, f"model features {model_feats} != data features {cols}")
        if cols != feats and sorted(model_feats) == sorted(feats):
            # bring the estimates back to the canonical feature order F0, F1, …
            perm = [model_feats.index(f) for f in feats]
            est = {i: [[row[j] for j in perm] for row in rows_] for i, rows_ in est.items()}
        for ind, h in hist.items():
            seen = [(a, v) for a, v in h if (not drop) or any(x is not None for x in v)]
            fcase = dict(focus, individual=ind)
            if not seen:
                if ind in ids:
                    chk.impl_failure(fcase, "individual without any observation was personalised")
                continue
            if ind not in ids:
                chk.impl_failure(fcase, "individual with observations missing from the individual parameters")
                continue
            impl_ip = [opt(ip[ind][f]) for f in feats]
            if ind in f90:
                continue      # F90's region (scalar / empty request refused or mis-shaped): reported there, the model is the repaired code
            impl_traj = [[opt(x) for x in row] for row in est[ind]] if ind in query else None
            qf = qforms.get(ind)
            asked = [] if ind not in query else ([] if qf == "empty" else (query[ind][:1] if qf in ("scalar", "np-scalar") else query[ind]))
            nq = len(asked)
            for f in const_predicate(pt, nf, seen, impl_ip, impl_traj, nq, EPS32):
                chk.impl_failure(fcase, f)
            ages = [a for a, _ in h]
            nontriv = len(seen) >= 2 and (ages != sorted(ages) or any(x is None for _, v in seen for x in v))
            tags = {"kind": "const-api", "pt": pt, "n_visits": min(len(seen), 8),
                    "all_missing_feature": any(all(v[j] is None for _, v in seen) for j in range(nf)),
                    "input_sorted": ages == sorted(ages), "dropped_visits": len(h) - len(seen) if drop else 0}
            line = (f"const pt={pt} nf={nf} drop={1 if drop else 0} v={fmt_visits(h)} "
                    f"t={fmt_list([fmt_rat(Fraction(t)) for t in asked])}")
            if entry:
                tags = dict(tags, data_as=entry.get("data", "Data"), settings_as=entry.get("settings", "kwarg"),
                            ip_route=entry.get("ip_route", "direct"), model_route=entry.get("model_route", "direct"),
                            n_features=nf, value_scale_log2=case.get("scale_log2", 0), time_axis=case.get("axis", "age"))
            units.append(dict(line=line, case=fcase, impl=(impl_ip, impl_traj), pt=pt, dtype="f32", cmp=cmp_const,
                              key=("const-api", pt, nf, drop, tuple((a, tuple(v)) for a, v in h), json.dumps(entry, sort_keys=True)),
                              nontrivial=nontriv, tags=tags))


def roundtrip_ip(env, ip):
    """individual parameters written to a JSON file and read back (the documented way to keep a personalisation)"""
    import os
    import shutil
    import tempfile
    from leaspy.io.outputs import IndividualParameters
    tmp = tempfile.mkdtemp(prefix="c20_ip_")
    try:
        path = os.path.join(tmp, "ip.json")
        ip.save(path)
        return IndividualParameters.load(path)
    finally:
        shutil.rmtree(tmp, ignore_errors=True)


def roundtrip_model(env, model):
    import os
    import shutil
    import tempfile
    from leaspy.models import BaseModel
    tmp = tempfile.mkdtemp(prefix="c20_model_")
    try:
        path = os.path.join(tmp, "model.json")
        model.save(path)
        return BaseModel.load(path)
    finally:
        shutil.rmtree(tmp, ignore_errors=True)


def dress_query(env, ts, form):
    np = env["np"]
    if form in (None, "list"):
        return list(ts)
    if form == "tuple":
        return tuple(ts)
    if form == "np64":
        return np.array(ts, dtype=np.float64)
    if form == "np32":
        return np.array(ts, dtype=np.float32)
    if form == "int-list":
        return [int(t) for t in ts] if all(float(t).is_integer() for t in ts) else list(ts)
    if form == "scalar":
        return ts[0]
    if form == "np-scalar":
        return np.float64(ts[0])
    if form == "empty":
        return []
    raise ValueError(form)


def n_requested(ts, form):
    return 0 if form == "empty" else (1 if form in ("scalar", "np-scalar") else len(ts))


def const_estimate(env, chk, focus, model, ip, query, qforms, nf):
    """estimate() of the constant model for every requested individual, each request in its own accepted form ("a unique
    time-point or a list of time-points"; tuples and arrays as estimate itself passes them on), then the same request as a data
    frame (to_dataframe=True) and through a MultiIndex. Returns (id -> rows as nested lists, ids in F90's region)."""
    np, pd = env["np"], env["pd"]
    est, f90 = {}, {}
    plain = {}
    for i, ts in query.items():
        form = qforms.get(i)
        nq = n_requested(ts, form)
        fcase = dict(focus, individual=i, query_form=form)
        if form in ("scalar", "np-scalar", "empty"):
            # F90's region: a request that is not a non-empty sequence, on its own call
            try:
                a = np.asarray(model.estimate({i: dress_query(env, ts, form)}, ip)[i])
            except TypeError as e:
                if "has no len()" in str(e):
                    chk.impl_failure(fcase, f"estimate at a time-point given as a scalar raised TypeError: {e}", finding="F90")
                    f90[i] = 1
                    continue
                raise
            if form == "empty" and a.shape == (0,):
                chk.impl_failure(fcase, f"estimate for an empty list of ages has shape {a.shape} instead of (0, {nf})", finding="F90")
                f90[i] = 1
                continue
        else:
            a = np.asarray(model.estimate({i: dress_query(env, ts, form)}, ip)[i])
            plain[i] = list(ts)
        if a.shape != (nq, nf) or str(a.dtype) != "float32":
            chk.impl_failure(fcase, f"estimate returned an array of shape {a.shape} / {a.dtype} for {nq} requested ages and {nf} features")
            est[i] = []
            continue
        est[i] = a.tolist()
        if form:
            chk.tag("query_form", form)
    # the same (non-degenerate) requests in one call, as a data frame and through an index: exactly the requested rows, in order,
    # each carrying the individual's constant values
    if plain and qforms:
        want_keys = [(i, float(t)) for i, ts in plain.items() for t in ts]
        ix_list = list(want_keys)
        ix_list.reverse()
        ix = pd.MultiIndex.from_tuples(ix_list, names=["ID", "TIME"])
        for what, out, keys in (("to_dataframe=True", model.estimate(plain, ip, to_dataframe=True), want_keys),
                                ("MultiIndex", model.estimate(ix, ip), ix_list)):
            got = [(a, float(b)) for a, b in out.index.tolist()]
            if got != keys:
                chk.impl_failure(dict(focus, entry_point=what), f"estimate ({what}) returned rows {got[:5]}… for the requested {keys[:5]}…")
                continue
            for (i, _t), row in zip(got, out.values.tolist()):
                ref = est[i][0] if est.get(i) else None
                if ref is not None and not all((x == y) or (x != x and y != y) for x, y in zip(row, ref)):
                    chk.impl_failure(dict(focus, entry_point=what, individual=i), f"estimate ({what}) row {row} differs from the dict estimate {ref}")
                    break
    return est, f90


def run_const_algo(env, chk, case, units):
    np = env["np"]
    nf = case["nf"]
    times = case["times"]
    values = case["values"]  # [[v|None]*nf]*n
    vdt = np.float32 if case.get("values_as") == "f32" else float      # the public API hands float32 values over
    arr = np.array([[float("nan") if v is None else v for v in row] for row in values], dtype=vdt).reshape(len(times), nf)
    feats = [f"F{j}" for j in range(nf)]
    rows = list(zip(times, values))
    for pt in case.get("pts", PTS):
        fcase = dict(case, pts=[pt])
        try:
            with core.quiet():
                algo = env["CPA"](env["AlgorithmSettings"]("constant_prediction", prediction_type=pt))
                ta = case.get("times_as")
                if ta == "list":
                    t_in = list(times)
                elif ta == "f32":
                    t_in = np.array(times, dtype=np.float32)
                elif ta == "torch":
                    import torch
                    t_in = torch.tensor(times, dtype=torch.float32)     # what Dataset.get_times_patient may hand over
                else:
                    t_in = np.array(times, dtype=float)
                d = algo._get_individual_last_values(t_in, arr.copy(), features=feats)
            impl = ([opt(d[f]) for f in feats], None)
            if list(d.keys()) != feats:
                chk.impl_failure(fcase, f"returned keys {list(d.keys())} != features")
        except Exception as e:  # noqa
            impl = err_class(env, e)
            if times:
                chk.impl_failure(fcase, f"non-empty history aborted ({pt}): {impl}: {e}")
        if not isinstance(impl, str):
            for f in const_predicate(pt, nf, rows, impl[0], None, 0, EPS32 if vdt is np.float32 else EPS64):
                chk.impl_failure(fcase, f)
        tied = len(set(times)) < len(times)
        nontriv = len(times) >= 2 and (times != sorted(times) or any(v is None for row in values for v in row))
        tags = {"kind": "const-algo", "pt": pt, "n_visits": min(len(times), 8), "tied_ages": tied,
                "input_sorted": times == sorted(times), "empty": not times,
                "all_missing_feature": bool(times) and any(all(r[j] is None for r in values) for j in range(nf))}
        line = f"const pt={pt} nf={nf} drop=0 v={fmt_visits(rows)} t=_"
        if case.get("values_as") or case.get("axis"):
            tags = dict(tags, values_dtype=case.get("values_as", "f64"), times_as=case.get("times_as"), time_axis=case.get("axis", "age"))
        units.append(dict(line=line, case=fcase, impl=impl, pt=pt, dtype="f32" if vdt is np.float32 else "f64", cmp=cmp_const,
                          key=("const-algo", pt, nf, tuple(times), tuple(map(tuple, values)), case.get("values_as"), case.get("times_as")),
                          nontrivial=nontriv, tags=tags))


# ---------------------------------------------------------------------------- LME: numpy reference + envelope
def lme_reference(np, slope, mean, std, fe, cinv, obs, eps_a):
    """float64 numpy reference of the conditional mean + first-order rounding envelope.
    obs = [(t, y)] observed visits.  Returns dict(b, tol, cond, A, u, a) or None when undefined."""
    if std == 0 or not obs:
        return None
    t = np.array([o[0] for o in obs], dtype=float)
    y = np.array([o[1] for o in obs], dtype=float)
    a = (t - mean) / std
    r = y - (fe[0] + fe[1] * a)
    n = len(obs)
    C = np.array(cinv, dtype=float).reshape(2, 2)
    if slope:
        Z = np.column_stack([np.ones(n), a])
        A = Z.T @ Z + C
        u = Z.T @ r
    else:
        A = np.array([[n + C[0, 0]]])
        u = np.array([r.sum()])
    with np.errstate(all="ignore"):
        try:
            Ainv = np.linalg.inv(A)
            cond = float(np.linalg.cond(A))
        except np.linalg.LinAlgError:
            return dict(singular=True)
    if not np.isfinite(Ainv).all() or not math.isfinite(cond):
        return dict(singular=True)
    b = Ainv @ u
    nAinv = float(np.abs(Ainv).sum(axis=1).max())
    da = eps_a * np.abs(a)
    dr = abs(fe[1]) * da + 4 * EPS64 * (np.abs(y) + abs(fe[0]) + np.abs(fe[1] * a))
    if slope:
        du = max(dr.sum(), (np.abs(a) * dr + np.abs(r) * da).sum())
        dA = da.sum() + (2 * np.abs(a) * da).sum() + 8 * n * EPS64 * float(np.abs(A).max())
    else:
        du = dr.sum()
        dA = 4 * EPS64 * abs(A[0, 0])
    babs = float(np.abs(b).max())
    tol = 4 * (nAinv * (du + dA * babs) + 64 * EPS64 * cond * (nAinv * float(np.abs(u).max()) + babs)) + 1e-300
    return dict(b=b, tol=float(tol), cond=cond, A=A, u=u, a=a, singular=False)


def lme_line(slope, mean, std, fe, cinv, rows, ts):
    """ts=None: random effects only"""
    q = lambda x: fmt_rat(Fraction(x))  # noqa: E731
    c = [cinv[0][0], cinv[0][1], cinv[1][0], cinv[1][1]]
    return (f"lme slope={1 if slope else 0} mean={q(mean)} std={q(std)} fe={q(fe[0])},{q(fe[1])} "
            f"cinv={fmt_list([q(x) for x in c])} v={fmt_visits([(t, [y]) for t, y in rows])}"
            + ("" if ts is None else f" t={fmt_list([q(t) for t in ts])}"))


def cinv22(np, arr):
    """stored cov_re_unscaled_inv -> 2x2 nested list (1x1 is embedded; the other entries are never read)"""
    arr = np.asarray(arr, dtype=float)
    if arr.shape == (1, 1):
        return [[float(arr[0, 0]), 0.0], [0.0, 0.0]]
    return [[float(arr[0, 0]), float(arr[0, 1])], [float(arr[1, 0]), float(arr[1, 1])]]


def cmp_lme(env, unit, resp):
    impl = unit["impl"]            # error string | (re list, traj list | error string | None)
    ref = unit["ref"]
    regular = ref is not None and not ref.get("singular") and not ref.get("ill")
    if resp == "bad-request" or resp.startswith("err:driver"):
        return (str(impl)[:80], resp, "driver refused the request")
    if resp == "err:nonfinite":
        if isinstance(impl, str):
            return None
        if not regular:
            unit["tags"]["singular_not_compared"] = 1   # exact singularity is not decidable in floating point
            return None
        return ("ok", resp, "outcome (model: undefined / non-finite)")
    if isinstance(impl, str):
        if not regular:
            unit["tags"]["singular_not_compared"] = 1
            return None
        return (impl, resp[:80], "outcome (implementation failed, model returns)")
    if not regular:
        unit["tags"]["ill_conditioned_not_compared"] = 1
        return None
    parts = dict(p.split("=", 1) for p in resp.split(" "))
    m_re = [Fraction(x) for x in split_ne(parts["re"])]
    re, traj = impl
    tol = ref["tol"]
    if len(re) != len(m_re):
        return (re, [float(x) for x in m_re], "number of random effects")
    for k, (a, m) in enumerate(zip(re, m_re)):
        if not abs(a - float(m)) <= tol:
            return (re, [float(x) for x in m_re], f"random effect #{k}: |impl-model|={abs(a - float(m)):.3g} > envelope {tol:.3g}")
    if traj is not None:
        if parts.get("traj") == "err" or isinstance(traj, str):
            if parts.get("traj") == "err" and isinstance(traj, str):
                return None
            return (traj if isinstance(traj, str) else "ok", parts.get("traj", "")[:60], "trajectory outcome (raise / return)")
        m_tr = [Fraction(x) for x in split_ne(parts["traj"])]
        if len(traj) != len(m_tr):
            return (traj, [float(x) for x in m_tr], "trajectory length")
        for k, (y, m, ttol) in enumerate(zip(traj, m_tr, unit["traj_tol"])):
            if not abs(y - float(m)) <= ttol:
                return (traj, [float(x) for x in m_tr], f"trajectory point #{k}: |impl-model|={abs(y - float(m)):.3g} > envelope {ttol:.3g}")
    return None


def lme_individual(env, chk, units, fcase, slope, params, rows, ts, impl_re, impl_traj, eps_a, tags, sm_re=None,
                   sm_what="statsmodels random_effects of the fit"):
    """Predicate + unit for one individual.  rows=[(t, y|None)]; impl_re = {name: float} or error string;
    impl_traj = [float] | error string | None (not requested)."""
    np = env["np"]
    mean, std, fe, cinv = params
    obs = [(t, y) for t, y in rows if y is not None]
    ref = lme_reference(np, slope, mean, std, fe, cinv, obs, eps_a)
    if ref is not None and not ref.get("singular"):
        ref["ill"] = not (ref["cond"] * eps_a * 8 < 1e-3)
    regular = ref is not None and not ref.get("singular") and not ref["ill"]
    names = ["random_intercept", "random_slope_age"] if slope else ["random_intercept"]
    traj_tol = []
    if isinstance(impl_re, str):
        impl = impl_re
        if regular:
            chk.impl_failure(fcase, f"personalisation of a regular individual aborted: {impl_re}")
    else:
        if sorted(impl_re) != sorted(names):
            chk.impl_failure(fcase, f"individual parameters {sorted(impl_re)} instead of {names}")
            return
        re = [float(impl_re[k]) for k in names]
        finite = all(math.isfinite(x) for x in re)
        if isinstance(impl_traj, list) and not all(math.isfinite(y) for y in impl_traj):
            impl_traj = "err:nonfinite"
        impl = (re, impl_traj) if finite else "err:nonfinite"
        if regular and not finite:
            chk.impl_failure(fcase, f"non-finite random effects {re} for a regular individual")
        if regular and finite:
            b, tol, A, u = ref["b"], ref["tol"], ref["A"], ref["u"]
            bi = np.array(re)
            # (1) conditional mean given the variance components: solves the normal equations / equals the reference
            resid = float(np.abs(A @ bi - u).max())
            if not resid <= float(np.abs(A).sum(axis=1).max()) * tol:
                chk.impl_failure(fcase, f"random effects {re} do not solve (Z'Z+Psi^-1) b = Z'r: residual {resid:.3g} "
                                        f"(solution of the normal equations: {b.tolist()})")
            elif not float(np.abs(bi - b).max()) <= tol:
                chk.impl_failure(fcase, f"random effects {re} differ from the conditional mean {b.tolist()} by "
                                        f"{float(np.abs(bi - b).max()):.3g} > {tol:.3g}")
            # (2) the reference library on the training individuals
            if sm_re is not None:
                d = float(np.abs(bi - np.array(sm_re["values"])).max())
                if not d <= sm_re["rtol"] * (1 + float(np.abs(bi).max())) + tol:
                    chk.impl_failure(fcase, f"random effects {re} differ from {sm_what} {list(sm_re['values'])} by {d:.3g}")
            # (3) straight line in age with the right slope / intercept
            if impl_traj is not None and ts:
                if isinstance(impl_traj, str):
                    chk.impl_failure(fcase, f"estimate at ages {ts} failed: {impl_traj}")
                else:
                    b1 = re[1] if slope else 0.0
                    sl = (fe[1] + b1) / std
                    ic = fe[0] + re[0] - sl * mean
                    if len(impl_traj) != len(ts):
                        chk.impl_failure(fcase, f"{len(impl_traj)} trajectory points for {len(ts)} requested ages")
                    for t, y in zip(ts, impl_traj):
                        at = (t - mean) / std
                        scale = abs(fe[0]) + abs(re[0]) + abs(at) * (abs(fe[1]) + abs(b1)) + abs(ic) + abs(sl * t)
                        ttol = EPS32 * abs(y) + 16 * EPS64 * scale * (1 + abs(mean / std)) + 1e-300
                        traj_tol.append(ttol + (1 + abs(at)) * tol)
                        if not abs(y - (ic + sl * t)) <= ttol:
                            chk.impl_failure(fcase, f"estimate at age {t} is {y!r}, the line (beta0+b0-s*ages_mean)+s*t with "
                                                    f"s=(beta1+b1)/ages_std gives {ic + sl * t!r}")
                            break
    nobs = len(obs)
    tags = dict(tags, n_obs=min(nobs, 8), slope=slope, regular=regular)
    units.append(dict(line=lme_line(slope, mean, std, fe, cinv, rows, None if impl_traj is None else ts),
                      case=fcase, impl=impl, ref=ref, traj_tol=traj_tol, cmp=cmp_lme,
                      key=("lme", slope, mean, std, tuple(fe), str(cinv), tuple(rows), tuple(ts), tags.get("path")),
                      nontrivial=nobs >= 2, tags=tags))


def make_data(env, rows, drop=True):
    """rows [[id, age, y|None]] -> Data (univariate, feature 'Y')"""
    pd = env["pd"]
    df = pd.DataFrame([[r[0], r[1], float("nan") if r[2] is None else r[2]] for r in rows], columns=["ID", "TIME", "Y"])
    return env["Data"].from_dataframe(df) if drop else env["Data"].from_dataframe(df, drop_full_nan=False)


def by_individual(rows):
    h = {}
    for r in rows:
        h.setdefault(r[0], []).append((r[1], r[2]))
    return h


def personalize_and_estimate(env, model, data, query, chk=None, case=None, entry=None, slope=None):
    """public API; returns (ip: id -> {name: float}, est: id -> [float] | error string); personalize errors escape.
    With `entry` (and chk / case): the same requests in the other accepted forms, through individual parameters that were saved
    and loaded back, and with the model saved and loaded back — every route must give the very same numbers."""
    np, pd = env["np"], env["pd"]
    with core.quiet():
        ip = model.personalize(data, "lme_personalize")
    ids = list(ip._indices)
    ipd = {i: {k: float(v) for k, v in ip[i].items()} for i in ids}
    estd = {}
    arrs = {}
    for i in ids:
        if i not in query:
            continue
        try:
            with core.quiet():
                arr = model.estimate({i: query[i]}, ip)[i]
                # the same request with the ages as a float64 array (what `np.linspace` / a DataFrame column give), twice:
                # same answer, and the caller's array is left as it was
                ages_arr = np.array(query[i], dtype=np.float64)
                keep = ages_arr.copy()
                a1 = model.estimate({i: ages_arr}, ip)[i]
                a2 = model.estimate({i: ages_arr}, ip)[i]
            if not (np.array_equal(ages_arr, keep)):
                estd[i] = "err:other:caller-ages-modified"
                continue
            if not (np.array_equal(a1, arr, equal_nan=True) and np.array_equal(a2, arr, equal_nan=True)):
                estd[i] = "err:other:array-ages-differ-from-list-ages"
                continue
            if tuple(arr.shape) != (len(query[i]), 1) or str(arr.dtype) != "float32":
                estd[i] = f"err:other:shape{tuple(arr.shape)}/{arr.dtype}"
            else:
                estd[i] = [float(x) for x in arr[:, 0]]
                arrs[i] = arr
        except Exception as e:  # noqa
            estd[i] = err_class(env, e)
    if entry and chk is not None:
        other_routes(env, chk, case, model, data, ip, ipd, query, arrs, slope)
    return ipd, estd


def other_routes(env, chk, case, model, data, ip, ipd, query, arrs, slope):
    np, pd = env["np"], env["pd"]

    def same(a, b):
        a, b = np.asarray(a), np.asarray(b)
        return a.shape == b.shape and np.array_equal(a, b, equal_nan=True)

    # (1) forms of the request
    for i, arr in arrs.items():
        ts = query[i]
        if not ts:
            continue
        fcase = dict(case, individual=i)
        forms = [("tuple", tuple(ts)), ("scalar", ts[0]), ("numpy-scalar", np.float64(ts[0]))]
        if all(float(t).is_integer() for t in ts):
            forms.append(("integers", [int(t) for t in ts]))
        for name, req in forms:
            want = arr[:1] if "scalar" in name else arr
            try:
                with core.quiet():
                    got = model.estimate({i: req}, ip)[i]
            except Exception as e:  # noqa
                chk.impl_failure(dict(fcase, query_form=name), f"estimate with the ages given as {name} raised {err_class(env, e)}: {e}")
                continue
            if not same(got, want):
                chk.impl_failure(dict(fcase, query_form=name), f"estimate with the ages given as {name} returns {np.asarray(got).tolist()}, "
                                                               f"as a list {np.asarray(want).tolist()}")
            chk.tag("lme_query_form", name)
    plain = {i: list(query[i]) for i in arrs if query[i]}
    if plain:
        keys = [(i, float(t)) for i, ts in plain.items() for t in ts]
        rev = list(reversed(keys))
        try:
            with core.quiet():
                fr = model.estimate(plain, ip, to_dataframe=True)
                fx = model.estimate(pd.MultiIndex.from_tuples(rev, names=["ID", "TIME"]), ip)
            for what, out, kk in (("to_dataframe=True", fr, keys), ("MultiIndex", fx, rev)):
                got = [(a, float(b)) for a, b in out.index.tolist()]
                vals = {}
                for i in plain:
                    vals[i] = {float(t): float(v) for t, v in zip(plain[i], arrs[i][:, 0])}
                if got != kk:
                    chk.impl_failure(dict(case, entry_point=what), f"estimate ({what}) returned rows {got[:5]}… for the requested {kk[:5]}…")
                elif not all(float(v) == vals[i][t] or (v != v and vals[i][t] != vals[i][t]) for (i, t), v in zip(got, out.values[:, 0].tolist())):
                    chk.impl_failure(dict(case, entry_point=what), f"estimate ({what}) values differ from the dict estimates")
                chk.tag("lme_query_form", what)
        except Exception as e:  # noqa
            chk.impl_failure(dict(case, entry_point="frame/index"), f"estimate as a data frame / through an index raised {err_class(env, e)}: {e}")
    # (2) individual parameters saved and loaded back (plain floats instead of numpy scalars)
    try:
        with core.quiet():
            ip2 = roundtrip_ip(env, ip)
    except Exception as e:  # noqa
        chk.tag("lme_ip_route", f"json-unavailable:{type(e).__name__}")
        ip2 = None
    if ip2 is not None:
        chk.tag("lme_ip_route", "json")
        for i, arr in arrs.items():
            fcase = dict(case, individual=i, ip_route="json")
            if {k: float(v) for k, v in ip2[i].items()} != ipd[i]:
                chk.tag("lme_ip_route", "json-values-changed")     # C16's matter
                continue
            try:
                with core.quiet():
                    got = model.estimate({i: query[i]}, ip2)[i]
            except AttributeError as e:
                # F91's region is narrow: the `.item()` of a plain float
                fid = "F91" if "has no attribute 'item'" in str(e) else None
                chk.impl_failure(fcase, f"estimate from individual parameters that were saved and loaded back raised AttributeError: {e}", finding=fid)
                continue
            except Exception as e:  # noqa
                chk.impl_failure(fcase, f"estimate from individual parameters that were saved and loaded back raised {err_class(env, e)}: {e}")
                continue
            if not same(got, arr):
                chk.impl_failure(fcase, f"estimate from re-loaded individual parameters {np.asarray(got).tolist()} != {arr.tolist()}")
    # (3) the model saved and loaded back: same structure, same random effects, same lines
    try:
        with core.quiet():
            m2 = roundtrip_model(env, model)
    except Exception as e:  # noqa
        chk.impl_failure(dict(case, model_route="save-load"), f"saving and loading the fitted LME model raised {err_class(env, e)}: {e}")
        return
    chk.tag("lme_model_route", "save-load")
    mcase = dict(case, model_route="save-load")
    flag = bool(getattr(m2, "with_random_slope_age", None))
    if slope is not None and flag != bool(slope):
        # F92's region is narrow: a random-intercept model that comes back with a random slope
        chk.impl_failure(mcase, f"the model saved with with_random_slope_age={bool(slope)} is loaded with with_random_slope_age={flag}",
                         finding="F92" if (not slope and flag) else None)
        return
    try:
        with core.quiet():
            ipb = m2.personalize(data, "lme_personalize")
        ipbd = {i: {k: float(v) for k, v in ipb[i].items()} for i in ipb._indices}
        if ipbd != ipd:
            bad = next(i for i in ipd if ipbd.get(i) != ipd[i])
            chk.impl_failure(dict(mcase, individual=bad), f"random effects from the re-loaded model {ipbd.get(bad)} != {ipd[bad]}")
            return
        for i, arr in arrs.items():
            with core.quiet():
                got = m2.estimate({i: query[i]}, ipb)[i]
            if not same(got, arr):
                chk.impl_failure(dict(mcase, individual=i), f"estimate of the re-loaded model {np.asarray(got).tolist()} != {arr.tolist()}")
                break
    except Exception as e:  # noqa
        chk.impl_failure(mcase, f"personalize / estimate with the re-loaded model raised {err_class(env, e)}: {e}")


def run_lme_synth(env, chk, case, units):
    np = env["np"]
    slope = case["slope"]
    P = case["params"]
    mean, std, fe = P["ages_mean"], P["ages_std"], P["fe_params"]
    cinv_arr = np.array(P["cov_re_unscaled_inv"], dtype=float)
    cinv = cinv22(np, cinv_arr)
    rows = case["rows"]
    hist = by_individual(rows)
    try:
        with core.quiet():
            data = make_data(env, rows, drop=case.get("drop_full_nan", True))
            if case.get("model_as") == "settings":
                # the documented file format, as a dictionary (lists and floats, the random-effects structure as a keyword)
                from leaspy.models import BaseModel
                model = BaseModel.load({"leaspy_version": "2.0.0-dev", "name": "lme", "features": ["Y"], "dimension": 1,
                                        "with_random_slope_age": bool(slope),
                                        "parameters": {"ages_mean": mean, "ages_std": std, "fe_params": [float(x) for x in fe],
                                                       "cov_re_unscaled_inv": cinv_arr.tolist()}})
            else:
                model = env["model_factory"]("lme", with_random_slope_age=slope)
                model.initialize(env["Dataset"](data))
                model.load_parameters({"ages_mean": mean, "ages_std": std, "fe_params": np.array(fe, dtype=float),
                                       "cov_re_unscaled_inv": cinv_arr})
        ipd, estd = personalize_and_estimate(env, model, data, case["query"], chk=chk, case=case,
                                             entry=case.get("routes") and std != 0, slope=slope)
        err = None
    except Exception as e:  # noqa
        err = f"{err_class(env, e)}"
        ipd, estd = {}, {}
    for ind, h in hist.items():
        fcase = dict(case, individual=ind)
        ts = case["query"].get(ind, [])
        if err is not None:
            impl_re, impl_traj = err, None
        elif ind not in ipd:
            if any(y is not None for _, y in h):
                chk.impl_failure(fcase, "individual with observations missing from the individual parameters")
            continue
        else:
            impl_re, impl_traj = ipd[ind], estd.get(ind)
        lme_individual(env, chk, units, fcase, slope, (mean, std, fe, cinv), h, ts, impl_re, impl_traj, EPS32,
                       {"kind": "lme-synth", "path": "api"})


def cmp_lme1(env, unit, resp):
    impl = unit["impl"]
    if resp == "bad-request":
        return (str(impl), resp, "driver refused the request")
    if resp == "err:nonfinite":
        return None if isinstance(impl, str) else (impl, resp, "outcome (model: zero denominator)")
    if isinstance(impl, str):
        return (impl, resp[:60], "outcome (implementation failed, model returns)")
    m = float(Fraction(resp.split("=", 1)[1]))
    if not abs(impl - m) <= unit["tol"]:
        return (impl, m, f"one-column generic formula: |impl-model|={abs(impl - m):.3g} > envelope {unit['tol']:.3g}")
    return None


def run_lme_generic1(env, chk, case, units):
    """`_generic_get_random_effects` with a one-column Z; for Z = ones it must equal the intercept-only branch."""
    np = env["np"]
    z, r, c = case["z"], case["r"], case["cinv"]
    za, ra = np.array(z, dtype=float), np.array(r, dtype=float)
    den = float((za * za).sum() + c)
    num = float((za * ra).sum())
    tol = (8 * EPS64 * len(z) * (float(np.abs(za * ra).sum()) + abs(num) * (float((za * za).sum()) + abs(c)) / abs(den)) / abs(den) + 1e-300) if den != 0 else None
    try:
        with core.quiet():
            b = env["LPA"]._generic_get_random_effects(ra, za.reshape(-1, 1), np.array([[c]], dtype=float))
        b = float(np.asarray(b).reshape(-1)[0])
        impl = b if math.isfinite(b) else "err:nonfinite"
    except Exception as e:  # noqa
        impl = err_class(env, e)
    regular = tol is not None and abs(den) > 1e-6 * (float((za * za).sum()) + abs(c))
    if regular:
        if isinstance(impl, str):
            chk.impl_failure(case, f"generic random-effects formula aborted on a regular input: {impl}")
        else:
            if not abs(impl - num / den) <= tol:
                chk.impl_failure(case, f"generic formula returns {impl!r}, (Z'Z+c)^-1 Z'r = {num / den!r}")
            if all(x == 1.0 for x in z):
                # the same individual through the intercept-only branch of the real code (fe = 0, identity normalisation)
                try:
                    with core.quiet():
                        model = env["model_factory"]("lme", with_random_slope_age=False)
                        model.load_parameters({"ages_mean": 0.0, "ages_std": 1.0, "fe_params": np.zeros(2),
                                               "cov_re_unscaled_inv": np.array([[c]], dtype=float)})
                        re_d, _ = env["LPA"]._get_individual_random_effects_and_residuals(
                            model, np.arange(len(r), dtype=float), ra.reshape(-1, 1).copy())
                    bi = float(re_d["random_intercept"])
                    if not abs(bi - impl) <= 2 * tol:
                        chk.impl_failure(case, f"intercept-only branch gives {bi!r}, generic formula with Z=1 gives {impl!r}")
                except Exception as e:  # noqa
                    chk.impl_failure(case, f"intercept-only branch aborted: {err_class(env, e)}: {e}")
    q = lambda x: fmt_rat(Fraction(x))  # noqa: E731
    line = f"lme1 cinv={q(c)} zr={fmt_list([f'{q(a)}:{q(b)}' for a, b in zip(z, r)], sep=';')}"
    if not regular and not isinstance(impl, str) and den != 0:
        impl_for_cmp, tol = impl, float("inf")
    else:
        impl_for_cmp = impl
    units.append(dict(line=line, case=case, impl=impl_for_cmp, tol=tol if tol is not None else 0.0, cmp=cmp_lme1,
                      key=("lme1", c, tuple(z), tuple(r)), nontrivial=len(z) >= 2,
                      tags={"kind": "lme-generic1", "ones": all(x == 1.0 for x in z), "n_obs": min(len(z), 8)}))


def gen_lme_generic1(rng, idx):
    n = rng.choice([1, 2, 3, 5, 8])
    ones = rng.random() < 0.6
    z = [1.0] * n if ones else [rng.randrange(-16, 17) / 8.0 for _ in range(n)]
    r = [rng.uniform(-3, 3) for _ in range(n)]
    c = rng.choice([0.01, 0.3, 1.0, 7.5, 40.0]) * rng.uniform(0.5, 2)
    if rng.random() < 0.05:
        c = -float(sum(x * x for x in z))        # zero denominator (dyadic: exact)
    return {"kind": "lme-generic1", "z": z, "r": r, "cinv": c}


class FitRecorder:
    """Recording call-through of statsmodels MixedLM.fit: keeps the results object leaspy's lme_fit obtained."""

    def __init__(self, env):
        self.mlm = env["mlm"]
        self.results = []

    def __enter__(self):
        self.orig = self.mlm.MixedLM.fit
        rec = self

        def fit(self_, *a, **k):
            r = rec.orig(self_, *a, **k)
            rec.results.append(r)
            return r

        self.mlm.MixedLM.fit = fit
        return self

    def __exit__(self, *exc):
        self.mlm.MixedLM.fit = self.orig
        return False


def independent_fit(env, rows, slope, force_indep, mean, std, fit_kwargs=None):
    """The documented model fitted by statsmodels directly from the raw table, by harness code that shares nothing
    with lme_fit: y ~ 1 + a, a = (age - ages_mean) / ages_std, groups = individuals, random intercept (+ random slope
    on a).  `mean`/`std` are the stored normalisation constants (checked separately against the population mean / std
    of the observed ages); arrays are float32 as the data layer stores them, so that a correct lme_fit hands
    statsmodels bit-identical inputs and the two optimisations follow the same path (the likelihood is often flat in
    the slope variance: fits from inputs differing in the 7th digit were observed to stop 5e-2 apart)."""
    np, mlm = env["np"], env["mlm"]
    import statsmodels.api as sm
    rows = sorted([r for r in rows if r[2] is not None], key=lambda r: (r[0], r[1]))
    t = np.array([r[1] for r in rows], dtype=np.float32)
    y = np.array([r[2] for r in rows], dtype=np.float32)
    g = np.array([r[0] for r in rows])
    a = (t - np.float32(mean)) / np.float32(std)
    X = sm.add_constant(a, prepend=True, has_constant="add")
    kws = dict(method=["lbfgs", "bfgs", "powell"])
    # the documented pass-through options of MixedLM.fit (estimation criterion, optimisers)
    kws.update({k: v for k, v in (fit_kwargs or {}).items() if k != "with_random_slope_age"})
    if slope and force_indep:
        kws["free"] = mlm.MixedLMParams.from_components(fe_params=np.ones(2), cov_re=np.eye(2))
        kws["method"] = [m for m in kws["method"] if m not in ("powell", "nm")] or ["bfgs"]
    with core.quiet():
        res = mlm.MixedLM(y, X, g, X if slope else None, missing="raise").fit(**kws)
    return dict(fe=np.asarray(res.fe_params, dtype=float), cov_re=np.asarray(res.cov_re, dtype=float),
                scale=float(res.scale), re={k: np.asarray(v, dtype=float) for k, v in res.random_effects.items()},
                converged=bool(res.converged))


def run_lme_fit(env, chk, case, units):
    np = env["np"]
    slope = case["slope"]
    force = bool(case.get("force_independent_random_effects", False))
    train, new = case["train"], case.get("new", [])
    key = ("lme-fit", slope, force, tuple(map(tuple, train)))
    fit_tags = {"kind": "lme-fit", "slope": slope}
    try:
        with core.quiet(), FitRecorder(env) as rec:
            data = make_data(env, train, drop=case.get("train_drop_full_nan", True))
            model = env["model_factory"]("lme", with_random_slope_age=slope)
            kws = dict(case.get("fit_kwargs") or {})
            if force:
                kws["force_independent_random_effects"] = True
                if "method" in kws:
                    kws["method"] = [m for m in kws["method"] if m not in ("powell", "nm")] or ["bfgs"]
            fit_entry = case.get("fit_entry", "kwargs")
            if fit_entry == "settings-object":
                model.fit(data, algorithm_settings=env["AlgorithmSettings"]("lme_fit", **kws))
            elif fit_entry == "dataframe" and case.get("train_drop_full_nan", True):
                pd_ = env["pd"]
                model.fit(pd_.DataFrame([[r[0], r[1], float("nan") if r[2] is None else r[2]] for r in train], columns=["ID", "TIME", "Y"]),
                          "lme_fit", **kws)
            else:
                model.fit(data, "lme_fit", **kws)
        res = rec.results[-1] if rec.results else None
    except Exception as e:  # noqa
        cls = err_class(env, e)
        chk.tag("lme_fit_outcome", cls)
        chk.case(key, nontrivial=False, tags=fit_tags)
        return False
    chk.tag("lme_fit_outcome", "ok")
    if case.get("routes"):
        chk.tag("lme_fit_variant", f"{case.get('axis')}/train_drop={case.get('train_drop_full_nan')}/{case.get('fit_entry')}/"
                                   f"{json.dumps(case.get('fit_kwargs'), sort_keys=True)}")
    P = model.parameters
    try:
        mean, std = float(P["ages_mean"]), float(P["ages_std"])
        fe = [float(x) for x in np.asarray(P["fe_params"]).reshape(-1)]
        cinv_arr = np.asarray(P["cov_re_unscaled_inv"], dtype=float)
        cinv = cinv22(np, cinv_arr)
        want_shape = (2, 2) if slope else (1, 1)
        if cinv_arr.shape != want_shape or len(fe) != 2:
            raise ValueError(f"shapes {cinv_arr.shape} / {len(fe)}")
    except Exception as e:  # noqa
        chk.impl_failure(case, f"fitted model does not store ages normalisation / fe_params / cov_re_unscaled_inv: {e}")
        chk.case(key, nontrivial=False, tags=fit_tags)
        return True
    # --- what lme_fit stored vs the documented quantities
    obs_t = np.array([r[1] for r in train if r[2] is not None], dtype=float)
    if not (abs(mean - obs_t.mean()) <= 4 * EPS32 * len(obs_t) ** 0.5 * abs(obs_t.mean())
            and abs(std - obs_t.std()) <= 1e-5 * obs_t.std()):
        chk.impl_failure(case, f"stored ages_mean/ages_std {mean!r}/{std!r} are not mean / population std of the observed ages "
                               f"{obs_t.mean()!r}/{obs_t.std()!r}")
    psi_cond = float("inf")
    if res is not None:
        try:
            cu = np.asarray(res.cov_re_unscaled, dtype=float)
            psi_cond = float(np.linalg.cond(cu))
            if psi_cond < 1e8 and not np.allclose(cinv_arr @ cu, np.eye(cu.shape[0]), atol=1e-6 * psi_cond):
                chk.impl_failure(case, "stored cov_re_unscaled_inv is not the inverse of the fit's cov_re_unscaled")
            if not np.allclose(np.asarray(res.fe_params, dtype=float), fe, rtol=1e-12, atol=1e-12):
                chk.impl_failure(case, "stored fe_params are not the fit's fixed effects")
        except Exception:  # noqa
            pass
    chk.tag("psi_cond_decade", int(math.log10(psi_cond)) if math.isfinite(psi_cond) and psi_cond > 0 else "inf")
    well = psi_cond < 1e8
    indep = None
    if case.get("indep") and well:
        try:
            indep = independent_fit(env, train, slope, force, mean, std, case.get("fit_kwargs"))
            if not indep["converged"] or not (res is not None and res.converged):
                chk.tag("indep_fit", "not-converged-skipped")
                indep = None
            else:
                chk.tag("indep_fit", "compared")
                sc = max(1.0, float(np.abs(indep["fe"]).max()))
                if not np.allclose(indep["fe"], fe, atol=1e-5 * sc):
                    chk.impl_failure(case, f"fixed effects {fe} differ from an independent statsmodels fit {indep['fe'].tolist()}")
                if abs(indep["scale"] ** 0.5 - float(P["noise_std"])) > 1e-5 * indep["scale"] ** 0.5:
                    chk.impl_failure(case, f"noise_std {float(P['noise_std'])} differs from an independent statsmodels fit {indep['scale'] ** 0.5}")
        except Exception as e:  # noqa
            chk.tag("indep_fit", f"error:{type(e).__name__}")
            indep = None
    # --- personalisation of training and unseen individuals: public API (float32 ages) …
    all_rows = train + new
    hist = by_individual(all_rows)
    train_ids = {r[0] for r in train}
    query = {i: case["query_ages"] for i in hist}
    try:
        with core.quiet():
            pdata = make_data(env, all_rows, drop=case.get("drop_full_nan", True))
        ipd, estd = personalize_and_estimate(env, model, pdata, query, chk=chk, case=case, entry=case.get("routes"), slope=slope)
        api_err = None
    except Exception as e:  # noqa
        api_err = err_class(env, e)
        ipd, estd = {}, {}
        if all(any(y is not None for _, y in h) for h in hist.values()):
            chk.impl_failure(case, f"personalize/estimate of a fitted model aborted: {api_err}: {e}")
    params = (mean, std, fe, cinv)
    for ind, h in hist.items():
        fcase = dict(case, individual=ind)
        if api_err is not None:
            continue
        if ind not in ipd:
            if any(y is not None for _, y in h):
                chk.impl_failure(fcase, "individual with observations missing from the individual parameters")
            continue
        sm_re = None
        what = "statsmodels random_effects of the fit"
        if ind in train_ids and well and res is not None:
            try:
                sm_re = dict(values=[float(x) for x in np.asarray(res.random_effects[ind], dtype=float)], rtol=1e-7)
            except Exception:  # noqa
                sm_re = None
        lme_individual(env, chk, units, fcase, slope, params, h, query[ind], ipd[ind], estd.get(ind), EPS32,
                       {"kind": "lme-fit", "path": "api", "training": ind in train_ids}, sm_re, what)
        if indep is not None and ind in train_ids and ind in indep["re"] and len(ipd[ind]) == (2 if slope else 1):
            bi = np.array([ipd[ind].get(k, float("nan")) for k in (["random_intercept", "random_slope_age"] if slope else ["random_intercept"])])
            d = float(np.abs(bi - indep["re"][ind]).max())
            if not d <= 1e-5 * (1 + float(np.abs(bi).max())):
                chk.impl_failure(fcase, f"random effects {bi.tolist()} differ from an independent statsmodels fit's "
                                        f"random_effects {indep['re'][ind].tolist()} by {d:.3g}")
        # … and the float64 class-method (ages not rounded to float32): tight envelope
        obs = [(t, y) for t, y in h if y is not None]
        if obs:
            try:
                with core.quiet():
                    re_d, _ = env["LPA"]._get_individual_random_effects_and_residuals(
                        model, np.array([t for t, _ in h], dtype=float),
                        np.array([[float("nan") if y is None else y] for _, y in h], dtype=float))
                impl_re = {k: float(v) for k, v in re_d.items()}
            except Exception as e:  # noqa
                impl_re = err_class(env, e)
            lme_individual(env, chk, units, fcase, slope, params, h, [], impl_re, None, EPS64,
                           {"kind": "lme-fit", "path": "f64", "training": ind in train_ids}, sm_re=None)
    chk.case(key, nontrivial=True, tags=fit_tags)
    return True


# ---------------------------------------------------------------------------- generators
def gen_value(rng):
    return rng.randrange(-32, 97) / 16.0


AXES = {"age": 50.0, "since-baseline": -20.0, "months": 600.0}   # first possible visit time; the span is 50 units


def gen_history(rng, nf, n, p_miss, tied=False, axis="age", scale_log2=0):
    """n visits with distinct (or deliberately tied) dyadic ages, in random order.  `axis`: ages around 50-100 (default), a time
    axis in years since baseline (negative times and 0 included) or in months; `scale_log2`: values multiplied by a power of
    two (the unit of a feature is arbitrary; everything stays exactly representable in float32)."""
    t0 = AXES[axis]
    if tied and n >= 2:
        pool = [t0 + rng.randrange(0, 12) / 8.0 for _ in range(max(1, n // 2))]
        ages = [rng.choice(pool) for _ in range(n)]
    else:
        ages = [t0 + k / 8.0 for k in rng.sample(range(0, 400), n)]
    sc = 2.0 ** scale_log2
    rows = [(a, [None if rng.random() < p_miss else sc * gen_value(rng) for _ in range(nf)]) for a in ages]
    return rows


QUERY_FORMS = ["list", "list", "tuple", "np64", "np32", "int-list", "scalar", "np-scalar", "empty"]


def gen_const_api(rng, idx, wide=False):
    nf = rng.choice([1, 1, 2, 3, 4])
    n_ind = rng.randrange(1, 4)
    drop = rng.random() < 0.6
    axis, scale_log2 = "age", 0
    if wide:
        # more than 10 features, cohorts of very different visit counts (padding), other time axes and units
        nf = rng.choice([1, 2, 3, 5, 12])
        n_ind = rng.randrange(1, 5)
        axis = rng.choice(list(AXES))
        scale_log2 = rng.choice([-20, -10, 0, 0, 10, 20])
    rows, query = [], {}
    for i in range(n_ind):
        n = rng.choice([1, 1, 2, 2, 3, 4, 5, 6, 8] + ([17, 33] if wide else []))
        h = gen_history(rng, nf, n, rng.choice([0.0, 0.2, 0.5, 0.8]), axis=axis, scale_log2=scale_log2)
        mode = rng.random()
        if mode < 0.25 and nf >= 2:          # one feature entirely missing
            j = rng.randrange(nf)
            h = [(a, [None if k == j else v for k, v in enumerate(vals)]) for a, vals in h]
        elif mode < 0.4:                      # most recent visit(s) entirely missing
            amax = max(a for a, _ in h)
            h = [(a, [None] * nf if a == amax else vals) for a, vals in h]
        elif mode < 0.45:                     # individual never observed
            h = [(a, [None] * nf) for a, _ in h]
        ident = f"s{idx}_{i}"
        rows += [[ident, a, vals] for a, vals in h]
        query[ident] = [rng.randrange(0, 1600) / 8.0 for _ in range(rng.randrange(1, 4))]
    if not any(v is not None for r in rows for v in r[2]):
        rows[0][2][0] = 1.5
    rng.shuffle(rows)
    case = {"kind": "const-api", "nf": nf, "drop_full_nan": drop, "rows": rows, "query": query, "reuse": rng.random() < 0.5}
    if wide:
        case.update(axis=axis, scale_log2=scale_log2)
        case["entry"] = {"data": rng.choice(["Data", "Dataset", "DataFrame"]), "settings": rng.choice(["kwarg", "object", "default", "documented-spelling"]),
                         "ip_route": rng.choice(["direct", "json"]), "model_route": rng.choice(["direct", "direct", "save-load"]),
                         "query": {i: rng.choice(QUERY_FORMS) for i in query}}
    return case


def gen_const_algo(rng, idx, wide=False):
    nf = rng.choice([1, 2, 2, 3])
    mode = rng.random()
    axis, sc = "age", 0
    if wide:
        nf = rng.choice([1, 2, 3, 11])
        axis, sc = rng.choice(list(AXES)), rng.choice([-20, 0, 0, 20])
    if mode < 0.04:
        h = []
    else:
        n = rng.choice([1, 2, 2, 3, 3, 4, 5, 6, 9] + ([20, 40] if wide else []))
        h = gen_history(rng, nf, n, rng.choice([0.0, 0.3, 0.6, 0.9]), tied=mode > 0.75, axis=axis, scale_log2=sc)
        if rng.random() < 0.2 and nf >= 2:
            j = rng.randrange(nf)
            h = [(a, [None if k == j else v for k, v in enumerate(vals)]) for a, vals in h]
    case = {"kind": "const-algo", "nf": nf, "times": [a for a, _ in h], "values": [v for _, v in h],
            "times_as": rng.choice(["array", "list"])}
    if wide:
        case.update(axis=axis, values_as=rng.choice(["f32", "f64"]), times_as=rng.choice(["array", "list", "f32", "torch"]))
    return case


def gen_spd(rng):
    a = rng.choice([0.01, 0.05, 0.25, 1.0, 4.0, 30.0]) * rng.uniform(0.5, 2)
    d = rng.choice([0.01, 0.05, 0.25, 1.0, 4.0, 30.0]) * rng.uniform(0.5, 2)
    rho = rng.uniform(-0.9, 0.9)
    b = rho * math.sqrt(a * d)
    return [[a, b], [b, d]]


def gen_lme_synth(rng, idx, wide=False):
    slope = rng.random() < 0.6
    t0 = AXES[rng.choice(list(AXES))] if wide else 50.0       # time axis: ages, years since baseline (negative, 0), months
    mean = t0 + 10 + rng.randrange(0, 160) / 8.0
    std = rng.choice([0.5, 1.0, 2.0, 4.0, 8.0])
    fe = [rng.uniform(-2, 3), rng.uniform(-1, 1)]
    C = gen_spd(rng)
    special = rng.random()
    if special < 0.03:
        std = 0.0
    cinv = C if slope else [[C[0][0]]]
    rows, query = [], {}
    for i in range(rng.randrange(1, 5)):
        n = rng.choice([1, 1, 2, 3, 4, 5, 7] + ([12, 20] if wide else []))
        ages = [t0 + k / 8.0 for k in rng.sample(range(0, 320), n)]
        ident = f"p{idx}_{i}"
        b0, b1 = rng.gauss(0, 1), rng.gauss(0, 0.3)
        h = []
        for a in ages:
            y = fe[0] + b0 + (fe[1] + b1) * (a - mean) / (std or 1.0) + rng.gauss(0, 0.2)
            h.append([ident, a, None if rng.random() < 0.15 else round(y * 256) / 256.0])
        if all(r[2] is None for r in h):
            h[0][2] = 1.25
        rows += h
        query[ident] = [t0 - 50 + rng.randrange(320, 800) / 8.0 for _ in range(rng.choice([0, 1, 1, 2, 3, 3]) if i else 2)]
        if wide and rng.random() < 0.3:
            query[ident] = [float(round(t)) for t in query[ident]]       # whole-number ages (may be handed over as integers)
    if (not slope) and 0.03 <= special < 0.06:      # zero denominator n + cinv = 0 for the first individual
        n0 = sum(1 for r in rows if r[0] == rows[0][0] and r[2] is not None)
        cinv = [[-float(n0)]]
    rng.shuffle(rows)
    case = {"kind": "lme-synth", "slope": slope, "drop_full_nan": False,
            "params": {"ages_mean": mean, "ages_std": std, "fe_params": fe, "cov_re_unscaled_inv": cinv},
            "rows": rows, "query": query}
    if wide:
        case.update(routes=True, model_as=rng.choice(["factory", "settings"]))
    return case


def f32(x):
    import struct
    return struct.unpack("<f", struct.pack("<f", x))[0]


# (`with_random_slope_age` is a documented, legacy key of the fit's settings file; the random-effects structure is the model's:
#  whatever the key says, fit, personalisation and trajectories must agree on one structure)
FIT_KWARGS = [{}, {}, {"reml": False}, {"method": ["bfgs"]}, {"method": ["lbfgs", "bfgs"], "reml": False},
              {"with_random_slope_age": True}, {"with_random_slope_age": False}]


def gen_lme_fit(rng, idx, indep, wide=False):
    slope = rng.random() < 0.5
    n_sub = rng.randrange(18, 36)
    sd0, sd1 = rng.uniform(0.5, 1.5), rng.uniform(0.2, 0.6)
    if rng.random() < 0.15:
        sd1 = 0.0            # no slope heterogeneity: the fitted slope variance sits at / near the boundary
    rho = rng.uniform(-0.5, 0.5) if slope else 0.0
    noise = rng.uniform(0.1, 0.3)
    beta0, beta1 = rng.uniform(-1, 3), rng.uniform(-0.8, 0.8)
    centre, spread = rng.uniform(60, 80), rng.uniform(4, 8)
    axis = "age"
    if wide:
        # the time axis is arbitrary too: years since baseline (first visits at / before 0) or months
        axis = rng.choice(list(AXES))
        if axis == "since-baseline":
            centre, spread = rng.uniform(1, 4), rng.uniform(1, 2.5)
        elif axis == "months":
            centre, spread = rng.uniform(700, 950), rng.uniform(50, 100)
    step = spread / 6.0
    # the unit of the feature is arbitrary (a diffusivity in mm2/s is ~1e-3, a volume in mm3 ~1e3): the estimators are equivariant
    unit = rng.choice([1.0, 1.0, 1.0, 1e-2, 1e-3, 1e-4, 1e3])

    def subject(ident, n):
        z0, z1 = rng.gauss(0, 1), rng.gauss(0, 1)
        b0 = sd0 * z0
        b1 = sd1 * (rho * z0 + math.sqrt(1 - rho * rho) * z1) if slope else 0.0
        t0 = rng.gauss(centre, spread)
        ages = sorted({round((t0 + k * step * rng.uniform(0.5, 2.0)) * 64) / 64.0 for k in range(n)})
        out = []
        for a in ages:
            y = beta0 + b0 + (beta1 + b1) * (a - centre) / spread + rng.gauss(0, noise)
            out.append([ident, a, f32(unit * y)])
        return out

    train = []
    for i in range(n_sub):
        train += subject(f"t{idx}_{i:02d}", rng.choice([1, 2, 3, 4, 5, 6, 7])) if i else subject(f"t{idx}_00", 5)
    if wide:
        # missing values inside the training cohort (kept as unobserved visits when the table is read with drop_full_nan=False)
        seen = set()
        for r in train:
            if r[0] in seen and rng.random() < 0.12:
                r[2] = None
            seen.add(r[0])
    new = []
    for i in range(rng.randrange(2, 5)):
        rows = subject(f"n{idx}_{i}", rng.choice([1, 2, 4, 6]))
        for r in rows[1:]:
            if rng.random() < 0.2:
                r[2] = None
        new += rows
    rng.shuffle(train)
    drop = rng.random() < 0.5
    case = {"kind": "lme-fit", "slope": slope, "unit": unit, "train": train, "new": new, "drop_full_nan": drop,
            "force_independent_random_effects": slope and rng.random() < 0.25, "indep": indep,
            "query_ages": [rng.randrange(400, 720) / 8.0 for _ in range(3)]}
    if wide:
        q = [round((centre + rng.uniform(-2, 5) * spread) * 8) / 8.0 for _ in range(3)]
        if rng.random() < 0.3:
            q = [float(round(t)) for t in q]
        case.update(axis=axis, query_ages=q, train_drop_full_nan=rng.random() < 0.5, fit_kwargs=rng.choice(FIT_KWARGS),
                    fit_entry=rng.choice(["kwargs", "settings-object", "dataframe"]), routes=True)
    return case


RUNNERS = {"lme-generic1": run_lme_generic1, "const-api": run_const_api, "const-algo": run_const_algo, "lme-synth": run_lme_synth, "lme-fit": run_lme_fit}


def process(chk, env, cases):
    units = []
    n_fit = n_fit_ok = 0
    for case in cases:
        kind = case.get("kind")
        if kind not in RUNNERS:
            chk.note(f"unknown case kind {kind!r} skipped")
            continue
        r = RUNNERS[kind](env, chk, case, units)
        if kind == "lme-fit":
            n_fit += 1
            n_fit_ok += bool(r)
    if n_fit >= 4 and n_fit_ok * 2 < n_fit:
        chk.impl_failure({"kind": "lme-fit-summary", "n": n_fit, "ok": n_fit_ok},
                         f"lme_fit aborted on {n_fit - n_fit_ok} of {n_fit} regular cohorts")
    # one batch through the Lean driver
    out = chk.model([u["line"] for u in units])
    samples_by_kind = {}
    for u, resp in zip(units, out):
        u.setdefault("tags", {})
        try:
            d = u["cmp"](env, u, resp)
        except Exception as e:  # noqa
            d = (str(u["impl"])[:200], resp[:200], f"unparsable model response ({type(e).__name__}: {e})")
        if d is not None:
            chk.disagree(u["case"], d[0], d[1], d[2])
        k = u["tags"].get("kind")
        sample = None
        if u["nontrivial"] and samples_by_kind.get(k, 0) < 1 and k in ("const-api", "const-algo", "lme-synth"):
            samples_by_kind[k] = 1
            sample = {"request": u["line"][:600], "model": resp[:300]}
        chk.case(u["key"], nontrivial=u["nontrivial"], sample=sample, tags=u["tags"])


def run(chk: core.Check):
    env = _imports()
    rng = chk.rng
    chk.rule = ("constant model: random histories (1-9 visits, 1-4 features, dyadic ages/values, rows shuffled, missing "
                "values, features or most-recent visits entirely missing) through the public API and through "
                "_get_individual_last_values (unsorted, tied ages, empty), all four prediction types, compared exactly with "
                "the Lean model; LME: loaded parameters and real lme_fit fits (with/without random slope), every training "
                "and unseen individual compared with the Lean formula fed the stored variance components, with a numpy "
                "solve, and with statsmodels' random_effects. Each family once more, widened: time axes in years since baseline "
                "(negative times, 0) and months, values scaled by 2^-20..2^20, 12 features, up to 40 visits, cohorts of unequal visit "
                "counts; data as Data / Dataset / DataFrame, settings as keyword / AlgorithmSettings / default, requests as list / "
                "tuple / numpy / integers / scalar / empty / data frame / MultiIndex, individual parameters and models saved and "
                "loaded back, LME model given as a settings dictionary, missing values inside the training cohort (kept with "
                "drop_full_nan=False), pass-through options of the fit (reml, method). Non-trivial: >=2 visits seen and (input not age-sorted or a "
                "missing value) for the constant model; >=2 observed visits for LME; distinct by full history + settings.")
    thorough = chk.tier == "thorough"
    cases = list(core.load_corpus(PROP))
    n_api, n_algo, n_synth, n_gen, n_fit = (1500, 5000, 1500, 1500, 240) if thorough else (80, 400, 120, 120, 12)
    cases += [gen_const_api(rng, i) for i in range(n_api)]
    cases += [gen_const_algo(rng, i) for i in range(n_algo)]
    cases += [gen_lme_synth(rng, i) for i in range(n_synth)]
    cases += [gen_lme_generic1(rng, i) for i in range(n_gen)]
    cases += [gen_lme_fit(rng, i, indep=(thorough or i % 2 == 0)) for i in range(n_fit)]
    # the same families once more, widened: other time axes and units, > 10 features, dozens of visits, every accepted form of
    # the data / settings / request, individual parameters and models that went through a save + load, missing values inside the
    # training cohort, pass-through options of the fit
    w_api, w_algo, w_synth, w_fit = (1200, 2500, 1000, 160) if thorough else (70, 250, 80, 10)
    cases += [gen_const_api(rng, 10000 + i, wide=True) for i in range(w_api)]
    cases += [gen_const_algo(rng, 10000 + i, wide=True) for i in range(w_algo)]
    cases += [gen_lme_synth(rng, 10000 + i, wide=True) for i in range(w_synth)]
    cases += [gen_lme_fit(rng, 10000 + i, indep=(thorough or i % 2 == 0), wide=True) for i in range(w_fit)]
    process(chk, env, cases)
    # the witnesses of the listed findings are corpus cases 06 (F90), 07 (F91, F92) and 08 (F94): say so when they no longer reproduce
    hit = {f["finding"] for f in chk.impl_failures if f["finding"]}
    for fid in ("F90", "F91", "F92", "F94"):
        if fid not in hit:
            chk.note(f"finding {fid}: witness does not reproduce (repaired)")
    chk.exhaustive = False


def replay(chk: core.Check, payload):
    env = _imports()
    case = payload.get("case") or (payload.get("disagreements") or [{}])[0].get("case")
    if not case or "kind" not in case:
        chk.note("replay file has no case")
        return
    case = {k: v for k, v in case.items() if k != "individual"}
    process(chk, env, [case])
