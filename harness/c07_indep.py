"""C07 — individuals are conditionally independent and order-equivariant.

The Lean side (`Props/C07.lean`) is list algebra over a model where the batch is `List.map`; the
substance is here, on the real code (metamorphic runs on fitted models and tiny cohorts):

  (i)   the observed values of every *other* individual are replaced (values of [0, 1], values far out of range, values going
        missing, one of them left without any observed value; in half of the state-level cases their latent values and proposal
        std as well, pushed several prior standard deviations away) -> the kept individuals' nll terms, sampler proposals / decisions / new rows (same recorded draws by
        position) and personalised parameters (scipy_minimize, mode_posterior, mean_posterior; same seed) are bit-identical;
  (ii)  an individual evaluated alone instead of in the batch: terms within a rounding envelope, proposal
        bit-identical (own std, own draws), decision identical unless |u - alpha| is inside the envelope; scipy_minimize (one state
        and one single-individual dataset per subject): the subject alone, under another identifier, with the draws of its position,
        gets bit-identical parameters (a kept individual on the original data, one of the others on its replaced data);
  (iii) re-ordering the individuals (draws re-ordered with them) permutes every per-individual output
        bit for bit; totals agree within summation rounding and are the sums of the per-individual terms;
  (iv)  scipy_minimize with n_jobs = 1 and n_jobs = 2, 3, 5 (fresh loky workers, other PYTHONHASHSEED; 5 = more workers than
        individuals) returns identical IndividualParameters.
  Cohorts: 2-5 individuals drawn in random listing order from the test data; in two personalisation cases out of three the
  identifiers are replaced by labels whose lexicographic, numeric and listing orders differ ('2', '10', '100', 'A', 'a', 'B2');
  latent values in the usual range or several prior standard deviations wide; every model kind, the mixture model included;
  `model.personalize` is given a Data, a Dataset, the pandas table or an AlgorithmSettings object, on a freshly loaded model or on
  one model object reused by every call of the case.
  (v)   recorded programs (`trace_c07.py`, `Model/Trace.lean`): the torch operations the real code executes for every
        individual-level variable of the State and for steps of `IndividualGibbsSampler.sample` (an ordinary one and the one in
        which the per-individual std adaptation fires; std and acceptance history are inputs and outputs) are recorded on every
        run and sent to Lean: `Trace.rowLocal` must accept the program (then `rowLocal_sound`, `perturb_others`,
        `perm_equivariant` hold for EVERY input of that shape), the Lean evaluation of the lowered program must reproduce
        the real tensors, the programs of different cohorts must coincide up to shapes, and each operation instance the
        table calls row-wise is replayed on random inputs.  A rejected program triggers a targeted failing-input search.
"""
from __future__ import annotations

import json
import math
import os
import random

from . import core
from .core import fmt_float, parse_float, fmt_list, fmt_list2, split_ne
from . import c03_sampler as s3
from . import trace_c07 as tr

PROP = "C07"
LEAN = dict(
    props="LeaspyVerif.Props.C07",
    driver="drivers/C07.lean",
    harness="c07_indep.py",
    extra_modules=["LeaspyVerif.Model.Indep", "LeaspyVerif.Model.Sampler", "LeaspyVerif.Model.Trace", "LeaspyVerif.Lemmas.Trace"],
    theorems=["term_local", "term_local_set", "term_alone", "terms_permute", "map_perm", "sum_perm",
              "permute_perm", "total_permute", "total_eq_sum_terms", "addTerms_get", "indStep_local",
              "rowLocal_rel", "rowLocal_sound", "perturb_others", "batch_size_irrelevant", "perm_equivariant",
              "perm_equivariant_rows", "lower_length", "exMasked_rowLocal", "exMasked_value", "axis0_sum_counterexample",
              "axis0_sum_alone_counterexample", "misaligned_broadcast_counterexample",
              "exAdapt_rowLocal", "exAdapt_value", "cohort_median_clamp_counterexample"],
    trusted_extra=[
        "Part 1 of Props/C07.lean is list algebra over a model in which the batch is List.map of a per-individual function "
        "(locality by construction). Part 2 is about the program recorded from the real code on this run: the theorems hold for "
        "every input of the recorded shape, every batch size and every interpretation of the row operations",
        "recorded programs — trusted: (a) the tracer's dataflow reconstruction (tensor identity by id() with every tensor kept "
        "alive; inputs classified from the State's DAG; population-only sub-computations collapsed into inputs); (b) the table "
        "Trace.lowerOp + the row functions Trace.fnApply being faithful to torch. Both are validated on every run, not proved: the "
        "lowered program is evaluated in Lean on the recorded inputs and must reproduce every individual-level tensor of the real "
        "State (and the sampler's new rows / decisions); each row-wise operation instance is replayed in torch on random inputs",
        "recorded programs — scope: only executed paths are seen (a branch taken only for other shapes / flags is not in the program); "
        "python numbers derived from shapes enter as constants and are detected only by comparing the programs of cohorts of "
        "3, 5 and 48 individuals; whitelisted assertion sites (WeightedTensor.__post_init__, _apply_operation's torch.equal, "
        "torch.distributions argument validation) may read the whole batch but only raise",
        "joblib process pools and the float rounding of vectorised reductions are exercised by the metamorphic runs (i)-(iv), not modelled",
        "float32 rounding: 'alone vs batch' and totals are compared through explicit envelopes, everything else bit for bit",
    ],
    assumptions=[
        "perturbations change observed values (and event time / indicator) of other individuals, never their visit ages "
        "(padding and masks are C06's subject); values that go missing leave at least one observed feature per visit",
        "alone-vs-cohort for scipy_minimize is bit for bit (one state and one single-individual dataset per subject, as documented in the "
        "anchored code); for the batched MCMC personalisations it is not compared (rounding of vectorised reductions makes chains diverge)",
        "non-finite per-individual terms (legitimate float overflow for latent values several standard deviations away) must match "
        "position by position; totals are then not compared with the sum of the terms",
        "alone-vs-batch envelope for a per-individual term: 4*(n_obs+8)*2^-23*(|term| + n_obs); totals: (n+4)*2^-23*sum|terms|; decisions alone vs "
        "in batch / re-ordered: the envelope of the exponent is 8*(n_obs+8)*2^-23*(|A| + |dA| + n_obs + |dR|) (the proposed attachment is rounded "
        "relative to |A + dA|)",
        "position-indexed draws: in re-ordered runs the recorded draws are re-ordered with the individuals",
        "re-ordered batch: per-individual terms within the alone-vs-batch envelope (vectorised reductions make the last bits depend on "
        "the position in the batch), proposals bit for bit, decisions unless |u - alpha| is inside that envelope, MCMC-personalised "
        "parameters within 32 float32 ulps; scipy_minimize (one state per individual) bit for bit",
        "recorded programs: Lean evaluates on doubles, the code on float32/float64: outputs are compared within 2e-4*(1+|x|) (the "
        "acceptance ratio alpha = exp(-delta) in the log domain: tol = 2e-4*(1+|log alpha|) + 4e-4*(1+max|nll_attach_ind|+max|nll_regul_ind|) + 1e-3); "
        "rows of the sampler step whose uniform draw is within alpha*expm1(tol) of a finite alpha are not compared; Bernoulli models: "
        "each observed cell whose float32 probability is within 1e-4 of 0/1 widens the envelope of nll_attach* by 0.7 (log(1-p) "
        "amplifies the rounding of p)",
        "recorded programs: `predictions_<event>` of the joint model (documented single-individual API: normalises by the survival "
        "at min over the whole tensor of times) is expected to be rejected and is used as a positive control",
    ],
)

EPS32 = 2.0 ** -23
F07A = "F07a"


# ----------------------------------------------------------------------------------------------
# further fitted models whose individual-level computations are recorded in the thorough tier (name -> data kind)
TRACE_EXTRA = {"joint_no_sources": "joint", "joint_scalar": "joint",
               "shared_speed_logistic_binary": "binary", "shared_speed_logistic_scalar_noise": "tiny",
               "logistic_diag_noise_fast_gibbs": "tiny", "logistic_diag_noise_mh": "tiny"}


def kind_of(name):
    return s3.MODELS[name] if name in s3.MODELS else TRACE_EXTRA[name]


def base_frame(env, name):
    pd = env.pd
    root = core.REPO / s3.D_ROOT / "data_mock"
    kind = kind_of(name)
    if kind.startswith("joint"):
        df = pd.read_csv(root / "data_tiny_joint.csv", dtype={"ID": str}, sep=";")
        if kind.endswith("uni"):
            df = df.iloc[:, :5]
    elif kind == "binary":
        df = pd.read_csv(root / "binary_data.csv", dtype={"ID": str})
    else:
        df = pd.read_csv(root / "data_tiny.csv", dtype={"ID": str})
        if kind.endswith("uni"):
            df = df.iloc[:, :3]
    return df


def load_model(env, name):
    sub = name if "/" in name else f"from_fit/{name}"
    return env.BaseModel.load(str(core.REPO / s3.D_ROOT / "model_parameters" / f"{sub}.json"))


def to_data(env, name, df, keep_empty=False):
    """`keep_empty`: visits without any observed value are kept (reader option drop_full_nan=False)."""
    kw = {"drop_full_nan": False} if keep_empty else {}
    if kind_of(name).startswith("joint"):
        # as scipy_minimize does for its single-individual datasets: the number of event types comes from the model
        return env.Data.from_dataframe(df, data_type="joint", factory_kws={"nb_events": 1}, **kw)
    return env.Data.from_dataframe(df, **kw)


def cohort_frame(env, df, ids):
    return env.pd.concat([df[df["ID"] == i] for i in ids], ignore_index=True)


def feature_cols(df):
    return [c for c in df.columns if c not in ("ID", "TIME", "EVENT_TIME", "EVENT_BOOL")]


def perturb_others(env, name, df, keep, seed, style="plain"):
    """Replace the observed values of every individual not in `keep` (visit ages untouched).  `style`: `plain` values of [0, 1]
    (0/1 for binary outcomes); `extreme`: values far outside the usual range (x1000, negative; binary outcomes stay 0/1);
    `holes`: as `plain`, and values of the others go missing (multivariate kinds: at most one feature per visit, so that no visit
    disappears and the padding stays what it was)."""
    rng = random.Random(f"perturb:{seed}")
    df = df.copy()
    binary = kind_of(name) == "binary"
    cols = feature_cols(df)
    for c in cols:
        vals = []
        for i, v in zip(df["ID"], df[c]):
            if i in keep:
                vals.append(v)
            elif binary:
                vals.append(float(rng.randrange(2)))
            elif style == "extreme":
                vals.append(rng.choice([-1.0, 1.0]) * rng.choice([1.0, 30.0, 1000.0]) * round(rng.random(), 4))
            else:
                vals.append(round(rng.random(), 4))
        df[c] = vals
    if style == "holes" and len(cols) >= 2:
        r2 = random.Random(f"perturb-holes:{seed}")
        for c in cols:
            df[c] = df[c].astype(float)
        for k, i in enumerate(df["ID"]):
            if i not in keep and r2.random() < 0.4:
                df.loc[df.index[k], r2.choice(cols)] = float("nan")
    if "EVENT_TIME" in df.columns:
        shift = {i: (rng.uniform(0.1, 3.0), rng.randrange(2)) for i in dict.fromkeys(df["ID"])}
        df["EVENT_TIME"] = [t if i in keep else t + shift[i][0] for i, t in zip(df["ID"], df["EVENT_TIME"])]
        df["EVENT_BOOL"] = [b if i in keep else shift[i][1] for i, b in zip(df["ID"], df["EVENT_BOOL"])]
    return df


LAT_RANGES = {"usual": {"tau": (-3.0, 4.0), "xi": (-0.6, 0.6), "other": (-1.2, 1.2)},
              # several prior standard deviations (fast / slow progressors, onset decades away from the first visit)
              "wide": {"tau": (-15.0, 20.0), "xi": (-2.5, 2.5), "other": (-3.0, 3.0)},
              "extreme": {"tau": (-40.0, 40.0), "xi": (-4.0, 4.0), "other": (-6.0, 6.0)}}


def latents_for(env, model, df, ids, seed, ranges="usual", replaced=None):
    """Deterministic per-individual latent values (they follow the individual, not its position).  `replaced` = (ids, seed2,
    ranges2): these individuals get other values (drawn from `ranges2` with `seed2`)."""
    dag = model.state.dag
    ind_vars = list(dag.sorted_variables_by_type[env.IndividualLatentVariable])
    out = {}
    for i in ids:
        sd, rg = seed, LAT_RANGES[ranges]
        if replaced is not None and i in replaced[0]:
            sd, rg = replaced[1], LAT_RANGES[replaced[2]]
        r = random.Random(f"lat:{sd}:{i}")
        t0 = float(df[df["ID"] == i]["TIME"].min())
        d = {}
        for v in sorted(ind_vars):
            shape = tuple(dag[v].get_prior_shape(dag))
            k = 1
            for s in shape:
                k *= s
            if v == "tau":
                d[v] = [t0 + r.uniform(*rg["tau"]) for _ in range(k)]
            elif v == "xi":
                d[v] = [r.uniform(*rg["xi"]) for _ in range(k)]
            else:
                d[v] = [r.uniform(*rg["other"]) for _ in range(k)]
        out[i] = d
    return out, sorted(ind_vars)


def stack(env, lat, ids, v):
    return env.torch.tensor([lat[i][v] for i in ids], dtype=env.torch.float32)


def tv(env, x):
    return (x.weighted_value if hasattr(x, "weighted_value") else x).detach().clone()


def eval_terms(env, name, df, ids, lat, ind_vars):
    """Per-individual terms and totals of the real model for the cohort `ids` (in that order)."""
    model = load_model(env, name)
    ds = env.Dataset(to_data(env, name, cohort_frame(env, df, ids)))
    assert list(ds.indices) == list(ids)
    st = model.state.clone(disable_auto_fork=True)
    model.put_data_variables(st, ds)
    for v in ind_vars:
        st[v] = stack(env, lat, ids, v)
    out = {"A_ind": tv(env, st["nll_attach_ind"]), "A": tv(env, st["nll_attach"]),
           "Rsum_ind": tv(env, st["nll_regul_ind_sum_ind"]), "Rsum": tv(env, st["nll_regul_ind_sum"])}
    for v in ind_vars:
        out[f"R_{v}_ind"] = tv(env, st[f"nll_regul_{v}_ind"])
        out[f"R_{v}"] = tv(env, st[f"nll_regul_{v}"])
    out["n_obs"] = [int(df[df["ID"] == i][feature_cols(df)].notna().sum().sum()) for i in ids]
    return out


def row_bits(env, t, j):
    return [fmt_float(x) for x in s3.fl(t[j])]


# ----------------------------------------------------------------------------------------------
class Tape:
    """Call-through recording / position-wise replay of torch.randn / torch.normal / torch.rand."""

    def __init__(self, env, tape=None, transform=None, on_uniform=None):
        self.env = env
        self.replay = tape
        self.transform = transform
        self.rec = []
        self.mismatch = []
        self.on_uniform = on_uniform

    def __enter__(self):
        torch = self.env.torch
        self._orig = (torch.randn, torch.rand, torch.normal)
        o = self._orig

        def mk(f, kind):
            def w(*a, **k):
                out = f(*a, **k)
                idx = len(self.rec)
                if self.replay is not None:
                    if idx < len(self.replay):
                        try:
                            new = self.transform(idx, self.replay)
                        except Exception as e:  # noqa
                            new = None
                            self.mismatch.append(f"draw {idx}: {type(e).__name__}")
                        if new is not None and new.shape == out.shape and new.dtype == out.dtype:
                            out = new.clone()
                        elif new is not None:
                            self.mismatch.append(f"draw {idx}: shape {tuple(out.shape)} but recorded {tuple(new.shape)}")
                    else:
                        self.mismatch.append(f"draw {idx}: beyond the {len(self.replay)} recorded draws")
                self.rec.append(out.detach().clone())
                if kind == "u" and self.on_uniform is not None:
                    self.on_uniform(out)
                return out
            return w

        torch.randn, torch.rand, torch.normal = mk(o[0], "n"), mk(o[1], "u"), mk(o[2], "n")
        return self

    def __exit__(self, *exc):
        torch = self.env.torch
        torch.randn, torch.rand, torch.normal = self._orig
        return False


def sampler_sweep(env, name, df, ids, lat, ind_vars, std_by_id, tinv, tape=None, transform=None):
    """One step of every individual sampler (variables in sorted order) on the cohort, through the real
    mean_posterior initialisation.  Returns per variable: proposed rows, accepted flags, final rows, draws, ΔA, ΔR."""
    torch = env.torch
    model = load_model(env, name)
    ds = env.Dataset(to_data(env, name, cohort_frame(env, df, ids)))
    # (the mixture model is not supported by the sampling-based personalisation algorithms: its samplers come from the fit algorithm)
    algo = env.algorithm_factory(env.AlgorithmSettings("mcmc_saem" if "/" in name else "mean_posterior", n_iter=10, seed=0, progress_bar=False))
    state = algo._initialize_algo(model, ds)
    with state.auto_fork(None):
        for v in ind_vars:
            state[v] = stack(env, lat, ids, v)
    res = {}
    all_rec, mism = [], []
    for v in ind_vars:
        smp = algo.samplers[v]
        smp.std = torch.tensor([std_by_id[i][v] for i in ids], dtype=smp.std.dtype)
        cur = state[v].detach().clone()
        snap = {}
        en = s3.Energies(env, state, v)

        def on_u(out, snap=snap, v=v, state=state):
            snap["prop"] = state[v].detach().clone()

        sub_tape = None if tape is None else tape[v]
        with Tape(env, sub_tape, transform, on_uniform=on_u) as tp:
            smp.sample(state, temperature_inv=tinv)
        final = state[v].detach().clone()
        prop = snap.get("prop", final)
        e_cur, e_prop = en.at(cur), en.at(prop)
        n = len(ids)
        dA, dR = zip(*[s3.total_delta(e_cur, e_prop, j) for j in range(n)])
        us = [t for t in tp.rec if t.shape == (n,)]
        res[v] = {"cur": cur, "prop": prop, "final": final, "acc": smp.acceptation_history[-1].detach().clone(),
                  "rec": tp.rec, "dA": list(dA), "dR": list(dR), "u": us[-1] if us else None,
                  "std": smp.std.detach().clone(), "mismatch": tp.mismatch,
                  "A_ind": e_cur["A_ind"], "dtype": str(cur.dtype).replace("torch.", "")}
    return res


def ip_dict(ip):
    return {k: {p: (list(v) if isinstance(v, (list, tuple)) else v) for p, v in d.items()}
            for k, d in ip._individual_parameters.items()}


def personalize(env, name, df, ids, algo_name, seed, tape=None, transform=None, model=None, container="data", keep_empty=False, **kw):
    """`model`: an already used model object (default: freshly loaded); `container`: what is handed to `model.personalize` -
    `data` (Data), `dataset` (Dataset), `frame` (the pandas table itself; not for the joint layout, which the table reader must be
    told about), `settings` (Data + an AlgorithmSettings object instead of keywords)."""
    model = load_model(env, name) if model is None else model
    frame = cohort_frame(env, df, ids)
    data = to_data(env, name, frame, keep_empty)
    if container == "dataset":
        data = env.Dataset(data)
    elif container == "frame" and not kind_of(name).startswith("joint") and not keep_empty:
        data = frame
    with Tape(env, tape, transform) as tp:
        with core.quiet():
            if container == "settings":
                ip = model.personalize(data, algorithm_settings=env.AlgorithmSettings(algo_name, seed=seed, progress_bar=False, **kw))
            else:
                ip = model.personalize(data, algo_name, seed=seed, progress_bar=False, **kw)
    return ip_dict(ip), tp


def close_params(a, b, k=32):
    for p in a:
        xa = a[p] if isinstance(a[p], list) else [a[p]]
        xb = b[p] if isinstance(b[p], list) else [b[p]]
        if len(xa) != len(xb):
            return False
        for x, y in zip(xa, xb):
            if abs(x - y) > k * EPS32 * max(abs(x), abs(y)) + 1e-30:
                return False
    return True


def max_rel_diff(a, b):
    m = 0.0
    for i in a:
        for p in a[i]:
            xa = a[i][p] if isinstance(a[i][p], list) else [a[i][p]]
            xb = b[i][p] if isinstance(b[i][p], list) else [b[i][p]]
            for x, y in zip(xa, xb):
                m = max(m, abs(x - y) / (abs(x) + abs(y) + 1e-12))
    return m


# ----------------------------------------------------------------------------------------------
def same_or_close(a, b, tol):
    return a == b or (math.isnan(a) and math.isnan(b)) or abs(a - b) <= tol


def case_terms_and_sampler(chk, env, name, seed, lines, expect):
    rng = random.Random(f"C07:ts:{name}:{seed}")
    torch = env.torch
    case = {"kind": "terms+sampler", "model": name, "seed": seed}
    try:
        df = base_frame(env, name)
        all_ids = list(dict.fromkeys(df["ID"]))
        n = rng.choice([2, 3, 4, 5])
        ids = rng.sample(all_ids, n)
        keep = rng.sample(ids, 1 if n == 2 else rng.choice([1, 2]))
        others = [i for i in ids if i not in keep]
        # what is replaced for the other individuals: their observed values (ordinary / far out of range / going missing) and, in
        # half of the cases, their latent values and proposal std as well (pushed several prior standard deviations away)
        ranges = rng.choice(["usual", "usual", "wide"])
        pstyle = rng.choice(["plain", "plain", "extreme", "holes"])
        plat = rng.random() < 0.5
        case.update(ids=ids, keep=keep, latent_ranges=ranges, others_values=pstyle, others_latents_replaced=plat)
        model = load_model(env, name)
        lat, ind_vars = latents_for(env, model, df, ids, seed, ranges)
        latp = latents_for(env, model, df, ids, seed, ranges, replaced=(others, seed + 1, "extreme"))[0] if plat else lat
        with core.quiet():
            base = eval_terms(env, name, df, ids, lat, ind_vars)
            dfp = perturb_others(env, name, df, set(keep), seed, pstyle)
            try:
                pert = eval_terms(env, name, dfp, ids, latp, ind_vars)
            except Exception:  # noqa
                if not plat:
                    raise
                # the model refuses to evaluate the extreme latent values given to the others: data-only replacement
                chk.tag("others_extreme_latents", "refused")
                plat, latp = False, lat
                pert = eval_terms(env, name, dfp, ids, latp, ind_vars)
            perm = list(range(n))
            while perm == list(range(n)):
                rng.shuffle(perm)
            pids = [ids[k] for k in perm]
            permd = eval_terms(env, name, df, pids, lat, ind_vars)
            alone = {i: eval_terms(env, name, df, [i], lat, ind_vars) for i in keep}
    except Exception as e:  # noqa
        chk.impl_failure(case, f"evaluation of the nll terms failed: {s3.err_class(env, e)}: {str(e)[:200]}")
        chk.case(("ts", name, seed), nontrivial=False, tags={"kind": "terms", "outcome": "error"})
        return
    fails = []
    per_ind_keys = ["A_ind", "Rsum_ind"] + [f"R_{v}_ind" for v in ind_vars]
    # shapes: individuals on the first axis (models with clusters: one regularity per cluster on the second)
    for k in per_ind_keys:
        if base[k].dim() not in (1, 2) or base[k].shape[0] != n:
            fails.append(f"{k} has shape {tuple(base[k].shape)} for {n} individuals")
    flat = all(base[k].dim() == 1 for k in per_ind_keys)
    if not fails:
        # (i) other individuals' data (and latent values) changed
        changed_others = False
        for k in per_ind_keys:
            for j, i in enumerate(ids):
                same = row_bits(env, base[k], j) == row_bits(env, pert[k], j)
                if i in keep and not same:
                    fails.append(f"(i) {k}[{i}] changed ({s3.fl(base[k][j])!r} -> {s3.fl(pert[k][j])!r}) when only the data"
                                 f"{' and the latent values' if plat else ''} of the other individuals {others} were replaced "
                                 f"(values: {pstyle})")
                if i not in keep and not same:
                    changed_others = True
        if not changed_others:
            chk.tag("degenerate", "perturbation-without-effect")
        # (iii) permutation
        for k in per_ind_keys:
            for pos, src in enumerate(perm):
                bad = False
                for a, b_ in zip(s3.fl(permd[k][pos]), s3.fl(base[k][src])):
                    nobs = base["n_obs"][src]
                    tol = 4 * (nobs + 8) * EPS32 * (abs(b_) + nobs)
                    chk.tag("permuted_term_ulps", "0" if (a == b_ or (a != a and b_ != b_)) else ("<=4" if abs(a - b_) <= 4 * EPS32 * abs(b_) else ">4"))
                    if not same_or_close(a, b_, tol):
                        fails.append(f"(iii) {k} of individual {ids[src]} is {b_!r} in order {ids} but {a!r} in order {pids} "
                                     f"(|diff| {abs(a-b_):.3g} > envelope {tol:.3g})")
                        bad = True
                        break
                if bad:
                    break
        for k in ["A", "Rsum"]:
            ts = s3.fl(base[k + "_ind"])
            if not all(math.isfinite(x) for x in ts):
                chk.tag("totals", "non-finite-terms-not-summed")
                continue
            tol = (len(ts) + 4) * EPS32 * sum(abs(x) for x in ts) + 1e-30
            for nm, ev in (("base", base), ("permuted", permd)):
                if abs(float(ev[k].double()) - sum(ts)) > tol:
                    fails.append(f"total {k} ({nm} order) = {float(ev[k])!r} is not the sum of the per-individual terms {sum(ts)!r} (tol {tol:.3g})")
        # per-variable regularity adds up to the summed individual regularity
        acc = None
        for v in ind_vars:
            x = base[f"R_{v}_ind"].double()
            acc = x if acc is None else acc + x
        if acc is not None:
            d = (acc - base["Rsum_ind"].double()).abs()
            tol = (len(ind_vars) + 2) * EPS32 * sum(base[f"R_{v}_ind"].double().abs() for v in ind_vars) + 1e-30
            if bool((d > tol).any()):
                fails.append("nll_regul_ind_sum_ind is not the entry-wise sum of the per-variable individual regularities")
        # (ii) alone vs batch
        for i in keep:
            j = ids.index(i)
            for k in per_ind_keys:
                for a, b in zip(s3.fl(alone[i][k][0]), s3.fl(base[k][j])):
                    nobs = base["n_obs"][j]
                    tol = 4 * (nobs + 8) * EPS32 * (abs(b) + nobs)
                    chk.tag("alone_vs_batch_ulps", "0" if (a == b or (a != a and b != b)) else ("<=4" if abs(a - b) <= 4 * EPS32 * abs(b) else ">4"))
                    if not same_or_close(a, b, tol):
                        fails.append(f"(ii) {k} of {i}: alone {a!r} vs in batch {b!r} (|diff| {abs(a-b):.3g} > envelope {tol:.3g})")
    # model lines: totals, permutation, sum of terms
    finite = all(math.isfinite(x) for k in per_ind_keys for x in s3.fl(base[k]))
    if not fails and finite:
        for k in ["A", "Rsum"]:
            ts = s3.fl(base[k + "_ind"])
            lines.append(f"total t={fmt_list(ts, fmt_float)}")
            expect.append(("total", case, {"impl": float(base[k].double()), "tol": (len(ts) + 4) * EPS32 * sum(abs(x) for x in ts) + 1e-30, "what": k}))
            if base[k + "_ind"].dim() == 1:
                lines.append(f"perm p={fmt_list(perm)} t={fmt_list(ts, fmt_float)}")
                expect.append(("perm", case, {"impl": s3.fl(permd[k + '_ind']), "what": k,
                                              "tol": [4 * (base["n_obs"][src] + 8) * EPS32 * (abs(ts[src]) + base["n_obs"][src]) for src in perm]}))
        if len(ind_vars) >= 2:
            a, b = s3.fl(base[f"R_{ind_vars[0]}_ind"]), s3.fl(base[f"R_{ind_vars[1]}_ind"])
            lines.append(f"add a={fmt_list(a, fmt_float)} b={fmt_list(b, fmt_float)}")
            rest = [s3.fl(base[f"R_{v}_ind"]) for v in ind_vars[2:]]
            expect.append(("add", case, {"impl": s3.fl(base["Rsum_ind"]), "rest": rest}))
    for f in fails[:3]:
        chk.impl_failure(case, f)
    chk.case(("ts", name, seed), nontrivial=True, sample=dict(case, perm=perm) if len(chk.samples) < 2 else None,
             tags={"kind": "terms", "model": name, "n": n, "outcome": "ok" if not fails else "fail",
                   "latent_ranges": ranges, "others_values": pstyle, "others_latents_replaced": plat})

    # ---------------- sampler step
    scase = dict(case, kind="sampler-step")
    tinv = rng.choice([1.0, 0.5, 0.1])
    scase["tinv"] = tinv
    std_by_id = {i: {v: math.exp(random.Random(f"std:{seed}:{i}:{v}").uniform(-2.0, 0.5)) * (3.0 if v == "tau" else 1.0)
                     for v in ind_vars} for i in all_ids}
    # the others' proposal std replaced as well (two decades around the usual one) when their latent values are
    stdp = std_by_id if not plat else {i: (std_by_id[i] if i in keep else
                                           {v: std_by_id[i][v] * math.exp(random.Random(f"stdp:{seed}:{i}:{v}").uniform(-2.3, 2.3)) for v in ind_vars})
                                       for i in all_ids}
    sf = []
    try:
        with core.quiet():
            torch.manual_seed(seed)
            b = sampler_sweep(env, name, df, ids, lat, ind_vars, std_by_id, tinv)
            tape = {v: b[v]["rec"] for v in ind_vars}
            try:
                p = sampler_sweep(env, name, dfp, ids, latp, ind_vars, stdp, tinv, tape, lambda k, tp: tp[k])
            except Exception:  # noqa
                if not plat:
                    raise
                chk.tag("others_extreme_latents", "refused-in-sampler-step")
                p = sampler_sweep(env, name, dfp, ids, lat, ind_vars, std_by_id, tinv, tape, lambda k, tp: tp[k])
            idx = torch.tensor(perm)
            q = sampler_sweep(env, name, df, pids, lat, ind_vars, std_by_id, tinv, tape,
                              lambda k, tp: tp[k][idx] if tp[k].dim() >= 1 and tp[k].shape[0] == n else tp[k])
            al = {}
            for i in keep:
                j = ids.index(i)
                al[i] = sampler_sweep(env, name, df, [i], lat, ind_vars, std_by_id, tinv, {v: tape[v] for v in ind_vars},
                                      lambda k, tp, j=j: tp[k][[j]] if tp[k].dim() >= 1 and tp[k].shape[0] == n else tp[k])
    except Exception as e:  # noqa
        chk.impl_failure(scase, f"individual sampler step failed: {s3.err_class(env, e)}: {str(e)[:200]}")
        chk.case(("ss", name, seed), nontrivial=False, tags={"kind": "sampler-step", "outcome": "error"})
        return
    n_dec = 0
    for v in ind_vars:
        for r_, nm in ((p, "perturbed"), (q, "permuted")):
            if r_[v]["mismatch"]:
                sf.append(f"{nm} run: draws are not position-indexed like in the base run: {r_[v]['mismatch'][0]}")
        if sf:
            break
        if b[v]["u"] is None or tuple(b[v]["acc"].shape) != (n,):
            sf.append(f"sampler of {v}: no per-individual uniform draw / acceptance vector of shape ({n},)")
            break
        for j, i in enumerate(ids):
            if i in keep:
                for fld in ("prop", "final"):
                    if row_bits(env, b[v][fld], j) != row_bits(env, p[v][fld], j):
                        sf.append(f"(i) {v}: {fld} row of {i} changed when only other individuals' data{' / latent values / proposal std' if plat else ''} "
                                  f"were replaced (same draws by position)")
                if bool(b[v]["acc"][j] != p[v]["acc"][j]):
                    sf.append(f"(i) {v}: decision of {i} flipped when only other individuals' data{' / latent values / proposal std' if plat else ''} "
                              f"were replaced (same draws by position)")
        for pos, src in enumerate(perm):
            if row_bits(env, q[v]["cur"], pos) != row_bits(env, b[v]["cur"], src):
                chk.tag("permuted_sampler", "diverged-after-ambiguous")
                continue
            if row_bits(env, q[v]["prop"], pos) != row_bits(env, b[v]["prop"], src):
                sf.append(f"(iii) {v}: proposed row of {ids[src]} differs between order {ids} and order {pids} (draws re-ordered alike)")
                continue
            u = float(b[v]["u"][src])
            dA, dR = b[v]["dA"][src], b[v]["dR"][src]
            if not (math.isfinite(dA) and math.isfinite(dR)):
                continue
            aa = s3.alpha64(dA, dR, tinv)
            nobs = base["n_obs"][src]
            env_d = 8 * (nobs + 8) * EPS32 * (abs(float(b[v]["A_ind"][src])) + abs(dA) + nobs + abs(dR))
            amb = (not math.isinf(aa)) and abs(u - aa) <= aa * (math.expm1(env_d) if env_d < 50 else float("inf")) + s3.band(aa, dA, dR, tinv)
            chk.tag("permuted_sampler", "ambiguous" if amb else "compared")
            if not amb:
                if bool(q[v]["acc"][pos] != b[v]["acc"][src]):
                    sf.append(f"(iii) {v}: decision of {ids[src]} differs between the two orders (u={u!r}, alpha={aa!r})")
                elif row_bits(env, q[v]["final"], pos) != row_bits(env, b[v]["final"], src):
                    sf.append(f"(iii) {v}: new row of {ids[src]} differs between the two orders")
        for i in keep:
            j = ids.index(i)
            a = al[i][v]
            if a["mismatch"]:
                sf.append(f"alone run: {a['mismatch'][0]}")
                continue
            # the chain of variables: rows of the previous variables may differ if a decision flipped; compare when current rows agree
            if row_bits(env, a["cur"], 0) != row_bits(env, b[v]["cur"], j):
                chk.tag("alone_sampler", "diverged-after-ambiguous")
                continue
            if row_bits(env, a["prop"], 0) != row_bits(env, b[v]["prop"], j):
                sf.append(f"(ii) {v}: proposed row of {i} alone differs from its proposed row in the batch (own std, own draws by position)")
                continue
            u = float(b[v]["u"][j])
            dA, dR = b[v]["dA"][j], b[v]["dR"][j]
            if not (math.isfinite(dA) and math.isfinite(dR)):
                continue
            aa = s3.alpha64(dA, dR, tinv)
            # rounding envelope of dA between alone and batch evaluations
            nobs = base["n_obs"][j]
            env_d = 8 * (nobs + 8) * EPS32 * (abs(float(b[v]["A_ind"][j])) + abs(dA) + nobs + abs(dR))
            amb = (not math.isinf(aa)) and abs(u - aa) <= aa * (math.expm1(env_d) if env_d < 50 else float("inf")) + s3.band(aa, dA, dR, tinv)
            if amb:
                chk.tag("alone_sampler", "ambiguous")
            else:
                chk.tag("alone_sampler", "compared")
                if bool(a["acc"][0] != b[v]["acc"][j]):
                    sf.append(f"(ii) {v}: decision of {i} alone ({bool(a['acc'][0])}) differs from its decision in the batch "
                              f"({bool(b[v]['acc'][j])}); u={u!r} alpha={aa!r}")
        # model: decisions of the base run and of the re-ordered run
        if not sf:
            for r_, order, nm in ((b, list(range(n)), "base"), (q, perm, "permuted")):
                rr = r_[v]
                d = rr["cur"][0].numel()
                z = [t for t in rr["rec"] if t.numel() == n * d and t.dim() >= 2]
                if not z or rr["u"] is None:
                    continue
                dt = "64" if rr["dtype"] == "float64" else "32"
                skip = []
                for j in range(n):
                    e, tag = s3.judge(float(rr["u"][j]), "rec", 0.0, rr["dA"][j], rr["dR"][j], tinv)
                    skip.append(e is None or tag == "inf")
                    n_dec += 0 if (e is None or tag == "inf") else 1
                safe = lambda xs: [0.0 if not math.isfinite(x) else x for x in xs]
                lines.append(
                    f"ind dt={dt} tinv={fmt_float(tinv)} d={d} cur={fmt_list2([s3.fl(rr['cur'][j]) for j in range(n)], fmt_float)} "
                    f"std={fmt_list(s3.fl(rr['std']), fmt_float)} z={fmt_list(s3.fl(z[0]), fmt_float)} u={fmt_list(s3.fl(rr['u']), fmt_float)} "
                    f"dA={fmt_list(safe(rr['dA']), fmt_float)} dR={fmt_list(safe(rr['dR']), fmt_float)}")
                expect.append(("ind", dict(scase, var=v, run=nm), {"acc": [bool(x != 0) for x in rr["acc"]], "skip": skip,
                                                                     "final": [s3.fl(rr["final"][j]) for j in range(n)], "n": n, "d": d}))
    for f in sf[:3]:
        chk.impl_failure(dict(scase), f)
    chk.case(("ss", name, seed), nontrivial=(n_dec > 0), tags={"kind": "sampler-step", "model": name, "tinv": tinv,
                                                                "outcome": "ok" if not sf else "fail"})


RELABELS = ["2", "10", "1", "9", "100", "21", "b", "A", "a", "B2"]
CONTAINERS = ["data", "dataset", "frame", "settings"]


def case_personalize(chk, env, name, seed, algos, full=True):
    rng = random.Random(f"C07:p:{name}:{seed}")
    torch = env.torch
    df = base_frame(env, name)
    all_ids = list(dict.fromkeys(df["ID"]))
    n = rng.choice([2, 3, 4])
    ids = rng.sample(all_ids, n)
    keep = rng.sample(ids, 1 if n == 2 else rng.choice([1, 2]))
    if "EVENT_TIME" in df.columns:
        # the individual with the earliest event of the cohort is one of the OTHERS (its event is then changed by the perturbation:
        # nothing computed for a kept individual may depend on a cohort-level summary of the events)
        ev = df[df["ID"].isin(ids)].groupby("ID")["EVENT_TIME"].min()
        first = ev.idxmin()
        if first in keep:
            swap = next(i for i in ids if i not in keep)
            keep = [swap if k == first else k for k in keep]
    ids = [i for i in ids if i not in keep] + [i for i in ids if i in keep]     # the kept individuals come after the others
    relabel = rng.random() < 0.67
    if relabel:
        # identifiers whose lexicographic, numeric and listing orders all differ, of different lengths and letter cases
        # (always one with an upper-case letter)
        labels = [rng.choice(["A", "B2"])] + rng.sample([x for x in RELABELS if x not in ("A", "B2")], n - 1)
        rng.shuffle(labels)
        lab = dict(zip(ids, labels))
        df = df[df["ID"].isin(ids)].copy()
        df["ID"] = [lab[i] for i in df["ID"]]
        ids, keep = [lab[i] for i in ids], [lab[i] for i in keep]
    pstyle = rng.choice(["plain", "plain", "extreme", "holes"])
    dfp = perturb_others(env, name, df, set(keep), seed, pstyle)
    # the other individuals reduced to their first visit only (another way of changing what is observed for them)
    first_rows = df.groupby("ID", sort=False).head(1).index
    dfs = df[df["ID"].isin(keep) | df.index.isin(first_rows)]
    # the first of the other individuals without any observed value (every visit kept, every value missing)
    dfb = df.copy()
    for c in feature_cols(dfb):
        dfb[c] = dfb[c].astype(float)
        dfb.loc[dfb["ID"] == ids[0], c] = float("nan")
    # ... and the same on top of the replaced values (used for the budgeted optimiser configuration)
    dfpb = dfp.copy()
    for c in feature_cols(dfpb):
        dfpb[c] = dfpb[c].astype(float)
        dfpb.loc[dfpb["ID"] == ids[0], c] = float("nan")
    perm = list(range(n))
    while perm == list(range(n)):
        rng.shuffle(perm)
    pids = [ids[k] for k in perm]
    # one model object for every call of the case (what a session does), or a freshly loaded one per call
    shared = load_model(env, name) if rng.random() < 0.5 else None
    for algo_name, kw in algos:
        conts = [rng.choice(CONTAINERS) for _ in range(3)]
        case = {"kind": "personalize", "model": name, "seed": seed, "algo": algo_name, "kw": kw, "ids": ids, "keep": keep, "perm": perm,
                "relabelled": relabel, "others_values": pstyle, "containers": conts, "model_reused": shared is not None}
        fails = []
        try:
            base, tp = personalize(env, name, df, ids, algo_name, seed, model=shared, **kw)
            budgeted = "custom_scipy_minimize_params" in kw
            dfq = dfpb if budgeted else dfp       # budgeted optimiser: the first of the others has no observed value at all
            pert, _ = personalize(env, name, dfq, ids, algo_name, seed, model=shared, container=conts[0], keep_empty=budgeted, **kw)
            single = None
            if algo_name == "scipy_minimize":
                try:
                    single, _ = personalize(env, name, dfs, ids, algo_name, seed, model=shared, container=conts[1], **kw)
                except Exception:  # noqa  (a one-visit cohort member may be refused by the data layer for some kinds: skip)
                    single = None
            blank = None
            if full:
                try:
                    blank, _ = personalize(env, name, dfb, ids, algo_name, seed, model=shared, container=conts[1], keep_empty=True, **kw)
                except Exception as e:  # noqa  (a subject without any value may be refused for some kinds: counted)
                    chk.tag("blank_subject", f"refused:{s3.err_class(env, e)}")
                    blank = None
            tape = tp.rec
            m = 0
            if not tape:
                tape, tr = None, None
            elif algo_name == "scipy_minimize":
                if len(tape) % n != 0:
                    raise AssertionError(f"{len(tape)} recorded draws for {n} individuals: not n equal position-indexed groups")
                m = len(tape) // n
                tr = lambda k, t: t[perm[k // m] * m + (k % m)]
            else:
                idx = torch.tensor(perm)
                tr = lambda k, t: t[k][idx] if t[k].dim() >= 1 and t[k].shape[0] == n else t[k]
            permd, tq = personalize(env, name, df, pids, algo_name, seed, tape=tape, transform=tr, model=shared, container=conts[2], **kw)
            # (ii) scipy_minimize works on one state and one single-individual dataset per subject: a subject alone, under another
            # identifier, with the draws of its position, must get exactly the parameters it gets inside the cohort - one kept
            # individual on the original data, one of the others on its replaced data
            alone = []
            if algo_name == "scipy_minimize":
                pairs = [(keep[0], df, base), (ids[0], dfq, pert)]
                if not full and not budgeted:     # quick tier: the budgeted optimiser configuration only
                    pairs = []
                for who, frame, ref in pairs:
                    j = ids.index(who)
                    fr = frame[frame["ID"] == who].copy()
                    fr["ID"] = who + "~a"
                    tra = (lambda k, t, j=j: t[j * m + k]) if tape else None
                    got, ta = personalize(env, name, fr, [who + "~a"], algo_name, seed, tape=tape if tape else None, transform=tra,
                                          model=shared, keep_empty=budgeted, **kw)
                    alone.append((who, got.get(who + "~a"), ref.get(who), ta.mismatch, frame is dfq))
        except Exception as e:  # noqa
            chk.impl_failure(case, f"personalize failed: {s3.err_class(env, e)}: {str(e)[:200]}")
            chk.case(("p", name, seed, algo_name, json.dumps(kw, sort_keys=True)), nontrivial=False, tags={"kind": "personalize", "outcome": "error"})
            continue
        if list(base) != list(ids):
            fails.append(f"individual parameters are keyed {list(base)} for the cohort {ids}")
        if list(permd) != list(pids):
            fails.append(f"individual parameters are keyed {list(permd)} for the re-ordered cohort {pids}")
        if tq.mismatch:
            fails.append(f"re-ordered run: draws are not position-indexed like in the base run: {tq.mismatch[0]}")
        if not fails:
            for i in keep:
                if base[i] != pert.get(i):
                    fails.append(f"(i) {algo_name}: parameters of {i} changed ({base[i]} -> {pert.get(i)}) when only the data of other "
                                 f"individuals were replaced (values: {pstyle}{'; every value of ' + ids[0] + ', listed first, missing' if budgeted else ''}; same seed)")
            if list(pert) != list(ids):
                fails.append(f"individual parameters are keyed {list(pert)} for the cohort {ids} (data of the others replaced"
                             f"{', the first one without any observed value' if budgeted else ''})")
            if single is not None:
                for i in keep:
                    if base[i] != single.get(i):
                        fails.append(f"(i) {algo_name}: parameters of {i} changed ({base[i]} -> {single.get(i)}) when the other individuals "
                                     f"(listed before it) were reduced to a single visit (same seed)")
            if blank is not None:
                chk.tag("blank_subject", "compared")
                if list(blank) != list(ids):
                    fails.append(f"individual parameters are keyed {list(blank)} for the cohort {ids} whose first subject has no observed value")
                for i in keep:
                    if base[i] != blank.get(i):
                        fails.append(f"(i) {algo_name}: parameters of {i} changed ({base[i]} -> {blank.get(i)}) when every value of the "
                                     f"subject {ids[0]} listed before it went missing (same visits, same seed)")
            if any(base[i] != pert.get(i) for i in ids if i not in keep) is False:
                chk.tag("degenerate", "perturbation-without-effect-on-others")
            for (who, got, ref, mism, on_pert) in alone:
                chk.tag("alone_scipy", "compared")
                if mism:
                    fails.append(f"(ii) {algo_name}: {who} alone: draws are not position-indexed like in the cohort run: {mism[0]}")
                elif got != ref:
                    fails.append(f"(ii) {algo_name}: parameters of {who} personalised alone (identifier {who}~a, the draws of its position) {got} "
                                 f"differ from its parameters inside the cohort {ids} {ref}"
                                 f"{' (data of the others replaced, values: ' + pstyle + ')' if on_pert else ''}")
            for i in ids:
                if algo_name != "scipy_minimize" and permd.get(i) is not None and set(permd[i]) == set(base[i]):
                    # batched chains: per-individual nll terms depend on the position in the batch in their last bits
                    # (vectorised reductions), the mean over the kept samples as well -> a few float32 ulps
                    if close_params(base[i], permd[i]):
                        chk.tag("permuted_mcmc_params", "equal" if base[i] == permd[i] else "within-ulps")
                        continue
                if base[i] != permd.get(i):
                    fails.append(f"(iii) {algo_name}: parameters of {i} differ between order {ids} and order {pids} "
                                 f"(draws re-ordered with the individuals): {base[i]} vs {permd.get(i)}")
                    break
        for f in fails[:3]:
            chk.impl_failure(case, f)
        chk.case(("p", name, seed, algo_name, json.dumps(kw, sort_keys=True)), nontrivial=True, sample=case if len(chk.samples) < 4 else None,
                 tags={"kind": "personalize", "algo": algo_name, "model": name, "outcome": "ok" if not fails else "fail",
                       "relabelled": relabel, "others_values": pstyle, "model_reused": shared is not None, "cohort": n})
        for c_ in conts:
            chk.tag("personalize_container", c_)


def case_long_adapt(chk, env, name, seed, n_iter=1200):
    """(i) on a long chain: a single-visit subject (accepts most proposals: its proposal std keeps growing) among well-observed
    ones, default adaptive sampler, `n_iter` >= 1000 iterations (dozens of std adaptations); the observed values of the others
    are replaced -> the subject's mean_posterior parameters must be bit-identical (same seed)."""
    rng = random.Random(f"C07:long:{name}:{seed}")
    df = base_frame(env, name)
    all_ids = list(dict.fromkeys(df["ID"]))
    ids = rng.sample(all_ids, 4)
    keep = ids[-1]
    case = {"kind": "personalize-long", "model": name, "seed": seed, "ids": ids, "keep": [keep], "n_iter": n_iter}
    cdf = cohort_frame(env, df, ids)
    first = cdf[cdf["ID"] == keep].head(1).index
    cdf = cdf[(cdf["ID"] != keep) | cdf.index.isin(first)].reset_index(drop=True)
    try:
        base, _ = personalize(env, name, cdf, ids, "mean_posterior", seed, n_iter=n_iter)
        pert, _ = personalize(env, name, perturb_others(env, name, cdf, {keep}, seed), ids, "mean_posterior", seed, n_iter=n_iter)
    except Exception as e:  # noqa
        chk.impl_failure(case, f"personalize failed: {s3.err_class(env, e)}: {str(e)[:200]}")
        chk.case(("long", name, seed), nontrivial=False, tags={"kind": "personalize-long", "outcome": "error"})
        return
    ok = base.get(keep) == pert.get(keep)
    if not ok:
        chk.impl_failure(case, f"(i) mean_posterior with {n_iter} iterations: parameters of the single-visit subject {keep} changed "
                               f"({base.get(keep)} -> {pert.get(keep)}) when only the observed values of the other subjects {ids[:-1]} were replaced (same seed)")
    if all(base.get(i) == pert.get(i) for i in ids[:-1]):
        chk.tag("degenerate", "perturbation-without-effect-on-others")
    chk.case(("long", name, seed), nontrivial=True, tags={"kind": "personalize-long", "model": name, "outcome": "ok" if ok else "fail"})


def case_njobs(chk, env, name, seed, hash_seeds, n_jobs_list=(2, 3, 5)):
    """(iv) scipy_minimize: n_jobs=1 (this interpreter) vs n_jobs=2, 3, 5 on fresh loky workers started with another PYTHONHASHSEED."""
    rng = random.Random(f"C07:nj:{name}:{seed}")
    df = base_frame(env, name)
    all_ids = list(dict.fromkeys(df["ID"]))
    ids = rng.sample(all_ids, 4)
    case0 = {"kind": "n_jobs", "model": name, "seed": seed, "ids": ids}
    try:
        budget = {} if rng.random() < 0.5 else {"use_jacobian": False,
                                                "custom_scipy_minimize_params": {"method": "Powell", "options": {"maxiter": 6}}}
        case0["budget"] = budget
        ref, _ = personalize(env, name, df, ids, "scipy_minimize", seed, n_jobs=1, **budget)
    except Exception as e:  # noqa
        chk.impl_failure(case0, f"personalize failed: {s3.err_class(env, e)}: {str(e)[:200]}")
        return
    from joblib.externals.loky import get_reusable_executor
    old = os.environ.get("PYTHONHASHSEED")
    try:
        for k_, hs in enumerate(hash_seeds):
            # 2 workers, then 3 (a number that does not divide the cohort), then 5 (more workers than individuals)
            nj = n_jobs_list[k_ % len(n_jobs_list)]
            case = dict(case0, worker_hashseed=hs, n_jobs=nj)
            get_reusable_executor(kill_workers=True).shutdown(wait=True)
            os.environ["PYTHONHASHSEED"] = str(hs)
            try:
                got, _ = personalize(env, name, df, ids, "scipy_minimize", seed, n_jobs=nj, container=rng.choice(CONTAINERS), **budget)
            except Exception as e:  # noqa
                chk.impl_failure(case, f"personalize n_jobs={nj} failed: {s3.err_class(env, e)}: {str(e)[:200]}")
                continue
            ok = (got == ref) and list(got) == list(ref)
            if not ok:
                aligned = list(got) == list(ref) and all(set(got[i]) == set(ref[i]) for i in ref)
                rel = max_rel_diff(ref, got) if aligned else float("inf")
                # F07a region: same ids and keys, differences at the level of optimiser-amplified rounding noise
                fid = F07A if (aligned and rel <= 1e-2) else None
                chk.impl_failure(case, f"(iv) scipy_minimize n_jobs={nj} (workers with PYTHONHASHSEED={hs}) != n_jobs=1: max relative difference "
                                       f"{rel:.3g}; e.g. {ids[0]}: {ref[ids[0]]} vs {got.get(ids[0])}", finding=fid)
            chk.case(("nj", name, seed, hs, nj), nontrivial=True, tags={"kind": "n_jobs", "model": name, "n_jobs": nj, "outcome": "ok" if ok else "differs"})
        listed = [f for f in chk.findings if f.get("id") == F07A and f.get("status") == "finding"]
        if listed and not any(f.get("finding") == F07A for f in chk.impl_failures):
            chk.note(f"finding {F07A} no longer reproduces (n_jobs=1 and n_jobs=2 agree for worker hash seeds {list(hash_seeds)})")
    finally:
        try:
            get_reusable_executor(kill_workers=True).shutdown(wait=True)
        except Exception:  # noqa
            pass
        if old is None:
            os.environ.pop("PYTHONHASHSEED", None)
        else:
            os.environ["PYTHONHASHSEED"] = old



# ---------------------------------------------------------------------------------------------- (v) recorded programs
TR_RTOL = 2e-4
EXPECTED_NONLOCAL = ("predictions_",)     # documented single-individual API of the joint model (positive control)
TRACE_MODELS = list(s3.MODELS)            # every kind C03 builds, the hard-coded mixture included


def load_model_any(env, name):
    sub = name if "/" in name else f"from_fit/{name}"
    return env.BaseModel.load(str(core.REPO / s3.D_ROOT / "model_parameters" / f"{sub}.json"))


def cohort_frame_rep(env, df, ids):
    """The cohort in the order `ids`; an id `x~k` is a copy of individual `x` under a new ID (to reach large batches)."""
    parts = []
    for i in ids:
        d = df[df["ID"] == i.split("~")[0]].copy()
        d["ID"] = i
        parts.append(d)
    return env.pd.concat(parts, ignore_index=True)


def punch_holes(env, name, cdf, seed):
    """Missing values: at most one feature per visit is removed (multivariate kinds only, so that no visit disappears)."""
    cols = feature_cols(cdf)
    if len(cols) < 2:
        return cdf
    r = random.Random(f"holes:{seed}")
    cdf = cdf.copy()
    for c in cols:
        cdf[c] = cdf[c].astype(float)
    for k in range(len(cdf)):
        if r.random() < 0.3:
            cdf.loc[cdf.index[k], r.choice(cols)] = float("nan")
    return cdf


def reset_state(env, model, ds, state, lat):
    """(Re-)put the data and the individual latent values: every individual-level value of the State is invalidated."""
    with state.auto_fork(None):
        model.put_data_variables(state, ds)
        for v, t in lat.items():
            state[v] = t.clone()


def trace_state(env, name, cdf, ids, seed, seed_of=None):
    """A real State of the fitted model `name` holding the cohort frame `cdf` (individuals `ids`, in that order) and
    deterministic latent values that follow the individual (seeded by `seed_of(id)`, default `seed`)."""
    torch = env.torch
    model = load_model_any(env, name)
    ds = env.Dataset(to_data(env, name, cdf))
    if list(ds.indices) != list(ids):
        raise AssertionError(f"dataset order {list(ds.indices)} != {list(ids)}")
    algo = env.algorithm_factory(env.AlgorithmSettings("mcmc_saem" if "/" in name else "mean_posterior", n_iter=10, seed=0,
                                                       progress_bar=False))
    state = algo._initialize_algo(model, ds)
    ind_vars = sorted(state.dag.sorted_variables_by_type[env.IndividualLatentVariable])
    lat = {}
    for v in ind_vars:
        cur = state[v]
        k = int(cur[0].numel())
        rows = []
        for i in ids:
            r = random.Random(f"trlat:{seed if seed_of is None else seed_of(i)}:{i}:{v}")
            t0 = float(cdf[cdf["ID"] == i]["TIME"].min())
            if v == "tau":
                rows.append([t0 + r.uniform(-3.0, 4.0) for _ in range(k)])
            elif v == "xi":
                rows.append([r.uniform(-0.6, 0.6) for _ in range(k)])
            else:
                rows.append([r.uniform(-1.2, 1.2) for _ in range(k)])
        lat[v] = torch.tensor(rows, dtype=cur.dtype).reshape(cur.shape)
    reset_state(env, model, ds, state, lat)
    return model, ds, algo, state, ind_vars, lat


class Rec:
    """One recorded computation: the tracer, the outputs (label, node, tensor, required) and what is needed to report."""

    def __init__(self, what, n, T, outs, extra=None):
        self.what, self.n, self.T, self.outs, self.extra = what, n, T, outs, extra or {}

    def prog(self, required=None):
        o = [nd for (_, nd, _, req) in self.outs if required is None or req == required]
        return self.T.program(o)

    def eval_outs(self):
        """Outputs compared with the real tensors: the individual-level ones and the population totals (they exercise the
        aggregating semantics: sums over all individuals)."""
        return list(self.outs) + [(lab, nd, t, False) for (lab, nd, t) in self.extra.get("totals", [])]


def saturation(env, state):
    """Bernoulli observation models only: number of observed cells whose float32 probability is within 1e-4 of 0 or 1.  There
    log(1 - p) amplifies the float32 rounding of p (up to ln 2 per cell before the clamp at 2^-23 takes over): the double
    evaluation in Lean is then compared with a correspondingly wider envelope."""
    torch = env.torch
    try:
        m, y = state["model"], state["y"]
        m = m if isinstance(m, torch.Tensor) else m.value
        if not bool(((y.value == 0) | (y.value == 1) | (y.weight == 0)).all()):
            return 0            # not binary data
        mm = m.detach()[y.weight != 0]
        return int((torch.minimum(mm, 1 - mm) < 1e-4).sum())
    except Exception:  # noqa
        return 0


def trace_terms(env, state, n):
    """Every individual-level linked variable of the State, computed by the real code under the tracer."""
    leafmap, keep, indiv, roots = tr.state_leafmap(env, state)
    names = [k for k in state.dag if k in indiv and k not in roots]
    T = tr.Tracer(n, leafmap, keep)
    vals = {}
    with T:
        for k in names:
            vals[k] = state[k]
    outs, totals = [], []
    for k in names:
        for suf, t in tr.tensors_of(vals[k]):
            if t.dim() >= 1 and t.shape[0] == n:
                outs.append((k + suf, T.out_node(t), t, not k.startswith(EXPECTED_NONLOCAL)))
            else:
                totals.append((k + suf, T.out_node(t), t))
    return Rec("terms", n, T, outs, {"totals": totals, "sat": saturation(env, state)})


def random_history(env, smp, ids, seed, seed_of=None):
    """A per-individual acceptance history (history x individuals, 0/1): column i is drawn from individual i's own stream with its
    own acceptance probability, so that both the too-low and the too-high branches of the adaptation are populated."""
    torch = env.torch
    H = int(smp.acceptation_history.shape[0])
    cols = []
    for i in ids:
        r = random.Random(f"trhist:{seed if seed_of is None else seed_of(i)}:{i}")
        pr = r.choice([0.05, 0.3, 0.8])
        cols.append([1.0 if r.random() < pr else 0.0 for _ in range(H)])
    return torch.tensor(cols, dtype=smp.acceptation_history.dtype).t().contiguous()


def trace_sampler(env, algo, state, v, n, tinv, adapt=None):
    """One `IndividualGibbsSampler.sample` step of variable `v` under the tracer.  Individual-level inputs: the latent values and
    data, the position-indexed draws, the per-individual proposal std and the acceptance history (individuals on axis 1).
    Outputs: new rows, decisions, alpha, and the sampler's adaptive state after the step (std, acceptance history).
    `adapt` = (ids, seed): the step is the one in which the std adaptation fires (counter at history length - 1, random history)."""
    smp = algo.samplers[v]
    if adapt is not None:
        smp.acceptation_history = random_history(env, smp, adapt[0], adapt[1])
        smp._counter = int(smp.acceptation_history.shape[0]) - 1
    leafmap, keep, _, _ = tr.state_leafmap(env, state)
    leafmap[id(smp.std)] = ("I", f"std:{v}")
    leafmap[id(smp.acceptation_history)] = ("J", f"acceptation_history:{v}")
    got = {}
    o1, o2 = smp._update_acceptation_rate, smp._group_metropolis_step

    def upd(acc):
        got["accepted"] = acc
        return o1(acc)

    def gms(alpha):
        got["alpha"] = alpha
        return o2(alpha)
    smp._update_acceptation_rate, smp._group_metropolis_step = upd, gms
    T = tr.Tracer(n, leafmap, keep + [smp.std, smp.acceptation_history])
    T.preload([smp.std, smp.acceptation_history])
    try:
        with T:
            smp.sample(state, temperature_inv=tinv)
    finally:
        del smp._update_acceptation_rate, smp._group_metropolis_step
    outs = [(f"{v}:new", T.out_node(state._values[v]), state._values[v], True)]
    for k in ("accepted", "alpha"):
        if k in got:
            outs.append((f"{v}:{k}", T.out_node(got[k]), got[k], True))
    outs.append((f"{v}:std", T.out_node(smp.std), smp.std, True))
    outs.append((f"{v}:acceptation_history", T.out_node(smp.acceptation_history), smp.acceptation_history, True))
    u = [T.leaf_vals["I"][nd.k] for nd in T.nodes if nd.kind == "I" and nd.name == "draw:rand"]
    # magnitude of the float32 sums whose difference is exponentiated (for the comparison envelope of alpha)
    scale = 0.0
    for k in ("nll_attach_ind", f"nll_regul_{v}_ind"):
        x = state[k]
        x = x if isinstance(x, env.torch.Tensor) else x.value
        scale += float(x.detach().abs().max())
    return Rec(("adapt:" if adapt is not None else "sampler:") + v, n, T, outs,
               {"u": u[-1] if u else None, "alpha": got.get("alpha"), "var": v, "tinv": tinv,
                "scale": scale + 3500.0 * saturation(env, state)})


def log_tol(env, alpha, scale):
    """Envelope of log(alpha) = -(float32 differences of sums of magnitude `scale`): relative part + rounding of the sums."""
    la = alpha.detach().double().clamp(min=1e-300).log().abs()
    return TR_RTOL * (1 + la) + 2 * TR_RTOL * (1 + scale) + 1e-3


def tensor_close(env, lean_vals, t, rows_skip=(), log_domain=None, extra_abs=0.0):
    """Lean's doubles against the real tensor (flattened); returns None or a description of the first difference.
    `log_domain` (a scale): the value is exp(-(float32 sums)) — its relative error is the absolute error of the exponent —
    compare logs within `log_tol`."""
    torch = env.torch
    tv = t.detach().to(torch.float64)
    if len(lean_vals) != tv.numel():
        return f"{len(lean_vals)} values for shape {tuple(t.shape)}"
    lv = torch.tensor(lean_vals, dtype=torch.float64).reshape(tv.shape)
    ok = ((lv - tv).abs() <= TR_RTOL * (1 + tv.abs()) + extra_abs) | (lv == tv) | (lv.isnan() & tv.isnan())
    if log_domain is not None:
        ll, lt = lv.clamp(min=1e-300).log(), tv.clamp(min=1e-300).log()
        ok = ok | ((ll - lt).abs() <= log_tol(env, tv, log_domain))
    for j in rows_skip:
        ok[j] = True
    if bool(ok.all()):
        return None
    idx = (~ok).nonzero()[0].tolist()
    return f"at {idx}: lean {float(lv[tuple(idx)])!r} vs torch {float(tv[tuple(idx)])!r}"


def validate_ops(chk, env, rec, modes, batched, seen, case, layout=None):
    """Replay every distinct operation instance that the table lowers row-wise (`r`) on random inputs of the recorded
    shapes: row j of the result must not change when the other rows of the batched arguments are re-drawn, must follow
    a re-ordering, and (for operations whose call does not mention the batch size) must be what the row alone gives."""
    torch = env.torch
    T, n = rec.T, rec.n
    import zlib
    j = 1 if n > 1 else 0
    for i, nd in enumerate(T.nodes):
        if nd.kind != "O" or nd.call is None or modes[i] not in "rw":
            continue
        func, args, kwargs = nd.call
        flat = []

        def walk(x):
            if isinstance(x, torch.Tensor):
                flat.append(x)
            elif isinstance(x, (list, tuple)):
                for y in x:
                    walk(y)
        walk(args)
        walk(list(kwargs.values()))
        isb = {}
        special = layout is not None and layout[i] != "0"
        for t in flat:
            k = T.node_of_id.get(id(t))
            isb[id(t)] = (k is not None and batched[k] == "1")
            special = special or (layout is not None and k is not None and layout[k] != "0")
        if special:
            chk.tag("trace_op_replay", "skipped:axis-1-or-ragged-layout")   # validated by the evaluation and the synthetic programs
            continue
        key = (nd.op, nd.params, modes[i], tuple((tuple(t.shape), str(t.dtype), isb[id(t)]) for t in flat))
        if key in seen:
            continue
        seen.add(key)
        g = torch.Generator().manual_seed(zlib.crc32(repr(key).encode()))

        def rnd(t):
            if t.dtype == torch.bool:
                return torch.rand(t.shape, generator=g) < 0.5
            if t.dtype.is_floating_point:
                return (torch.rand(t.shape, generator=g, dtype=torch.float64) * 1.5 + 0.25).to(t.dtype)
            return torch.randint(0, 3, t.shape, generator=g).to(t.dtype)
        A = {id(t): rnd(t) for t in flat if isb[id(t)]}
        B = {}
        for k_, a in A.items():
            b = a.clone()
            fresh = rnd(a)
            for r_ in range(n):
                if r_ != j:
                    b[r_] = fresh[r_]
            B[k_] = b
        perm = list(range(n))[::-1]
        C = {k_: a[perm] for k_, a in A.items()}
        alone = {k_: a[[j]] for k_, a in A.items()}

        def sub(x, m):
            if isinstance(x, torch.Tensor):
                return m.get(id(x), x)
            if isinstance(x, (list, tuple)):
                return type(x)(sub(y, m) for y in x)
            return x

        def call(m):
            o = func(*sub(args, m), **{k_: sub(v, m) for k_, v in kwargs.items()})
            return [o] if isinstance(o, torch.Tensor) else [y for y in o if isinstance(y, torch.Tensor)]
        try:
            oa, ob, oc = call(A), call(B), call(C)
        except Exception as e:  # noqa
            chk.tag("trace_op_replay", f"error:{nd.op}:{type(e).__name__}")
            continue
        eq = lambda x, y: x.shape == y.shape and bool(((x == y) | (x.isnan() & y.isnan()) if x.dtype.is_floating_point else (x == y)).all())  # noqa
        cl = lambda x, y: x.shape == y.shape and bool(torch.isclose(x.double(), y.double(), rtol=1e-4, atol=1e-6, equal_nan=True).all())  # noqa
        rowed = all(o.dim() >= 1 and o.shape[0] == n for o in oa)
        local = rowed and all(eq(x[j], y[j]) for x, y in zip(oa, ob)) and all(cl(z, x[perm]) for x, z in zip(oa, oc))
        if local and nd.op not in ("view", "expand"):
            try:
                ol = call(alone)
                local = all(cl(x[j], y[0]) for x, y in zip(oa, ol))
            except Exception:  # noqa  (the call mentions the batch size)
                chk.tag("trace_op_replay", f"alone-not-applicable:{nd.op}")
        if modes[i] == "r":
            chk.tag("trace_op_replay", "row-wise:confirmed" if local else "row-wise:REFUTED")
            if not local:
                chk.disagree(dict(case, node=i, op=nd.text()), "row j of the result depends on other rows / on the position / on the batch size",
                             "row-wise", f"operation table: {nd.op} {nd.params} on {key[3]} is lowered row-wise but the torch operation is not")
        else:
            chk.tag("trace_op_replay", "whole:non-local" if not local else "whole:conservative")



def synthetic_programs(torch):
    """Small torch functions of x (n,4,3), y (n,3), m (n,3) bool, h (6,n) [individuals on axis 1] — individual-level — and
    p (3,), q (1,3), w (3,2) — population-level:
    (name, function, expected row-local).  They exercise table entries the current leaspy code may not execute."""
    F = torch.nn.functional
    return [
        ("ew-broadcast", lambda x, y, m, p, q, w, h: (x * p + y[:, None, :]) / (1 + q.exp()), True),
        ("sum-last", lambda x, y, m, p, q, w, h: x.sum(dim=-1) + y.sum(dim=1, keepdim=True), True),
        ("sum-tuple", lambda x, y, m, p, q, w, h: x.sum(dim=(1, 2)), True),
        ("mean-max", lambda x, y, m, p, q, w, h: x.mean(dim=2).amax(dim=1) - y.amin(dim=-1), True),
        ("where-mask", lambda x, y, m, p, q, w, h: torch.where(m, y, p).masked_fill(~m, 0.0), True),
        ("softmax-row", lambda x, y, m, p, q, w, h: F.softmax(y * 2, dim=1) * torch.softmax(x, -1).sum(1), True),
        ("cumsum-row", lambda x, y, m, p, q, w, h: x.cumsum(dim=1)[:, -1, :] + y.cumsum(-1), True),
        ("matmul", lambda x, y, m, p, q, w, h: (y @ w).sum(-1, keepdim=True) + (x @ w)[:, 0, :1], True),
        ("stack-cat", lambda x, y, m, p, q, w, h: torch.cat([torch.stack([y, y * 2], dim=1), x], dim=1).sum(1), True),
        ("views", lambda x, y, m, p, q, w, h: x.reshape(x.shape[0], -1).view(x.shape[0], 3, 4).transpose(1, 2).unsqueeze(-1).squeeze(-1)[..., 0], True),
        ("expand-row", lambda x, y, m, p, q, w, h: y.unsqueeze(1).expand(-1, 4, -1) * x + q.expand(4, 3), True),
        ("slices", lambda x, y, m, p, q, w, h: x[:, 1:3, ::2].sum((1, 2)) + y[:, -1] + x[:, 0, 1], True),
        ("clamp-pow", lambda x, y, m, p, q, w, h: torch.clamp(y, min=0.4, max=1.2) ** 2 + y.abs().sqrt() + torch.log1p(y) - torch.sigmoid(-y), True),
        ("cmp-logic", lambda x, y, m, p, q, w, h: ((y > p) & m | (y <= 0.5)).float() + (y != y).to(torch.float32), True),
        ("mask-update", lambda x, y, m, p, q, w, h: _mask_update(y.sum(1)), True),
        ("mask-rows", lambda x, y, m, p, q, w, h: _mask_rows(y, m[:, 0]), True),
        ("history-axis1", lambda x, y, m, p, q, w, h: torch.cat([h[1:], y.sum(1).unsqueeze(0)]).mean(dim=0) + h[-1] * (h.sum(0) > 2).float(), True),
        ("clamp-inplace", lambda x, y, m, p, q, w, h: (y * 1.0).clamp_(min=0.5, max=1.0).mul_(2.0), True),
        # not row-local
        ("median-clamp", lambda x, y, m, p, q, w, h: (y.sum(1) * 1.0).clamp_(min=y.sum(1).median() / 1.2, max=y.sum(1).median() * 1.2), False),
        ("mask-foreign", lambda x, y, m, p, q, w, h: _mask_foreign(y.sum(1)), False),
        ("history-mean-axis1", lambda x, y, m, p, q, w, h: h.mean(dim=1)[:1] + y.sum(1), False),
        ("history-shift", lambda x, y, m, p, q, w, h: torch.cat([h[:, 1:], h[:, :1]], dim=1).sum(0), False),
        ("sum-axis0", lambda x, y, m, p, q, w, h: y - y.sum(dim=0), False),
        ("mean-all", lambda x, y, m, p, q, w, h: y / y.mean(), False),
        ("max-axis0-keep", lambda x, y, m, p, q, w, h: x - x.amax(dim=0, keepdim=True), False),
        ("cumsum-axis0", lambda x, y, m, p, q, w, h: y.cumsum(dim=0), False),
        ("softmax-axis0", lambda x, y, m, p, q, w, h: torch.softmax(y, dim=0), False),
        ("index-axis0", lambda x, y, m, p, q, w, h: y - y[0], False),
        ("slice-axis0", lambda x, y, m, p, q, w, h: torch.cat([y[1:], y[:1]], dim=0), False),
        ("transpose-axis0", lambda x, y, m, p, q, w, h: (y.t() @ y)[None, :, 0] + y, False),
        ("misaligned", lambda x, y, m, p, q, w, h: y.sum(1) * y.sum(1)[:, None], False),
        ("expand-new-axis0", lambda x, y, m, p, q, w, h: y.expand(2, -1, -1).sum(0) + y.flatten()[:3], False),
        ("stack-axis0", lambda x, y, m, p, q, w, h: torch.stack([y, y], dim=0).sum(1)[0] + y, False),
    ]


def _mask_update(s):
    s2 = s.clone()
    lo = s < 1.9
    s2[lo] *= 0.9
    s2[s > 2.4] *= 1.1
    s2[s2 > 2.6] = 0.0
    return s2


def _mask_rows(y, mk):
    z = y.clone()
    z[mk] *= 2.0
    return z


def _mask_foreign(s):
    s2 = s.clone()
    s2[s < 2.2] = s[s >= 2.2].sum()
    return s2


def case_synthetic(chk, env, lines, expect):
    torch = env.torch
    for n in (3, 5):
        g = torch.Generator().manual_seed(1000 + n)
        x = torch.rand((n, 4, 3), generator=g) + 0.25
        y = torch.rand((n, 3), generator=g) + 0.25
        m = torch.rand((n, 3), generator=g) < 0.6
        p, q, w = torch.rand(3, generator=g) + 0.25, torch.rand((1, 3), generator=g), torch.rand((3, 2), generator=g)
        h = (torch.rand((6, n), generator=g) < 0.5).float()
        ins = (x, y, m, p, q, w, h)
        leafmap = {id(x): ("I", "x"), id(y): ("I", "y"), id(m): ("I", "m"), id(p): ("P", "p"), id(q): ("P", "q"), id(w): ("P", "w"),
                   id(h): ("J", "h")}
        for name, f, local in synthetic_programs(torch):
            case = {"kind": "trace-synthetic", "program": name, "n": n}
            try:
                T = tr.Tracer(n, leafmap, list(ins))
                with T:
                    out = f(*ins)
                # empirical locality on the real function: other rows re-drawn
                j = 1
                x2, y2 = x.clone(), y.clone()
                m2, h2 = m.clone(), h.clone()
                for r_ in range(n):
                    if r_ != j:
                        x2[r_] = torch.rand((4, 3), generator=g) + 0.25
                        y2[r_] = torch.rand(3, generator=g) + 0.25
                        m2[r_] = torch.rand(3, generator=g) < 0.6
                        h2[:, r_] = (torch.rand(6, generator=g) < 0.5).float()
                out2 = f(x2, y2, m2, p, q, w, h2)
                emp = out.dim() >= 1 and out.shape[0] == n and bool((out[j] == out2[j]).all())
            except Exception as e:  # noqa
                chk.disagree(case, "ran", f"{type(e).__name__}: {str(e)[:100]}", "synthetic program could not be recorded")
                continue
            rec = Rec("synthetic:" + name, n, T, [(name, T.out_node(out), out, True)], {"expected_local": local, "empirical_local": emp})
            info = {"rec": rec, "case": case}
            lines.append("trace " + rec.prog(True))
            expect.append(("trace-syn", case, info))
            kind, line = eval_request(rec)
            lines.append(line)
            expect.append((kind, case, info))
            chk.case(("trace-syn", name, n), nontrivial=True, tags={"kind": "trace-synthetic"})


def trace_requests(rec):
    """Request lines for one recorded computation: analysis of the required outputs, of the control outputs, evaluation."""
    lines = [("trace", "trace " + rec.prog(True))]
    if any(not req for (_, _, _, req) in rec.outs):
        lines.append(("tracectl", "trace " + rec.prog(False)))
    return lines


def eval_request(rec):
    return ("evaltrace", f"evaltrace n={rec.n} " + rec.T.program([nd for (_, nd, _, _) in rec.eval_outs()]) + " " + rec.T.leaf_data())


def eval_named(env, name, cdf, ids, seed, labels, seed_of=None):
    """Values of the State variables `labels` (`name`, `name.value`, `name.weight`) for the cohort."""
    torch = env.torch
    _, _, _, state, _, _ = trace_state(env, name, cdf, ids, seed, seed_of)
    out = {}
    for lab in labels:
        base, _, suf = lab.partition(".")
        v = state[base]
        t = v if isinstance(v, torch.Tensor) else getattr(v, suf or "value")
        out[lab] = t.detach().clone()
    return out


def overlap(env, a, b):
    """Common leading block of two tensors of the same rank (padding may differ between cohorts)."""
    if a.dim() != b.dim():
        return None, None
    sl = tuple(slice(0, min(x, y)) for x, y in zip(a.shape, b.shape))
    return a[sl], b[sl]


def search_terms(env, name, df, ids, seed, labels):
    """Targeted failing-input search for individual-level State variables that the analysis rejected: (1) replace the data
    and the latent values of the other individuals, (2) re-order, (3) the individual alone, (4) the same individual inside
    a batch of 48.  Returns (description, details) of the first concrete failure, or None."""
    torch = env.torch
    n = len(ids)
    jk = 1 if n > 1 else 0
    keep = [ids[jk]]
    cdf = cohort_frame_rep(env, df, ids)
    with core.quiet():
        base = eval_named(env, name, cdf, ids, seed, labels)
    big = lambda a, b, tol: bool(((a.double() - b.double()).abs() > tol * (1 + b.double().abs())).any())  # noqa
    for trial in range(3):
        ps = seed + 7919 * (trial + 1)
        try:
            with core.quiet():
                pdf = perturb_others(env, name, cdf, set(keep), ps)
                pert = eval_named(env, name, pdf, ids, seed, labels, seed_of=lambda i: seed if i in keep else ps)
        except Exception:  # noqa
            continue
        for lab in labels:
            if row_bits(env, base[lab], jk) != row_bits(env, pert[lab], jk):
                return (f"{lab} of individual {keep[0]} changed ({s3.fl(base[lab][jk])[:4]} -> {s3.fl(pert[lab][jk])[:4]}) when only the data and "
                        f"latent values of the other individuals {[i for i in ids if i not in keep]} were replaced",
                        {"search": "others-replaced", "ids": ids, "keep": keep, "perturb_seed": ps})
    perm = list(range(n))[::-1]
    if perm != list(range(n)):
        pids = [ids[k] for k in perm]
        with core.quiet():
            pv = eval_named(env, name, cohort_frame_rep(env, df, pids), pids, seed, labels)
        for lab in labels:
            a, b = overlap(env, pv[lab][perm.index(jk)], base[lab][jk])
            if a is None or big(a, b, 5e-5):
                return (f"{lab} of individual {keep[0]} differs between order {ids} and order {pids}",
                        {"search": "re-ordered", "ids": ids, "pids": pids})
    with core.quiet():
        al = eval_named(env, name, cohort_frame_rep(env, df, keep), keep, seed, labels)
    for lab in labels:
        a, b = overlap(env, al[lab][0], base[lab][jk])
        if a is None or big(a, b, 5e-5):
            return (f"{lab} of individual {keep[0]} alone {s3.fl(a)[:4] if a is not None else '?'} differs from its value in the batch {ids} "
                    f"{s3.fl(b)[:4] if b is not None else '?'}", {"search": "alone", "ids": ids, "keep": keep})
    all_ids = list(dict.fromkeys(df["ID"]))
    bids = list(ids) + [f"{i}~{k}" for k in range(3) for i in all_ids][: 48 - n]
    with core.quiet():
        bg = eval_named(env, name, cohort_frame_rep(env, df, bids), bids, seed, labels)
    for lab in labels:
        a, b = overlap(env, bg[lab][jk], base[lab][jk])
        if a is None or big(a, b, 5e-5):
            return (f"{lab} of individual {keep[0]} in a batch of {len(bids)} {s3.fl(a)[:4] if a is not None else '?'} differs from its value in "
                    f"the batch {ids} {s3.fl(b)[:4] if b is not None else '?'}", {"search": "batch-of-48", "ids": ids, "big": len(bids)})
    return None


def search_sampler(env, name, df, ids, seed, v, tinv):
    """Targeted search for one sampler step: same draws by position, the others' data / latent values / std replaced."""
    torch = env.torch
    n = len(ids)
    jk = 1 if n > 1 else 0
    keep = [ids[jk]]
    cdf = cohort_frame_rep(env, df, ids)

    def step(frame, seed_of, tape):
        model, ds, algo, state, ind_vars, lat = trace_state(env, name, frame, ids, seed, seed_of)
        smp = algo.samplers[v]
        smp.std = torch.tensor([math.exp(random.Random(f"trstd:{seed if seed_of is None else seed_of(i)}:{i}").uniform(-2.0, 0.5))
                                for i in ids], dtype=smp.std.dtype)
        with Tape(env, tape, (lambda k, tp: tp[k]) if tape is not None else None) as tp:
            smp.sample(state, temperature_inv=tinv)
        return state._values[v].detach().clone(), smp.acceptation_history[-1].detach().clone(), tp
    with core.quiet():
        torch.manual_seed(seed)
        f0, a0, tp0 = step(cdf, None, None)
    for trial in range(3):
        ps = seed + 104729 * (trial + 1)
        try:
            with core.quiet():
                pdf = perturb_others(env, name, cdf, set(keep), ps)
                f1, a1, tp1 = step(pdf, lambda i: seed if i in keep else ps, tp0.rec)
        except Exception:  # noqa
            continue
        if tp1.mismatch:
            return (f"sampler of {v}: draws are not position-indexed: {tp1.mismatch[0]}", {"search": "sampler-others-replaced", "ids": ids})
        if row_bits(env, f0, jk) != row_bits(env, f1, jk) or bool(a0[jk] != a1[jk]):
            return (f"sampler step of {v}: new row / decision of individual {keep[0]} changed ({s3.fl(f0[jk])} acc {float(a0[jk])} -> {s3.fl(f1[jk])} "
                    f"acc {float(a1[jk])}) when only the data, latent values and std of the other individuals were replaced (same draws by position)",
                    {"search": "sampler-others-replaced", "ids": ids, "keep": keep, "perturb_seed": ps, "var": v, "tinv": tinv})
    return None


def search_adapt(env, name, df, ids, seed, v):
    """Targeted search for the adaptation of the per-individual proposal std: `_update_std` is called directly, at the step
    where it acts, on two samplers that agree on the kept individual's std and acceptance history and differ for the others
    (widely spread std values, so that cohort-relative rules bite).  The kept individual's new std must be bit-identical."""
    torch = env.torch
    n = len(ids)
    cdf = cohort_frame_rep(env, df, ids)
    with core.quiet():
        _, _, algo, _, _, _ = trace_state(env, name, cdf, ids, seed)
    smp = algo.samplers[v]

    def adapted(seed_of):
        smp.std = torch.tensor([math.exp(random.Random(f"adstd:{seed_of(i)}:{i}").uniform(-3.0, 3.0)) for i in ids], dtype=smp.std.dtype)
        smp.acceptation_history = random_history(env, smp, ids, seed, seed_of)
        smp._counter = int(smp.acceptation_history.shape[0]) - 1
        before = smp.std.detach().clone()
        smp._update_std()
        return before, smp.std.detach().clone(), smp.acceptation_history.detach().clone()
    b0, s0, h0 = adapted(lambda i: seed)
    for jk in sorted(range(n), key=lambda j: -float(b0[j]))[:2] + sorted(range(n), key=lambda j: float(b0[j]))[:1]:
        for trial in range(4):
            ps = seed + 15485863 * (trial + 1)
            b1, s1, h1 = adapted(lambda i: seed if i == ids[jk] else ps)
            if not (float(b0[jk]) == float(b1[jk]) and bool((h0[:, jk] == h1[:, jk]).all())):
                continue
            if fmt_float(float(s0[jk])) != fmt_float(float(s1[jk])):
                return (f"_update_std of the sampler of {v} (adaptation step): individual {ids[jk]} with std {float(b0[jk])!r} and acceptance history "
                        f"{[int(x) for x in h0[:, jk].tolist()]} gets std {float(s0[jk])!r} in the cohort with stds {[round(float(x), 4) for x in b0]} but "
                        f"{float(s1[jk])!r} when only the other individuals' stds / histories change (stds {[round(float(x), 4) for x in b1]})",
                        {"search": "adapt-others-replaced", "ids": ids, "keep": [ids[jk]], "perturb_seed": ps, "var": v})
    return None


def case_trace(chk, env, name, seed, lines, expect, with_eval=True, samplers=1, big=True):
    """(v) record the individual-level computations of model `name` on three cohorts and queue the Lean requests."""
    rng = random.Random(f"C07:trace:{name}:{seed}")
    case = {"kind": "trace", "model": name, "seed": seed}
    try:
        df = base_frame(env, name)
        all_ids = list(dict.fromkeys(df["ID"]))
        idsA = rng.sample(all_ids, 3)
        idsB = rng.sample([i for i in all_ids if i not in idsA], 5)
        idsC = (rng.sample(all_ids, len(all_ids)) + [f"{i}~{k}" for k in range(2) for i in all_ids])[:48]
        tinv = rng.choice([1.0, 0.5, 0.1])
        case.update(idsA=idsA, idsB=idsB, tinv=tinv)
        recs = []
        cohorts = [("A", idsA, False), ("B", idsB, True)] + ([("C", idsC, False)] if big else [])
        for tag, ids, holes in cohorts:
            with core.quiet():
                cdf = cohort_frame_rep(env, df, ids)
                if holes:
                    cdf = punch_holes(env, name, cdf, seed)
                model, ds, algo, state, ind_vars, lat = trace_state(env, name, cdf, ids, seed)
                rec = trace_terms(env, state, len(ids))
                rec.extra.update(cohort=tag, ids=ids)
                recs.append(rec)
                vs = list(ind_vars)
                rng.shuffle(vs)
                for v in (vs[:samplers] if tag == "A" else (vs[:1] if tag == "C" and samplers else [])):
                    reset_state(env, model, ds, state, lat)
                    smp = algo.samplers[v]
                    smp.std = env.torch.tensor([math.exp(random.Random(f"trstd:{seed}:{i}").uniform(-2.0, 0.5)) for i in ids], dtype=smp.std.dtype)
                    env.torch.manual_seed(seed)
                    r2 = trace_sampler(env, algo, state, v, len(ids), tinv)
                    r2.extra.update(cohort=tag, ids=ids)
                    recs.append(r2)
                # the step in which the per-individual std adaptation fires (one variable per cohort)
                for v in vs[:1]:
                    reset_state(env, model, ds, state, lat)
                    smp = algo.samplers[v]
                    smp.std = env.torch.tensor([math.exp(random.Random(f"trstd:{seed}:{i}").uniform(-2.0, 0.5)) for i in ids], dtype=smp.std.dtype)
                    env.torch.manual_seed(seed + 1)
                    r3 = trace_sampler(env, algo, state, v, len(ids), tinv, adapt=(ids, seed))
                    r3.extra.update(cohort=tag, ids=ids)
                    recs.append(r3)
    except Exception as e:  # noqa
        chk.impl_failure(case, f"recording the individual-level computations failed: {s3.err_class(env, e)}: {type(e).__name__}: {str(e)[:200]}")
        chk.case(("trace", name, seed), nontrivial=False, tags={"kind": "trace", "outcome": "error"})
        return
    # the programs of the cohorts must coincide up to shapes (data-dependent control flow, numbers derived from shapes)
    by_what = {}
    for r in recs:
        by_what.setdefault(r.what, []).append(r)
    for what, rs in by_what.items():
        sk0 = rs[0].T.skeleton()
        for r in rs[1:]:
            sk = r.T.skeleton()
            same = sk == sk0
            chk.tag("trace_programs_across_cohorts", "identical-up-to-shapes" if same else "DIFFERENT")
            if not same:
                k = next((q for q, (x, y) in enumerate(zip(sk0, sk)) if x != y), min(len(sk0), len(sk)))
                info = {"rec": rs[0], "name": name, "df": df, "seed": seed, "case": case,
                        "diff": f"{what}: first difference at node {k}: cohort {rs[0].extra['cohort']} (n={rs[0].n}) "
                                f"`{sk0[k] if k < len(sk0) else '-'}` vs cohort {r.extra['cohort']} (n={r.n}) `{sk[k] if k < len(sk) else '-'}`"}
                expect.append(("trace-skeleton", case, info))
                lines.append("trace " + rs[0].prog(True))
    for r in recs:
        info = {"rec": r, "name": name, "df": df, "seed": seed, "case": dict(case, what=r.what, cohort=r.extra["cohort"], n=r.n)}
        for kind, line in trace_requests(r):
            lines.append(line)
            expect.append((kind, info["case"], info))
        if with_eval and r.n <= 5 and (r.extra["cohort"] == "A" or r.what == "terms"):
            kind, line = eval_request(r)
            lines.append(line)
            expect.append((kind, info["case"], info))
        chk.tag("trace_nodes", f"{r.what.split(':')[0]}:{10 * (len(r.T.nodes) // 10)}+")
        for k_, c in r.T.unknown_ops.items():
            chk.tag("trace_unknown_op", k_, c)
    chk.case(("trace", name, seed), nontrivial=True, sample=case if len(chk.samples) < 6 else None,
             tags={"kind": "trace", "model": name})


def handle_trace_response(chk, env, resp, kind, case, info, seen_ops):
    rec = info["rec"]
    parts = dict(p.split("=", 1) for p in resp.split(" ")) if "=" in resp else {}
    if kind.startswith("trace") and parts.get("unsupported", "_") != "_":
        rec.extra["unsupported"] = parts["unsupported"]
    if kind == "trace-skeleton":
        found = None
        try:
            found = search_terms(env, info["name"], info["df"], rec.extra["ids"], info["seed"], [l for (l, _, _, req) in rec.outs if req][:40]) \
                if rec.what == "terms" else None
        except Exception as e:  # noqa
            chk.note(f"targeted search failed: {type(e).__name__}: {str(e)[:100]}")
        if found:
            chk.impl_failure(dict(case, **found[1]), f"the recorded programs differ between cohorts ({info['diff']}) and: {found[0]}")
        else:
            chk.disagree(case, info["diff"], "one program for every cohort", "the operations executed for the individual-level outputs depend on "
                         "the cohort (data-dependent control flow or a number derived from the batch shape): the recorded program does not cover other inputs")
        return
    if kind == "trace-syn":
        ok = parts.get("rowlocal") == "1"
        exp_, emp = rec.extra["expected_local"], rec.extra["empirical_local"]
        chk.tag("trace_synthetic", f"{'local' if exp_ else 'non-local'}:{'accepted' if ok else 'rejected'}")
        if parts.get("unsupported", "_") != "_":
            chk.tag("trace_synthetic_unsupported", parts["unsupported"])
        if ok and not emp:
            chk.disagree(case, "row j changes when other rows are re-drawn", resp[:200], "operation table: the analysis accepts a program that is not row-local")
        elif ok != exp_:
            chk.disagree(case, f"expected rowlocal={int(exp_)}", resp[:200], "operation table: verdict on a synthetic program")
        return
    if kind == "trace":
        ok = parts.get("rowlocal") == "1"
        chk.tag("trace_rowlocal", f"{rec.what.split(':')[0]}:{'1' if ok else '0'}")
        for nd in rec.T.nodes:
            if nd.kind == "E":
                chk.tag("trace_python_escapes", ("assert:" if nd.is_assert else "ESCAPE:") + nd.site.split("<")[0])
        if "modes" in parts:
            try:
                validate_ops(chk, env, rec, parts["modes"], parts["batched"], seen_ops, case, parts.get("layout"))
            except Exception as e:  # noqa
                chk.note(f"operation replay failed: {type(e).__name__}: {str(e)[:120]}")
        if ok:
            return
        fb = parts.get("firstbad", "?")
        try:
            k = int(fb.split(":")[0])
            node_txt = rec.T.nodes[k].text()[:160] + (f" @ {rec.T.nodes[k].site}" if rec.T.nodes[k].kind == "E" else "")
        except Exception:  # noqa
            k, node_txt = None, "?"
        # which required outputs are not row-local: ask per output is not needed — the search is run on all required labels
        labels = [l for (l, _, _, req) in rec.outs if req]
        found = None
        try:
            if rec.what == "terms":
                found = search_terms(env, info["name"], info["df"], rec.extra["ids"], info["seed"], labels[:40])
            elif rec.what.startswith("adapt"):
                found = search_adapt(env, info["name"], info["df"], rec.extra["ids"], info["seed"], rec.extra["var"]) or \
                    search_sampler(env, info["name"], info["df"], rec.extra["ids"], info["seed"], rec.extra["var"], rec.extra["tinv"])
            else:
                found = search_sampler(env, info["name"], info["df"], rec.extra["ids"], info["seed"], rec.extra["var"], rec.extra["tinv"])
        except Exception as e:  # noqa
            chk.note(f"targeted search failed: {type(e).__name__}: {str(e)[:100]}")
        what = (f"recorded program of {rec.what} (cohort of {rec.n}) is not row-local: first offending node {fb} `{node_txt}`")
        if found:
            chk.impl_failure(dict(case, firstbad=fb, node=node_txt, **found[1]), f"{what}; concrete failing input: {found[0]}")
        else:
            chk.disagree(dict(case, firstbad=fb, node=node_txt), "rowlocal=1 required for every individual-level output", resp[:300], what)
        return
    if kind == "tracectl":
        ok = parts.get("rowlocal") == "0"
        chk.tag("trace_positive_control", "rejected" if ok else "ACCEPTED")
        if not ok:
            chk.disagree(case, "predictions_<event> reads the minimum over all individuals", resp[:200],
                         "positive control: the analysis accepted a variable that is known to depend on the whole batch")
        return
    # evaltrace
    if rec.extra.get("unsupported"):
        # an operation outside the table has no semantics (the analysis has rejected the program: that is the verdict)
        chk.tag("trace_eval", f"{rec.what.split(':')[0]}:not-evaluated(operation outside the table)")
        return
    if not resp.startswith("out="):
        chk.disagree(case, "values", resp[:200], "the lowered program could not be evaluated")
        return
    skip = ()
    if rec.what.startswith(("sampler", "adapt")) and rec.extra.get("u") is not None and rec.extra.get("alpha") is not None:
        u, al = rec.extra["u"].double(), rec.extra["alpha"].detach().double()
        lt = log_tol(env, al, rec.extra.get("scale", 0.0))
        skip = [j for j in range(rec.n) if math.isfinite(float(al[j])) and
                abs(float(u[j]) - float(al[j])) <= float(al[j]) * math.expm1(min(float(lt[j]), 50.0)) + 1e-6]
        chk.tag("trace_eval_rows_skipped_ambiguous", len(skip))
    items = resp[4:].split(";")
    bad = None
    if len(items) != len(rec.eval_outs()):
        chk.disagree(case, len(rec.eval_outs()), len(items), "number of evaluated outputs")
        return
    for item, (lab, nd, t, req) in zip(items, rec.eval_outs()):
        try:
            _, sh, d = item.split(":")
            vals = [parse_float(x) for x in split_ne(d)]
        except Exception:  # noqa
            bad = f"{lab}: unparsable `{item[:60]}`"
            break
        if sh != tr.shp(t.shape):
            bad = f"{lab}: shape {sh} vs torch {tr.shp(t.shape)}"
            break
        sat = rec.extra.get("sat", 0)
        if skip and lab.endswith((":std", ":acceptation_history")):
            continue        # an ambiguous decision feeds the history (individuals on axis 1) and, through it, the std
        msg = tensor_close(env, vals, t, skip if lab.endswith((":new", ":accepted")) else (),
                           log_domain=rec.extra.get("scale", 0.0) if lab.endswith(":alpha") else None,
                           extra_abs=0.7 * sat if lab.startswith("nll_attach") else 0.0)
        if msg:
            bad = f"{lab}: {msg}"
            break
    chk.tag("trace_eval", f"{rec.what.split(':')[0]}:{'agrees' if bad is None else 'DIFFERS'}")
    if rec.extra.get("sat"):
        chk.tag("trace_eval_saturated_bernoulli_cells", "some")
    if bad is not None:
        chk.disagree(case, "real tensors", bad, f"the Lean evaluation of the lowered program of {rec.what} does not reproduce the real tensors "
                     "(tracer dataflow or operation table wrong)")


def compare_model(chk, lines, expect):
    out = chk.model(lines)
    seen_ops = set()
    for resp, (kind, case, info) in zip(out, expect):
        if kind.startswith(("trace", "evaltrace")):
            if resp.startswith("err") or resp == "bad-request":
                chk.disagree(case, "ran", resp, f"model refuses the {kind} request")
            else:
                handle_trace_response(chk, ENV[0], resp, kind, case, info, seen_ops)
            continue
        if resp.startswith("err") or resp == "bad-request":
            chk.disagree(case, "ran", resp, f"model refuses the {kind} request")
            continue
        try:
            parts = dict(p.split("=", 1) for p in resp.split(" "))
            if kind == "total":
                m = parse_float(parts["sum"])
                if abs(m - info["impl"]) > info["tol"]:
                    chk.disagree(case, info["impl"], m, f"population total {info['what']} vs sum of the per-individual terms (envelope {info['tol']:.3g})")
            elif kind == "perm":
                m = [parse_float(x) for x in split_ne(parts["t"])]
                if len(m) != len(info["impl"]) or any(abs(a - b) > t for a, b, t in zip(m, info["impl"], info["tol"])):
                    chk.disagree(case, info["impl"], m, f"per-individual {info['what']} terms of the re-ordered cohort (rounding envelope)")
            elif kind == "add":
                m = [parse_float(x) for x in split_ne(parts["t"])]
                for r in info["rest"]:
                    m = [a + b for a, b in zip(m, r)]
                for a, b in zip(m, info["impl"]):
                    if abs(a - b) > 8 * EPS32 * (abs(a) + abs(b)) + 1e-30:
                        chk.disagree(case, info["impl"], m, "summed individual regularity vs sum of the per-variable terms")
                        break
            else:
                acc = [x == "1" for x in split_ne(parts["acc"])]
                vals = [[parse_float(x) for x in split_ne(r)] for r in parts["val"].split(";")]
                n = info["n"]
                if int(parts["usedz"]) != n * info["d"] or int(parts["usedu"]) != n:
                    chk.disagree(case, (n * info["d"], n), (parts["usedz"], parts["usedu"]), "draws consumed")
                for j in range(n):
                    if info["skip"][j]:
                        continue
                    if acc[j] != info["acc"][j]:
                        chk.disagree(case, info["acc"][j], acc[j], f"decision of the individual at position {j}")
                        break
                    if [fmt_float(x) for x in vals[j]] != [fmt_float(x) for x in info["final"][j]]:
                        chk.disagree(case, info["final"][j], vals[j], f"new row of the individual at position {j} (bitwise)")
                        break
        except Exception as e:  # noqa
            chk.disagree(case, "?", resp[:200], f"unparsable model response ({type(e).__name__})")


ENV = [None]
ALGOS = [("scipy_minimize", {"n_jobs": 1}), ("mode_posterior", {"n_iter": 40}), ("mean_posterior", {"n_iter": 40}),
         # an iteration budget at which some individuals converge and others are cut short: whatever the optimiser does about a
         # non-converged individual must not reach the others
         ("scipy_minimize", {"n_jobs": 1, "use_jacobian": False,
                             "custom_scipy_minimize_params": {"method": "Powell", "options": {"maxiter": 6}}})]
P_MODELS = ["logistic_diag_noise", "linear_scalar_noise", "joint_diagonal", "univariate_logistic", "univariate_joint",
            "logistic_binary", "shared_speed_logistic_diag_noise"]


def run(chk: core.Check):
    env = ENV[0] = s3._imports()
    chk.rule = ("recorded programs: for every model kind the individual-level State variables and one sampler step are recorded on cohorts "
                "of 3, 5 (with missing values) and 48 individuals, analysed and evaluated in Lean; metamorphic cases on fitted models with cohorts of 3-5 individuals drawn from the test data: terms + one step of every "
                "individual sampler (base / others' data replaced / re-ordered / alone, same recorded draws by position), personalisation "
                "with scipy_minimize, mode_posterior, mean_posterior (base / others replaced / re-ordered; scipy_minimize also alone under another "
                "identifier), scipy_minimize n_jobs 1 vs 2, 3, 5 on fresh workers. Widened ranges: cohorts of 2-5, others' values ordinary / far out "
                "of range / going missing, others' latent values and proposal std replaced too, latent values up to (15-20 years, 2.5, 3) away, "
                "mixture model, identifiers relabelled ('2','10','A','a',...), Data / Dataset / DataFrame / AlgorithmSettings entry, model object "
                "reused across calls. A case is non-trivial when it compares at least one per-individual output; distinct by (kind, model, seed[, algo]).")
    lines, expect = [], []
    rng = chk.rng
    quick = chk.tier == "quick"
    for c in core.load_corpus(PROP):
        replay_case(chk, env, c, lines, expect)
    for name in s3.MODELS:   # every model kind, the hard-coded mixture included
        for _ in range(2 if quick else 6):
            case_terms_and_sampler(chk, env, name, rng.randrange(1, 10 ** 6), lines, expect)
    case_synthetic(chk, env, lines, expect)
    for name in TRACE_MODELS + ([] if quick else list(TRACE_EXTRA)):
        for _ in range(1 if quick else 2):
            case_trace(chk, env, name, rng.randrange(1, 10 ** 6), lines, expect, with_eval=True, samplers=1 if quick else 3, big=True)
    pm = list(P_MODELS)
    rng.shuffle(pm)
    if quick:
        # one model with events in every quick run (the others' events are part of "the others' data"), two without
        joint = [n for n in pm if "joint" in n]
        pm = [n for n in pm if "joint" not in n][:2] + joint[:1]
    for name in pm:
        case_personalize(chk, env, name, rng.randrange(1, 10 ** 6), ALGOS, full=not quick)
    for name in (["logistic_diag_noise"] if quick else ["logistic_diag_noise", "linear_diag_noise", "shared_speed_logistic_diag_noise",
                                                        "univariate_logistic"]):
        case_long_adapt(chk, env, name, rng.randrange(1, 10 ** 6))
    # quick: always a model whose optimiser start point is drawn from the prior (the joint model's start is deterministic,
    # so it cannot reveal anything that depends on the workers' random streams); thorough: all three
    nj = ["logistic_diag_noise", "linear_scalar_noise"]
    rng.shuffle(nj)
    nj.append("joint_diagonal")
    for name in (nj[:1] if quick else nj):
        hs = [rng.randrange(1, 1000) for _ in range(2 if quick else 3)]
        case_njobs(chk, env, name, rng.randrange(1, 10 ** 6), hs)
    compare_model(chk, lines, expect)
    chk.exhaustive = False


def replay_case(chk, env, case, lines, expect):
    k = case.get("kind")
    if k in ("terms+sampler", "sampler-step"):
        case_terms_and_sampler(chk, env, case["model"], case["seed"], lines, expect)
    elif k == "personalize":
        case_personalize(chk, env, case["model"], case["seed"], [(case["algo"], case["kw"])])
    elif k == "n_jobs":
        case_njobs(chk, env, case["model"], case["seed"], [case.get("worker_hashseed", 1)], n_jobs_list=(case.get("n_jobs", 2),))
    elif k == "personalize-long":
        case_long_adapt(chk, env, case["model"], case["seed"], case.get("n_iter", 1200))
    elif k == "trace":
        case_trace(chk, env, case["model"], case["seed"], lines, expect, with_eval=True, samplers=3, big=True)
    elif k == "trace-synthetic":
        case_synthetic(chk, env, lines, expect)


def replay(chk: core.Check, payload):
    env = ENV[0] = s3._imports()
    case = payload.get("case") or (payload.get("disagreements") or [{}])[0].get("case")
    if not case:
        chk.note("replay file has no case")
        return
    lines, expect = [], []
    replay_case(chk, env, case, lines, expect)
    compare_model(chk, lines, expect)
