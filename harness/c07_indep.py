"""C07 — individuals are conditionally independent and order-equivariant.

The Lean side (`Props/C07.lean`) is list algebra over a model where the batch is `List.map`; the
substance is here, on the real code (metamorphic runs on fitted models and tiny cohorts):

  (i)   the observed values of every *other* individual are replaced -> the kept individuals' nll terms,
        sampler proposals / decisions / new rows (same recorded draws by position) and personalised
        parameters (scipy_minimize, mode_posterior, mean_posterior; same seed) are bit-identical;
  (ii)  an individual evaluated alone instead of in the batch: terms within a rounding envelope, proposal
        bit-identical (own std, own draws), decision identical unless |u - alpha| is inside the envelope;
  (iii) re-ordering the individuals (draws re-ordered with them) permutes every per-individual output
        bit for bit; totals agree within summation rounding and are the sums of the per-individual terms;
  (iv)  scipy_minimize with n_jobs = 1 and n_jobs = 2 (fresh loky workers, other PYTHONHASHSEED) returns
        identical IndividualParameters.
"""
from __future__ import annotations

import math
import os
import random

from . import core
from .core import fmt_float, parse_float, fmt_list, fmt_list2, split_ne
from . import c03_sampler as s3

PROP = "C07"
LEAN = dict(
    props="LeaspyVerif.Props.C07",
    driver="drivers/C07.lean",
    harness="c07_indep.py",
    extra_modules=["LeaspyVerif.Model.Indep", "LeaspyVerif.Model.Sampler"],
    theorems=["term_local", "term_local_set", "term_alone", "terms_permute", "map_perm", "sum_perm",
              "permute_perm", "total_permute", "total_eq_sum_terms", "addTerms_get", "indStep_local"],
    trusted_extra=[
        "PARTIAL inside a proof-level claim: the theorems are list algebra over a model in which the batch is List.map of a "
        "per-individual function (locality holds by construction); that leaspy's batched tensor code behaves like that map, "
        "and that joblib process pools do not change results, are runtime facts established only by the metamorphic runs "
        "(i)-(iv) of this harness on the generated cohorts",
        "float32 rounding: 'alone vs batch' and totals are compared through explicit envelopes, everything else bit for bit",
    ],
    assumptions=[
        "perturbations change observed values (and event time / indicator) of other individuals, never their visit ages "
        "(padding and masks are C06's subject)",
        "alone-vs-batch envelope for a per-individual term: 4*(n_obs+8)*2^-23*(|term| + n_obs); totals: (n+4)*2^-23*sum|terms|",
        "position-indexed draws: in re-ordered runs the recorded draws are re-ordered with the individuals",
        "re-ordered batch: per-individual terms within the alone-vs-batch envelope (vectorised reductions make the last bits depend on "
        "the position in the batch), proposals bit for bit, decisions unless |u - alpha| is inside that envelope, MCMC-personalised "
        "parameters within 32 float32 ulps; scipy_minimize (one state per individual) bit for bit",
    ],
)

EPS32 = 2.0 ** -23
F07A = "F07a"


# ----------------------------------------------------------------------------------------------
def base_frame(env, name):
    pd = env.pd
    root = core.REPO / s3.D_ROOT / "data_mock"
    kind = s3.MODELS[name]
    if kind.startswith("joint"):
        df = pd.read_csv(root / "data_tiny_joint.csv", dtype={"ID": str}, sep=";")
        if kind.endswith("uni"):
            df = df.iloc[:, :5]
    elif kind == "binary":
        df = pd.read_csv(root / "binary_data.csv", dtype={"ID": str})
    else:
        df = pd.read_csv(root / "data_tiny.csv", dtype={"ID": str})
        if kind.endswith("uni"):
            df = df.iloc[:, :3]
    return df


def load_model(env, name):
    return env.BaseModel.load(str(core.REPO / s3.D_ROOT / "model_parameters" / "from_fit" / f"{name}.json"))


def to_data(env, name, df):
    if s3.MODELS[name].startswith("joint"):
        # as scipy_minimize does for its single-individual datasets: the number of event types comes from the model
        return env.Data.from_dataframe(df, data_type="joint", factory_kws={"nb_events": 1})
    return env.Data.from_dataframe(df)


def cohort_frame(env, df, ids):
    return env.pd.concat([df[df["ID"] == i] for i in ids], ignore_index=True)


def feature_cols(df):
    return [c for c in df.columns if c not in ("ID", "TIME", "EVENT_TIME", "EVENT_BOOL")]


def perturb_others(env, name, df, keep, seed):
    """Replace the observed values of every individual not in `keep` (visit ages untouched)."""
    rng = random.Random(f"perturb:{seed}")
    df = df.copy()
    binary = s3.MODELS[name] == "binary"
    for c in feature_cols(df):
        vals = []
        for i, v in zip(df["ID"], df[c]):
            if i in keep:
                vals.append(v)
            else:
                vals.append(float(rng.randrange(2)) if binary else round(rng.random(), 4))
        df[c] = vals
    if "EVENT_TIME" in df.columns:
        shift = {i: (rng.uniform(0.1, 3.0), rng.randrange(2)) for i in dict.fromkeys(df["ID"])}
        df["EVENT_TIME"] = [t if i in keep else t + shift[i][0] for i, t in zip(df["ID"], df["EVENT_TIME"])]
        df["EVENT_BOOL"] = [b if i in keep else shift[i][1] for i, b in zip(df["ID"], df["EVENT_BOOL"])]
    return df


def latents_for(env, model, df, ids, seed):
    """Deterministic per-individual latent values (they follow the individual, not its position)."""
    dag = model.state.dag
    ind_vars = list(dag.sorted_variables_by_type[env.IndividualLatentVariable])
    out = {}
    for i in ids:
        r = random.Random(f"lat:{seed}:{i}")
        t0 = float(df[df["ID"] == i]["TIME"].min())
        d = {}
        for v in sorted(ind_vars):
            shape = tuple(dag[v].get_prior_shape(dag))
            k = 1
            for s in shape:
                k *= s
            if v == "tau":
                d[v] = [t0 + r.uniform(-3.0, 4.0) for _ in range(k)]
            elif v == "xi":
                d[v] = [r.uniform(-0.6, 0.6) for _ in range(k)]
            else:
                d[v] = [r.uniform(-1.2, 1.2) for _ in range(k)]
        out[i] = d
    return out, sorted(ind_vars)


def stack(env, lat, ids, v):
    return env.torch.tensor([lat[i][v] for i in ids], dtype=env.torch.float32)


def tv(env, x):
    return (x.weighted_value if hasattr(x, "weighted_value") else x).detach().clone()


def eval_terms(env, name, df, ids, lat, ind_vars):
    """Per-individual terms and totals of the real model for the cohort `ids` (in that order)."""
    model = load_model(env, name)
    ds = env.Dataset(to_data(env, name, cohort_frame(env, df, ids)))
    assert list(ds.indices) == list(ids)
    st = model.state.clone(disable_auto_fork=True)
    model.put_data_variables(st, ds)
    for v in ind_vars:
        st[v] = stack(env, lat, ids, v)
    out = {"A_ind": tv(env, st["nll_attach_ind"]), "A": tv(env, st["nll_attach"]),
           "Rsum_ind": tv(env, st["nll_regul_ind_sum_ind"]), "Rsum": tv(env, st["nll_regul_ind_sum"])}
    for v in ind_vars:
        out[f"R_{v}_ind"] = tv(env, st[f"nll_regul_{v}_ind"])
        out[f"R_{v}"] = tv(env, st[f"nll_regul_{v}"])
    out["n_obs"] = [int(df[df["ID"] == i][feature_cols(df)].notna().sum().sum()) for i in ids]
    return out


def row_bits(env, t, j):
    return [fmt_float(x) for x in s3.fl(t[j])]


# ----------------------------------------------------------------------------------------------
class Tape:
    """Call-through recording / position-wise replay of torch.randn / torch.normal / torch.rand."""

    def __init__(self, env, tape=None, transform=None, on_uniform=None):
        self.env = env
        self.replay = tape
        self.transform = transform
        self.rec = []
        self.mismatch = []
        self.on_uniform = on_uniform

    def __enter__(self):
        torch = self.env.torch
        self._orig = (torch.randn, torch.rand, torch.normal)
        o = self._orig

        def mk(f, kind):
            def w(*a, **k):
                out = f(*a, **k)
                idx = len(self.rec)
                if self.replay is not None:
                    if idx < len(self.replay):
                        try:
                            new = self.transform(idx, self.replay)
                        except Exception as e:  # noqa
                            new = None
                            self.mismatch.append(f"draw {idx}: {type(e).__name__}")
                        if new is not None and new.shape == out.shape and new.dtype == out.dtype:
                            out = new.clone()
                        elif new is not None:
                            self.mismatch.append(f"draw {idx}: shape {tuple(out.shape)} but recorded {tuple(new.shape)}")
                    else:
                        self.mismatch.append(f"draw {idx}: beyond the {len(self.replay)} recorded draws")
                self.rec.append(out.detach().clone())
                if kind == "u" and self.on_uniform is not None:
                    self.on_uniform(out)
                return out
            return w

        torch.randn, torch.rand, torch.normal = mk(o[0], "n"), mk(o[1], "u"), mk(o[2], "n")
        return self

    def __exit__(self, *exc):
        torch = self.env.torch
        torch.randn, torch.rand, torch.normal = self._orig
        return False


def sampler_sweep(env, name, df, ids, lat, ind_vars, std_by_id, tinv, tape=None, transform=None):
    """One step of every individual sampler (variables in sorted order) on the cohort, through the real
    mean_posterior initialisation.  Returns per variable: proposed rows, accepted flags, final rows, draws, ΔA, ΔR."""
    torch = env.torch
    model = load_model(env, name)
    ds = env.Dataset(to_data(env, name, cohort_frame(env, df, ids)))
    algo = env.algorithm_factory(env.AlgorithmSettings("mean_posterior", n_iter=10, seed=0, progress_bar=False))
    state = algo._initialize_algo(model, ds)
    with state.auto_fork(None):
        for v in ind_vars:
            state[v] = stack(env, lat, ids, v)
    res = {}
    all_rec, mism = [], []
    for v in ind_vars:
        smp = algo.samplers[v]
        smp.std = torch.tensor([std_by_id[i][v] for i in ids], dtype=smp.std.dtype)
        cur = state[v].detach().clone()
        snap = {}
        en = s3.Energies(env, state, v)

        def on_u(out, snap=snap, v=v, state=state):
            snap["prop"] = state[v].detach().clone()

        sub_tape = None if tape is None else tape[v]
        with Tape(env, sub_tape, transform, on_uniform=on_u) as tp:
            smp.sample(state, temperature_inv=tinv)
        final = state[v].detach().clone()
        prop = snap.get("prop", final)
        e_cur, e_prop = en.at(cur), en.at(prop)
        n = len(ids)
        dA, dR = zip(*[s3.total_delta(e_cur, e_prop, j) for j in range(n)])
        us = [t for t in tp.rec if t.shape == (n,)]
        res[v] = {"cur": cur, "prop": prop, "final": final, "acc": smp.acceptation_history[-1].detach().clone(),
                  "rec": tp.rec, "dA": list(dA), "dR": list(dR), "u": us[-1] if us else None,
                  "std": smp.std.detach().clone(), "mismatch": tp.mismatch,
                  "A_ind": e_cur["A_ind"], "dtype": str(cur.dtype).replace("torch.", "")}
    return res


def ip_dict(ip):
    return {k: {p: (list(v) if isinstance(v, (list, tuple)) else v) for p, v in d.items()}
            for k, d in ip._individual_parameters.items()}


def personalize(env, name, df, ids, algo_name, seed, tape=None, transform=None, **kw):
    model = load_model(env, name)
    data = to_data(env, name, cohort_frame(env, df, ids))
    with Tape(env, tape, transform) as tp:
        with core.quiet():
            ip = model.personalize(data, algo_name, seed=seed, progress_bar=False, **kw)
    return ip_dict(ip), tp


def close_params(a, b, k=32):
    for p in a:
        xa = a[p] if isinstance(a[p], list) else [a[p]]
        xb = b[p] if isinstance(b[p], list) else [b[p]]
        if len(xa) != len(xb):
            return False
        for x, y in zip(xa, xb):
            if abs(x - y) > k * EPS32 * max(abs(x), abs(y)) + 1e-30:
                return False
    return True


def max_rel_diff(a, b):
    m = 0.0
    for i in a:
        for p in a[i]:
            xa = a[i][p] if isinstance(a[i][p], list) else [a[i][p]]
            xb = b[i][p] if isinstance(b[i][p], list) else [b[i][p]]
            for x, y in zip(xa, xb):
                m = max(m, abs(x - y) / (abs(x) + abs(y) + 1e-12))
    return m


# ----------------------------------------------------------------------------------------------
def case_terms_and_sampler(chk, env, name, seed, lines, expect):
    rng = random.Random(f"C07:ts:{name}:{seed}")
    torch = env.torch
    case = {"kind": "terms+sampler", "model": name, "seed": seed}
    try:
        df = base_frame(env, name)
        all_ids = list(dict.fromkeys(df["ID"]))
        n = rng.choice([3, 4, 5])
        ids = rng.sample(all_ids, n)
        keep = rng.sample(ids, rng.choice([1, 2]))
        case.update(ids=ids, keep=keep)
        model = load_model(env, name)
        lat, ind_vars = latents_for(env, model, df, ids, seed)
        with core.quiet():
            base = eval_terms(env, name, df, ids, lat, ind_vars)
            dfp = perturb_others(env, name, df, set(keep), seed)
            pert = eval_terms(env, name, dfp, ids, lat, ind_vars)
            perm = list(range(n))
            while perm == list(range(n)):
                rng.shuffle(perm)
            pids = [ids[k] for k in perm]
            permd = eval_terms(env, name, df, pids, lat, ind_vars)
            alone = {i: eval_terms(env, name, df, [i], lat, ind_vars) for i in keep}
    except Exception as e:  # noqa
        chk.impl_failure(case, f"evaluation of the nll terms failed: {s3.err_class(env, e)}: {str(e)[:200]}")
        chk.case(("ts", name, seed), nontrivial=False, tags={"kind": "terms", "outcome": "error"})
        return
    fails = []
    per_ind_keys = ["A_ind", "Rsum_ind"] + [f"R_{v}_ind" for v in ind_vars]
    # shapes
    for k in per_ind_keys:
        if tuple(base[k].shape) != (n,):
            fails.append(f"{k} has shape {tuple(base[k].shape)} for {n} individuals")
    if not fails:
        # (i) other individuals' data changed
        changed_others = False
        for k in per_ind_keys:
            for j, i in enumerate(ids):
                same = row_bits(env, base[k], j) == row_bits(env, pert[k], j)
                if i in keep and not same:
                    fails.append(f"(i) {k}[{i}] changed ({float(base[k][j])!r} -> {float(pert[k][j])!r}) when only the data of "
                                 f"other individuals {[x for x in ids if x not in keep]} were replaced")
                if i not in keep and not same:
                    changed_others = True
        if not changed_others:
            chk.tag("degenerate", "perturbation-without-effect")
        # (iii) permutation
        for k in per_ind_keys:
            for pos, src in enumerate(perm):
                a, b_ = float(permd[k][pos]), float(base[k][src])
                nobs = base["n_obs"][src]
                tol = 4 * (nobs + 8) * EPS32 * (abs(b_) + nobs)
                chk.tag("permuted_term_ulps", "0" if a == b_ else ("<=4" if abs(a - b_) <= 4 * EPS32 * abs(b_) else ">4"))
                if not abs(a - b_) <= tol:
                    fails.append(f"(iii) {k} of individual {ids[src]} is {b_!r} in order {ids} but {a!r} in order {pids} "
                                 f"(|diff| {abs(a-b_):.3g} > envelope {tol:.3g})")
                    break
        for k in ["A", "Rsum"]:
            ts = s3.fl(base[k + "_ind"])
            tol = (n + 4) * EPS32 * sum(abs(x) for x in ts) + 1e-30
            for nm, ev in (("base", base), ("permuted", permd)):
                if abs(float(ev[k].double()) - sum(ts)) > tol:
                    fails.append(f"total {k} ({nm} order) = {float(ev[k])!r} is not the sum of the per-individual terms {sum(ts)!r} (tol {tol:.3g})")
        # per-variable regularity adds up to the summed individual regularity
        acc = None
        for v in ind_vars:
            x = base[f"R_{v}_ind"].double()
            acc = x if acc is None else acc + x
        if acc is not None:
            d = (acc - base["Rsum_ind"].double()).abs()
            tol = (len(ind_vars) + 2) * EPS32 * sum(base[f"R_{v}_ind"].double().abs() for v in ind_vars) + 1e-30
            if bool((d > tol).any()):
                fails.append("nll_regul_ind_sum_ind is not the entry-wise sum of the per-variable individual regularities")
        # (ii) alone vs batch
        for i in keep:
            j = ids.index(i)
            for k in per_ind_keys:
                a, b = float(alone[i][k][0]), float(base[k][j])
                nobs = base["n_obs"][j]
                tol = 4 * (nobs + 8) * EPS32 * (abs(b) + nobs)
                chk.tag("alone_vs_batch_ulps", "0" if a == b else ("<=4" if abs(a - b) <= 4 * EPS32 * abs(b) else ">4"))
                if not abs(a - b) <= tol:
                    fails.append(f"(ii) {k} of {i}: alone {a!r} vs in batch {b!r} (|diff| {abs(a-b):.3g} > envelope {tol:.3g})")
    # model lines: totals, permutation, sum of terms
    if not fails:
        for k in ["A", "Rsum"]:
            ts = s3.fl(base[k + "_ind"])
            lines.append(f"total t={fmt_list(ts, fmt_float)}")
            expect.append(("total", case, {"impl": float(base[k].double()), "tol": (n + 4) * EPS32 * sum(abs(x) for x in ts) + 1e-30, "what": k}))
            lines.append(f"perm p={fmt_list(perm)} t={fmt_list(ts, fmt_float)}")
            expect.append(("perm", case, {"impl": s3.fl(permd[k + '_ind']), "what": k,
                                          "tol": [4 * (base["n_obs"][src] + 8) * EPS32 * (abs(ts[src]) + base["n_obs"][src]) for src in perm]}))
        if len(ind_vars) >= 2:
            a, b = s3.fl(base[f"R_{ind_vars[0]}_ind"]), s3.fl(base[f"R_{ind_vars[1]}_ind"])
            lines.append(f"add a={fmt_list(a, fmt_float)} b={fmt_list(b, fmt_float)}")
            rest = [s3.fl(base[f"R_{v}_ind"]) for v in ind_vars[2:]]
            expect.append(("add", case, {"impl": s3.fl(base["Rsum_ind"]), "rest": rest}))
    for f in fails[:3]:
        chk.impl_failure(case, f)
    chk.case(("ts", name, seed), nontrivial=True, sample=dict(case, perm=perm) if len(chk.samples) < 2 else None,
             tags={"kind": "terms", "model": name, "n": n, "outcome": "ok" if not fails else "fail"})

    # ---------------- sampler step
    scase = dict(case, kind="sampler-step")
    tinv = rng.choice([1.0, 0.5, 0.1])
    scase["tinv"] = tinv
    std_by_id = {i: {v: math.exp(random.Random(f"std:{seed}:{i}:{v}").uniform(-2.0, 0.5)) * (3.0 if v == "tau" else 1.0)
                     for v in ind_vars} for i in all_ids}
    sf = []
    try:
        with core.quiet():
            torch.manual_seed(seed)
            b = sampler_sweep(env, name, df, ids, lat, ind_vars, std_by_id, tinv)
            tape = {v: b[v]["rec"] for v in ind_vars}
            p = sampler_sweep(env, name, dfp, ids, lat, ind_vars, std_by_id, tinv, tape, lambda k, tp: tp[k])
            idx = torch.tensor(perm)
            q = sampler_sweep(env, name, df, pids, lat, ind_vars, std_by_id, tinv, tape,
                              lambda k, tp: tp[k][idx] if tp[k].dim() >= 1 and tp[k].shape[0] == n else tp[k])
            al = {}
            for i in keep:
                j = ids.index(i)
                al[i] = sampler_sweep(env, name, df, [i], lat, ind_vars, std_by_id, tinv, {v: tape[v] for v in ind_vars},
                                      lambda k, tp, j=j: tp[k][[j]] if tp[k].dim() >= 1 and tp[k].shape[0] == n else tp[k])
    except Exception as e:  # noqa
        chk.impl_failure(scase, f"individual sampler step failed: {s3.err_class(env, e)}: {str(e)[:200]}")
        chk.case(("ss", name, seed), nontrivial=False, tags={"kind": "sampler-step", "outcome": "error"})
        return
    n_dec = 0
    for v in ind_vars:
        for r_, nm in ((p, "perturbed"), (q, "permuted")):
            if r_[v]["mismatch"]:
                sf.append(f"{nm} run: draws are not position-indexed like in the base run: {r_[v]['mismatch'][0]}")
        if sf:
            break
        if b[v]["u"] is None or tuple(b[v]["acc"].shape) != (n,):
            sf.append(f"sampler of {v}: no per-individual uniform draw / acceptance vector of shape ({n},)")
            break
        for j, i in enumerate(ids):
            if i in keep:
                for fld in ("prop", "final"):
                    if row_bits(env, b[v][fld], j) != row_bits(env, p[v][fld], j):
                        sf.append(f"(i) {v}: {fld} row of {i} changed when only other individuals' data were replaced (same draws by position)")
                if bool(b[v]["acc"][j] != p[v]["acc"][j]):
                    sf.append(f"(i) {v}: decision of {i} flipped when only other individuals' data were replaced (same draws by position)")
        for pos, src in enumerate(perm):
            if row_bits(env, q[v]["cur"], pos) != row_bits(env, b[v]["cur"], src):
                chk.tag("permuted_sampler", "diverged-after-ambiguous")
                continue
            if row_bits(env, q[v]["prop"], pos) != row_bits(env, b[v]["prop"], src):
                sf.append(f"(iii) {v}: proposed row of {ids[src]} differs between order {ids} and order {pids} (draws re-ordered alike)")
                continue
            u = float(b[v]["u"][src])
            dA, dR = b[v]["dA"][src], b[v]["dR"][src]
            if not (math.isfinite(dA) and math.isfinite(dR)):
                continue
            aa = s3.alpha64(dA, dR, tinv)
            nobs = base["n_obs"][src]
            env_d = 8 * (nobs + 8) * EPS32 * (abs(float(b[v]["A_ind"][src])) + nobs + abs(dR))
            amb = (not math.isinf(aa)) and abs(u - aa) <= aa * (math.expm1(env_d) if env_d < 50 else float("inf")) + s3.band(aa, dA, dR, tinv)
            chk.tag("permuted_sampler", "ambiguous" if amb else "compared")
            if not amb:
                if bool(q[v]["acc"][pos] != b[v]["acc"][src]):
                    sf.append(f"(iii) {v}: decision of {ids[src]} differs between the two orders (u={u!r}, alpha={aa!r})")
                elif row_bits(env, q[v]["final"], pos) != row_bits(env, b[v]["final"], src):
                    sf.append(f"(iii) {v}: new row of {ids[src]} differs between the two orders")
        for i in keep:
            j = ids.index(i)
            a = al[i][v]
            if a["mismatch"]:
                sf.append(f"alone run: {a['mismatch'][0]}")
                continue
            # the chain of variables: rows of the previous variables may differ if a decision flipped; compare when current rows agree
            if row_bits(env, a["cur"], 0) != row_bits(env, b[v]["cur"], j):
                chk.tag("alone_sampler", "diverged-after-ambiguous")
                continue
            if row_bits(env, a["prop"], 0) != row_bits(env, b[v]["prop"], j):
                sf.append(f"(ii) {v}: proposed row of {i} alone differs from its proposed row in the batch (own std, own draws by position)")
                continue
            u = float(b[v]["u"][j])
            dA, dR = b[v]["dA"][j], b[v]["dR"][j]
            if not (math.isfinite(dA) and math.isfinite(dR)):
                continue
            aa = s3.alpha64(dA, dR, tinv)
            # rounding envelope of dA between alone and batch evaluations
            nobs = base["n_obs"][j]
            env_d = 8 * (nobs + 8) * EPS32 * (abs(float(b[v]["A_ind"][j])) + nobs + abs(dR))
            amb = (not math.isinf(aa)) and abs(u - aa) <= aa * (math.expm1(env_d) if env_d < 50 else float("inf")) + s3.band(aa, dA, dR, tinv)
            if amb:
                chk.tag("alone_sampler", "ambiguous")
            else:
                chk.tag("alone_sampler", "compared")
                if bool(a["acc"][0] != b[v]["acc"][j]):
                    sf.append(f"(ii) {v}: decision of {i} alone ({bool(a['acc'][0])}) differs from its decision in the batch "
                              f"({bool(b[v]['acc'][j])}); u={u!r} alpha={aa!r}")
        # model: decisions of the base run and of the re-ordered run
        if not sf:
            for r_, order, nm in ((b, list(range(n)), "base"), (q, perm, "permuted")):
                rr = r_[v]
                d = rr["cur"][0].numel()
                z = [t for t in rr["rec"] if t.numel() == n * d and t.dim() >= 2]
                if not z or rr["u"] is None:
                    continue
                dt = "64" if rr["dtype"] == "float64" else "32"
                skip = []
                for j in range(n):
                    e, tag = s3.judge(float(rr["u"][j]), "rec", 0.0, rr["dA"][j], rr["dR"][j], tinv)
                    skip.append(e is None)
                    n_dec += 0 if e is None else 1
                safe = lambda xs: [0.0 if not math.isfinite(x) else x for x in xs]
                lines.append(
                    f"ind dt={dt} tinv={fmt_float(tinv)} d={d} cur={fmt_list2([s3.fl(rr['cur'][j]) for j in range(n)], fmt_float)} "
                    f"std={fmt_list(s3.fl(rr['std']), fmt_float)} z={fmt_list(s3.fl(z[0]), fmt_float)} u={fmt_list(s3.fl(rr['u']), fmt_float)} "
                    f"dA={fmt_list(safe(rr['dA']), fmt_float)} dR={fmt_list(safe(rr['dR']), fmt_float)}")
                expect.append(("ind", dict(scase, var=v, run=nm), {"acc": [bool(x != 0) for x in rr["acc"]], "skip": skip,
                                                                     "final": [s3.fl(rr["final"][j]) for j in range(n)], "n": n, "d": d}))
    for f in sf[:3]:
        chk.impl_failure(dict(scase), f)
    chk.case(("ss", name, seed), nontrivial=(n_dec > 0), tags={"kind": "sampler-step", "model": name, "tinv": tinv,
                                                                "outcome": "ok" if not sf else "fail"})


def case_personalize(chk, env, name, seed, algos):
    rng = random.Random(f"C07:p:{name}:{seed}")
    torch = env.torch
    df = base_frame(env, name)
    all_ids = list(dict.fromkeys(df["ID"]))
    n = rng.choice([3, 4])
    ids = rng.sample(all_ids, n)
    keep = rng.sample(ids, rng.choice([1, 2]))
    ids = [i for i in ids if i not in keep] + [i for i in ids if i in keep]     # the kept individuals come after the others
    dfp = perturb_others(env, name, df, set(keep), seed)
    # the other individuals reduced to their first visit only (another way of changing what is observed for them)
    first_rows = df.groupby("ID", sort=False).head(1).index
    dfs = df[df["ID"].isin(keep) | df.index.isin(first_rows)]
    perm = list(range(n))
    while perm == list(range(n)):
        rng.shuffle(perm)
    pids = [ids[k] for k in perm]
    for algo_name, kw in algos:
        case = {"kind": "personalize", "model": name, "seed": seed, "algo": algo_name, "kw": kw, "ids": ids, "keep": keep, "perm": perm}
        fails = []
        try:
            base, tp = personalize(env, name, df, ids, algo_name, seed, **kw)
            pert, _ = personalize(env, name, dfp, ids, algo_name, seed, **kw)
            single = None
            if algo_name == "scipy_minimize":
                try:
                    single, _ = personalize(env, name, dfs, ids, algo_name, seed, **kw)
                except Exception:  # noqa  (a one-visit cohort member may be refused by the data layer for some kinds: skip)
                    single = None
            tape = tp.rec
            if not tape:
                tape, tr = None, None
            elif algo_name == "scipy_minimize":
                if len(tape) % n != 0:
                    raise AssertionError(f"{len(tape)} recorded draws for {n} individuals: not n equal position-indexed groups")
                m = len(tape) // n
                tr = lambda k, t: t[perm[k // m] * m + (k % m)]
            else:
                idx = torch.tensor(perm)
                tr = lambda k, t: t[k][idx] if t[k].dim() >= 1 and t[k].shape[0] == n else t[k]
            permd, tq = personalize(env, name, df, pids, algo_name, seed, tape=tape, transform=tr, **kw)
        except Exception as e:  # noqa
            chk.impl_failure(case, f"personalize failed: {s3.err_class(env, e)}: {str(e)[:200]}")
            chk.case(("p", name, seed, algo_name), nontrivial=False, tags={"kind": "personalize", "outcome": "error"})
            continue
        if list(base) != list(ids):
            fails.append(f"individual parameters are keyed {list(base)} for the cohort {ids}")
        if list(permd) != list(pids):
            fails.append(f"individual parameters are keyed {list(permd)} for the re-ordered cohort {pids}")
        if tq.mismatch:
            fails.append(f"re-ordered run: draws are not position-indexed like in the base run: {tq.mismatch[0]}")
        if not fails:
            for i in keep:
                if base[i] != pert.get(i):
                    fails.append(f"(i) {algo_name}: parameters of {i} changed ({base[i]} -> {pert.get(i)}) when only the data of other "
                                 f"individuals were replaced (same seed)")
            if single is not None:
                for i in keep:
                    if base[i] != single.get(i):
                        fails.append(f"(i) {algo_name}: parameters of {i} changed ({base[i]} -> {single.get(i)}) when the other individuals "
                                     f"(listed before it) were reduced to a single visit (same seed)")
            if any(base[i] != pert.get(i) for i in ids if i not in keep) is False:
                chk.tag("degenerate", "perturbation-without-effect-on-others")
            for i in ids:
                if algo_name != "scipy_minimize" and permd.get(i) is not None and set(permd[i]) == set(base[i]):
                    # batched chains: per-individual nll terms depend on the position in the batch in their last bits
                    # (vectorised reductions), the mean over the kept samples as well -> a few float32 ulps
                    if close_params(base[i], permd[i]):
                        chk.tag("permuted_mcmc_params", "equal" if base[i] == permd[i] else "within-ulps")
                        continue
                if base[i] != permd.get(i):
                    fails.append(f"(iii) {algo_name}: parameters of {i} differ between order {ids} and order {pids} "
                                 f"(draws re-ordered with the individuals): {base[i]} vs {permd.get(i)}")
                    break
        for f in fails[:3]:
            chk.impl_failure(case, f)
        chk.case(("p", name, seed, algo_name), nontrivial=True, sample=case if len(chk.samples) < 4 else None,
                 tags={"kind": "personalize", "algo": algo_name, "model": name, "outcome": "ok" if not fails else "fail"})


def case_njobs(chk, env, name, seed, hash_seeds):
    """(iv) scipy_minimize: n_jobs=1 (this interpreter) vs n_jobs=2 on fresh loky workers started with another PYTHONHASHSEED."""
    rng = random.Random(f"C07:nj:{name}:{seed}")
    df = base_frame(env, name)
    all_ids = list(dict.fromkeys(df["ID"]))
    ids = rng.sample(all_ids, 4)
    case0 = {"kind": "n_jobs", "model": name, "seed": seed, "ids": ids}
    try:
        ref, _ = personalize(env, name, df, ids, "scipy_minimize", seed, n_jobs=1)
    except Exception as e:  # noqa
        chk.impl_failure(case0, f"personalize failed: {s3.err_class(env, e)}: {str(e)[:200]}")
        return
    from joblib.externals.loky import get_reusable_executor
    old = os.environ.get("PYTHONHASHSEED")
    try:
        for hs in hash_seeds:
            case = dict(case0, worker_hashseed=hs)
            get_reusable_executor(kill_workers=True).shutdown(wait=True)
            os.environ["PYTHONHASHSEED"] = str(hs)
            try:
                got, _ = personalize(env, name, df, ids, "scipy_minimize", seed, n_jobs=2)
            except Exception as e:  # noqa
                chk.impl_failure(case, f"personalize n_jobs=2 failed: {s3.err_class(env, e)}: {str(e)[:200]}")
                continue
            ok = (got == ref) and list(got) == list(ref)
            if not ok:
                aligned = list(got) == list(ref) and all(set(got[i]) == set(ref[i]) for i in ref)
                rel = max_rel_diff(ref, got) if aligned else float("inf")
                # F07a region: same ids and keys, differences at the level of optimiser-amplified rounding noise
                fid = F07A if (aligned and rel <= 1e-2) else None
                chk.impl_failure(case, f"(iv) scipy_minimize n_jobs=2 (workers with PYTHONHASHSEED={hs}) != n_jobs=1: max relative difference "
                                       f"{rel:.3g}; e.g. {ids[0]}: {ref[ids[0]]} vs {got.get(ids[0])}", finding=fid)
            chk.case(("nj", name, seed, hs), nontrivial=True, tags={"kind": "n_jobs", "model": name, "outcome": "ok" if ok else "differs"})
        listed = [f for f in chk.findings if f.get("id") == F07A and f.get("status") == "finding"]
        if listed and not any(f.get("finding") == F07A for f in chk.impl_failures):
            chk.note(f"finding {F07A} no longer reproduces (n_jobs=1 and n_jobs=2 agree for worker hash seeds {list(hash_seeds)})")
    finally:
        try:
            get_reusable_executor(kill_workers=True).shutdown(wait=True)
        except Exception:  # noqa
            pass
        if old is None:
            os.environ.pop("PYTHONHASHSEED", None)
        else:
            os.environ["PYTHONHASHSEED"] = old


def compare_model(chk, lines, expect):
    out = chk.model(lines)
    for resp, (kind, case, info) in zip(out, expect):
        if resp.startswith("err") or resp == "bad-request":
            chk.disagree(case, "ran", resp, f"model refuses the {kind} request")
            continue
        try:
            parts = dict(p.split("=", 1) for p in resp.split(" "))
            if kind == "total":
                m = parse_float(parts["sum"])
                if abs(m - info["impl"]) > info["tol"]:
                    chk.disagree(case, info["impl"], m, f"population total {info['what']} vs sum of the per-individual terms (envelope {info['tol']:.3g})")
            elif kind == "perm":
                m = [parse_float(x) for x in split_ne(parts["t"])]
                if len(m) != len(info["impl"]) or any(abs(a - b) > t for a, b, t in zip(m, info["impl"], info["tol"])):
                    chk.disagree(case, info["impl"], m, f"per-individual {info['what']} terms of the re-ordered cohort (rounding envelope)")
            elif kind == "add":
                m = [parse_float(x) for x in split_ne(parts["t"])]
                for r in info["rest"]:
                    m = [a + b for a, b in zip(m, r)]
                for a, b in zip(m, info["impl"]):
                    if abs(a - b) > 8 * EPS32 * (abs(a) + abs(b)) + 1e-30:
                        chk.disagree(case, info["impl"], m, "summed individual regularity vs sum of the per-variable terms")
                        break
            else:
                acc = [x == "1" for x in split_ne(parts["acc"])]
                vals = [[parse_float(x) for x in split_ne(r)] for r in parts["val"].split(";")]
                n = info["n"]
                if int(parts["usedz"]) != n * info["d"] or int(parts["usedu"]) != n:
                    chk.disagree(case, (n * info["d"], n), (parts["usedz"], parts["usedu"]), "draws consumed")
                for j in range(n):
                    if info["skip"][j]:
                        continue
                    if acc[j] != info["acc"][j]:
                        chk.disagree(case, info["acc"][j], acc[j], f"decision of the individual at position {j}")
                        break
                    if [fmt_float(x) for x in vals[j]] != [fmt_float(x) for x in info["final"][j]]:
                        chk.disagree(case, info["final"][j], vals[j], f"new row of the individual at position {j} (bitwise)")
                        break
        except Exception as e:  # noqa
            chk.disagree(case, "?", resp[:200], f"unparsable model response ({type(e).__name__})")


ALGOS = [("scipy_minimize", {"n_jobs": 1}), ("mode_posterior", {"n_iter": 40}), ("mean_posterior", {"n_iter": 40})]
P_MODELS = ["logistic_diag_noise", "linear_scalar_noise", "joint_diagonal", "univariate_logistic", "univariate_joint",
            "logistic_binary", "shared_speed_logistic_diag_noise"]


def run(chk: core.Check):
    env = s3._imports()
    chk.rule = ("metamorphic cases on fitted models with cohorts of 3-5 individuals drawn from the test data: terms + one step of every "
                "individual sampler (base / others' data replaced / re-ordered / alone, same recorded draws by position), personalisation "
                "with scipy_minimize, mode_posterior, mean_posterior (base / others replaced / re-ordered), scipy_minimize n_jobs 1 vs 2 on "
                "fresh workers. A case is non-trivial when it compares at least one per-individual output; distinct by (kind, model, seed[, algo]).")
    lines, expect = [], []
    rng = chk.rng
    quick = chk.tier == "quick"
    for c in core.load_corpus(PROP):
        replay_case(chk, env, c, lines, expect)
    for name in [n for n in s3.MODELS if "/" not in n]:   # (C03's mixture entry is C03's business)
        for _ in range(2 if quick else 6):
            case_terms_and_sampler(chk, env, name, rng.randrange(1, 10 ** 6), lines, expect)
    pm = list(P_MODELS)
    rng.shuffle(pm)
    for name in (pm[:3] if quick else pm):
        case_personalize(chk, env, name, rng.randrange(1, 10 ** 6), ALGOS)
    # quick: always a model whose optimiser start point is drawn from the prior (the joint model's start is deterministic,
    # so it cannot reveal anything that depends on the workers' random streams); thorough: all three
    nj = ["logistic_diag_noise", "linear_scalar_noise"]
    rng.shuffle(nj)
    nj.append("joint_diagonal")
    for name in (nj[:1] if quick else nj):
        hs = [rng.randrange(1, 1000) for _ in range(2 if quick else 3)]
        case_njobs(chk, env, name, rng.randrange(1, 10 ** 6), hs)
    compare_model(chk, lines, expect)
    chk.exhaustive = False


def replay_case(chk, env, case, lines, expect):
    k = case.get("kind")
    if k in ("terms+sampler", "sampler-step"):
        case_terms_and_sampler(chk, env, case["model"], case["seed"], lines, expect)
    elif k == "personalize":
        case_personalize(chk, env, case["model"], case["seed"], [(case["algo"], case["kw"])])
    elif k == "n_jobs":
        case_njobs(chk, env, case["model"], case["seed"], [case.get("worker_hashseed", 1)])


def replay(chk: core.Check, payload):
    env = s3._imports()
    case = payload.get("case") or (payload.get("disagreements") or [{}])[0].get("case")
    if not case:
        chk.note("replay file has no case")
        return
    lines, expect = [], []
    replay_case(chk, env, case, lines, expect)
    compare_model(chk, lines, expect)
