"""C03 — every sampler step is a Metropolis–Hastings transition for the documented target.

Correspondence: the real `PopulationGibbsSampler / PopulationFastGibbsSampler /
PopulationMetropolisHastingsSampler / IndividualGibbsSampler.sample` (built by the real
`AlgorithmWithSamplersMixin._initialize_samplers`) on real fitted models, against
`Model/Sampler.lean` through `drivers/C03.lean`.

Observation points (call-through wrappers, nothing of leaspy is replaced):
  * `torch.randn / torch.normal / torch.rand` — every result is recorded; on a `rand` call the value
    returned to the sampler may be *chosen* (still after the real draw, so the generator advances as
    usual): the property quantifies over every uniform draw, so ties `u = alpha`, neighbours of
    `alpha` and `alpha·(1 ± 1e-3)` are legitimate inputs;
  * the value of the sampled variable is read (public `state[name]`) at every draw and after the call;
  * ΔA and ΔR are recomputed from scratch on a *fresh* `State` (same DAG, inputs copied through the
    public `__setitem__`), as the change of `nll_attach` and of the sum of *all* `nll_regul_*` terms,
    so a sampler that drops or mis-weights a term disagrees.

Blocks (which coordinates a sweep visits, draw shapes, std indexing, masks): `Model/Blocks.lean` through the
driver requests `blocks` / `indblocks`.  The table of blocks used to analyse the fitted-model sweeps is the
Lean model's answer (`LeanBlocks`), and the real sampler classes are also run on toy variables of arbitrary
shape — (), (d,), (r, c) incl. r = 1, c = 1, extents 0, 3-D, with and without a mask — built with the real
`PopulationLatentVariable` / `IndividualLatentVariable` / `VariablesDAG` / `State` (`blocks_case`, `indblocks_case`).
The predicate evaluated on the implementation alone: the sets of coordinates changed by the successive
proposals of one sweep are pairwise disjoint and cover exactly the (unmasked) coordinates of the variable,
one uniform per iterator element, the shuffled iterator is a permutation of the unshuffled one.

Generator ranges (widened after the seeded rounds, see `make_variant`, `toy_config`, `public_run_case`): cohorts of 1, 2, 3 and 17
individuals; samplers built by the fit algorithm and by the two sampling-based personalisation algorithms; sampler kinds in every
documented spelling; sampler settings given through the algorithm settings; inverse temperatures down to 0.01 and next to 1; State
forking by reference and by copy; individuals displaced far from the posterior mode; absurd (x1000) and tiny proposal scales with
infinite energy changes judged in the extended reals; whole annealed runs through `algorithm.run`.
"""
from __future__ import annotations

import math
import random
import warnings

from . import core
from .core import fmt_float, parse_float, fmt_list, fmt_list2, split_ne

PROP = "C03"
LEAN = dict(
    props="LeaspyVerif.Props.C03",
    driver="drivers/C03.lean",
    harness="c03_sampler.py",
    extra_modules=["LeaspyVerif.Model.Sampler", "LeaspyVerif.Model.Blocks", "LeaspyVerif.Lemmas.Blocks"],
    theorems=["proposal_length", "proposal_support", "proposal_on_block", "proposal_neg",
              "draws_consumed", "draws_sufficient", "pop_first_decision", "draws_consumed_ind",
              "decision_local", "decision_formula", "accept_real", "accept_iff_min",
              "alpha_is_target_ratio", "detailed_balance", "tempering_monotone", "D_at_one",
              "construct_spec", "blocks_cover", "blocks_cover_masked", "blocks_partition", "blocks_no_stray",
              "blocks_nonempty", "blocks_draw_shape", "gibbs_blocks_singletons", "mh_one_block",
              "fastGibbs_blocks_rows", "sweep_counts_gibbs", "sweep_counts_fastGibbs", "sweep_counts_mh",
              "sweep_counts_masked", "shuffle_preserves_blocks", "sweepDraws_perm", "sweep_any_order_once",
              "shuffled_sweep_once", "blockChange_unmasked", "blockChange_support", "proposal_support_blocks",
              "draws_consumed_sweep", "sampler_tables_agree", "ind_blocks_rows", "ind_draws_by_row"],
    trusted_extra=[
        "theorems are over the reals (Real.exp); the executable instance is Float32 for the values "
        "(Float32 product, then double addition, for the float64 variables of the joint model) and IEEE double for the nll terms",
        "the uniform / normal laws of torch.rand / torch.randn are not modelled: 'accepted with probability min(1,alpha)' "
        "and ergodicity are not claimed, only the decision rule, its arguments and the draw accounting",
        "a mask on a population sampler is refused by the constructor (NotImplementedError, modelled by `construct`); the mask "
        "branches of `_get_iterator_indices` / `_proposed_change_idx` are exercised by setting the `mask` attribute of a "
        "constructed instance, which no public path does",
        "mixture models: the individual sampler's responsibility-weighted regularity of the sampled variable (weights of the same state) is checked as coded; it is not the mixture-prior density and no theorem covers it",
    ],
    assumptions=[
        "alpha is evaluated by the implementation in the dtype of the nll terms (float32; float64 attachment for the joint model): "
        "decisions with |u - alpha| <= alpha * 8*2^-23*(|dR*tinv| + |dA| + 1) are counted as ambiguous and not compared",
        "exact ties (u = alpha and its float neighbours) are injected only when the implementation's ratio is visible as a local "
        "tensor `alpha` in the frames calling torch.rand (it is then validated against the from-scratch ratio); otherwise only "
        "alpha*(1 +- 1e-3 / 1e-2) are injected",
    ],
)

D_ROOT = "tests/_data"
# model file (from_fit) -> data kind
MODELS = {
    "logistic_diag_noise": "tiny",
    "logistic_scalar_noise": "tiny",
    "univariate_logistic": "tiny-uni",
    "logistic_binary": "binary",
    "linear_diag_noise": "tiny",
    "linear_scalar_noise": "tiny",
    "univariate_linear": "tiny-uni",
    "joint_diagonal": "joint",
    "univariate_joint": "joint-uni",
    "shared_speed_logistic_diag_noise": "tiny",
    # mixture: the individual sampler weights the per-cluster regularity of the sampled variable by the cluster
    # responsibilities of the SAME state (current / proposed); that as-coded target is what is checked (see Energies.at)
    "hardcoded/mixture": "tiny",
}
KINDS = ["Gibbs", "FastGibbs", "Metropolis-Hastings"]
TINVS = [1.0, 0.5, 0.1]
EPS32 = 2.0 ** -23


# ----------------------------------------------------------------------------------------------
def _imports():
    warnings.filterwarnings("ignore")
    import leaspy.models  # noqa: F401  (must precede leaspy.variables)
    import torch
    import pandas as pd
    from leaspy.models import BaseModel
    from leaspy.io.data import Data, Dataset
    from leaspy.algo import AlgorithmSettings, algorithm_factory
    from leaspy.variables.state import State
    from leaspy.variables.specs import (IndividualLatentVariable, PopulationLatentVariable, NamedVariables,
                                        Hyperparameter, LinkedVariable)
    from leaspy.variables.dag import VariablesDAG
    from leaspy.variables.distributions import Normal
    from leaspy.variables.state import StateForkType
    from leaspy.samplers.gibbs import (PopulationGibbsSampler, PopulationFastGibbsSampler,
                                       PopulationMetropolisHastingsSampler, IndividualGibbsSampler)
    from leaspy.samplers import sampler_factory
    from leaspy.exceptions import LeaspyConvergenceError
    from leaspy.exceptions import LeaspyInputError, LeaspyAlgoInputError, LeaspyModelInputError, LeaspyDataInputError

    class Env:
        pass
    e = Env()
    for k, v in list(locals().items()):
        setattr(e, k, v)
    e.SAMPLERS = {"Gibbs": PopulationGibbsSampler, "FastGibbs": PopulationFastGibbsSampler,
                  "Metropolis-Hastings": PopulationMetropolisHastingsSampler}
    return e


def err_class(env, e):
    if isinstance(e, env.LeaspyAlgoInputError):
        return "err:algo"
    if isinstance(e, env.LeaspyDataInputError):
        return "err:data"
    if isinstance(e, env.LeaspyModelInputError):
        return "err:model"
    if isinstance(e, env.LeaspyInputError):
        return "err:input"
    return f"err:other:{type(e).__name__}"


def load_model_and_data(env, name, subset=None):
    pd = env.pd
    root = core.REPO / D_ROOT
    sub = name if "/" in name else f"from_fit/{name}"
    model = env.BaseModel.load(str(root / "model_parameters" / f"{sub}.json"))
    kind = MODELS[name]
    if kind.startswith("joint"):
        df = pd.read_csv(root / "data_mock" / "data_tiny_joint.csv", dtype={"ID": str}, sep=";")
        if kind.endswith("uni"):
            df = df.iloc[:, :5]
    elif kind == "binary":
        df = pd.read_csv(root / "data_mock" / "binary_data.csv", dtype={"ID": str})
    else:
        df = pd.read_csv(root / "data_mock" / "data_tiny.csv", dtype={"ID": str})
        if kind.endswith("uni"):
            df = df.iloc[:, :3]
    if subset is not None:
        ids = list(dict.fromkeys(df["ID"]))
        keep = [ids[i] for i in subset]
        df = df[df["ID"].isin(keep)]
    if kind.startswith("joint") and subset is not None:
        # a small cohort may contain no observed event: the reader then asks for the number of event types (as documented)
        data = env.Data.from_dataframe(df, data_type="joint", factory_kws={"nb_events": 1})
    else:
        data = env.Data.from_dataframe(df, data_type="joint") if kind.startswith("joint") else env.Data.from_dataframe(df)
    return model, env.Dataset(data)


def fresh_state(env, state):
    """A new State on the same DAG; every settable variable that is set is copied through the public API."""
    st = env.State(state.dag, auto_fork_type=None)
    for n, var in state.dag.items():
        if getattr(var, "is_settable", False) and state.is_variable_set(n):
            st[n] = state[n]
    return st


def tens(env, v):
    return v.weighted_value if hasattr(v, "weighted_value") else v


class Energies:
    """From-scratch evaluation of the nll terms for a given value of one latent variable."""

    def __init__(self, env, state, var):
        self.env = env
        self.var = var
        self.base = fresh_state(env, state)
        dag = state.dag
        self.pop_vars = list(dag.sorted_variables_by_type[env.PopulationLatentVariable])
        self.ind_vars = list(dag.sorted_variables_by_type[env.IndividualLatentVariable])

    def at(self, value):
        env, b = self.env, self.base
        b[self.var] = value
        out = {}
        out["A"] = tens(env, b["nll_attach"]).detach().clone()
        out["A_ind"] = tens(env, b["nll_attach_ind"]).detach().clone()
        out["R"] = {v: tens(env, b[f"nll_regul_{v}"]).detach().clone() for v in self.pop_vars + self.ind_vars}
        out["R_ind"] = {v: tens(env, b[f"nll_regul_{v}_ind"]).detach().clone() for v in self.ind_vars}
        tot = tens(env, b["nll_regul_ind_sum_ind"])
        if tot.ndim > 1:
            # models with clusters: per-cluster regularities, aggregated with the responsibilities of this very state
            probs = env.torch.nn.Softmax(dim=1)(env.torch.clamp(-tot.detach(), -100.))
            for v in self.ind_vars:
                r = out["R_ind"][v]
                if v == self.var and r.ndim == 2:
                    out["R_ind"][v] = (probs * r).sum(dim=1)
                else:
                    # the individual sampler of `var` only accounts for the sampled variable's own term
                    out["R_ind"][v] = env.torch.zeros(r.shape[0], dtype=r.dtype)
        return out


def f64(t):
    return t.detach().double()


class Recorder:
    """Call-through wrappers around torch.randn / torch.normal / torch.rand during one `sample` call."""

    def __init__(self, env, state, sampler, var, tinv, is_ind, inj_rng, inject=True):
        self.env, self.state, self.sampler, self.var, self.tinv = env, state, sampler, var, tinv
        self.is_ind = is_ind
        self.inj_rng = inj_rng
        self.inject = inject
        self.events = []
        self.en = Energies(env, state, var)
        self.last_cur = state[var].detach().clone()
        self.errors = []

    def __enter__(self):
        torch = self.env.torch
        self._orig = (torch.randn, torch.rand, torch.normal)
        o_randn, o_rand, o_normal = self._orig

        def randn(*a, **k):
            out = o_randn(*a, **k)
            if self.inject and out.numel() and self.inj_rng.random() < 0.2:
                # a draw far in the tail (|z| between 4.2 and 7: about one standard-normal draw in 10^5 and beyond): as legitimate
                # as any other, the proposal is still std * z
                out = out.clone()
                flat = out.reshape(-1)
                for _ in range(self.inj_rng.randrange(1, 3)):
                    flat[self.inj_rng.randrange(flat.numel())] = self.inj_rng.choice([-1.0, 1.0]) * self.inj_rng.uniform(4.2, 7.0)
                self.tail_draws = getattr(self, "tail_draws", 0) + 1
            self._on_normal(out)
            return out

        def normal(*a, **k):
            out = o_normal(*a, **k)
            self._on_normal(out)
            return out

        def rand(*a, **k):
            out = o_rand(*a, **k)
            return self._on_uniform(out)

        torch.randn, torch.rand, torch.normal = randn, rand, normal
        return self

    def __exit__(self, *exc):
        torch = self.env.torch
        torch.randn, torch.rand, torch.normal = self._orig
        return False

    def _on_normal(self, out):
        cur = self.state[self.var].detach().clone()
        self.last_cur = cur
        self.events.append({"t": "n", "z": out.detach().clone(), "cur": cur})

    def _alpha_doc(self, e_cur, e_prop):
        """alpha by the documented formula, in the implementation's dtypes (used to place injected draws)."""
        torch = self.env.torch
        if self.is_ind:
            nr, orr = e_prop["R_ind"][self.var], e_cur["R_ind"][self.var]
            na, oa = e_prop["A_ind"], e_cur["A_ind"]
        else:
            nr, orr = e_prop["R"][self.var], e_cur["R"][self.var]
            na, oa = e_prop["A"], e_cur["A"]
        return torch.exp(-1 * ((nr - orr) * self.tinv + (na - oa)))

    def _find_alpha(self, u):
        import sys
        torch = self.env.torch
        try:
            f = sys._getframe(3)  # _find_alpha <- _on_uniform <- rand wrapper <- caller of torch.rand
        except ValueError:
            return None
        for _ in range(3):
            if f is None:
                break
            a = f.f_locals.get("alpha")
            if isinstance(a, torch.Tensor) and a.numel() == u.numel() and a.shape == u.shape and a.is_floating_point():
                return a.detach().clone()
            f = f.f_back
        return None

    def _on_uniform(self, out):
        torch = self.env.torch
        prop = self.state[self.var].detach().clone()
        cur = self.last_cur
        try:
            e_cur, e_prop = self.en.at(cur), self.en.at(prop)
            alpha = self._alpha_doc(e_cur, e_prop)
        except Exception as e:  # noqa
            self.errors.append(f"energy evaluation failed: {type(e).__name__}: {e}")
            self.events.append({"t": "u", "u": out.detach().clone(), "prop": prop, "cur": cur, "bad": True})
            return out
        u = out.detach().clone()
        kinds = ["rec"] * u.numel()
        # the acceptance ratio the implementation is about to compare with, when it is visible as a local
        # tensor `alpha` of the frames that called torch.rand (used only to *place* exact ties; it is
        # validated against the from-scratch ratio in `judge`)
        alpha_obs = self._find_alpha(u)
        exact_ok = alpha_obs is not None
        if exact_ok:
            alpha = alpha_obs
        if self.inject and alpha.shape == u.shape:
            uf, af = u.reshape(-1), alpha.reshape(-1)
            one = torch.tensor(1.0, dtype=u.dtype)
            for i in range(uf.numel()):
                a = float(af[i])
                r = self.inj_rng
                if not math.isfinite(a):
                    continue
                if 1e-30 < a < 1.0:
                    k = r.choice(["rec", "rec", "rec", "tie", "below", "above", "lo3", "hi3", "lo2", "hi2"])
                elif a >= 1.0:
                    k = r.choice(["rec", "rec", "rec", "one"])
                else:
                    k = r.choice(["rec", "rec", "rec", "zero"])
                if k in ("tie", "below", "above", "zero") and not exact_ok:
                    k = r.choice(["lo3", "hi3"]) if 1e-30 < a < 1.0 else "rec"
                if k == "rec":
                    continue
                a32 = af[i].to(u.dtype)  # nearest value a uniform draw can take
                if k == "tie":
                    v = a32
                elif k == "below":
                    v = torch.nextafter(a32, torch.tensor(0.0, dtype=u.dtype))
                elif k == "above":
                    v = torch.nextafter(a32, one)
                elif k in ("lo3", "hi3", "lo2", "hi2"):
                    eps = 1e-3 if k.endswith("3") else 1e-2
                    v = torch.tensor(a * (1 - eps if k.startswith("lo") else 1 + eps), dtype=u.dtype)
                elif k == "one":
                    v = torch.nextafter(one, torch.tensor(0.0, dtype=u.dtype))
                else:
                    v = torch.tensor(0.0, dtype=u.dtype)
                if not (0.0 <= float(v) < 1.0):
                    continue
                uf[i] = v
                kinds[i] = k
        self.events.append({"t": "u", "u": u.detach().clone(), "raw": out.detach().clone(), "prop": prop, "cur": cur,
                            "e_cur": e_cur, "e_prop": e_prop, "alpha": alpha.detach().clone(), "kinds": kinds,
                            "alpha_observed": exact_ok})
        return u


# ----------------------------------------------------------------------------------------------
def bits_equal(env, a, b):
    torch = env.torch
    if a.shape != b.shape or a.dtype != b.dtype:
        return False
    return bool(torch.equal(a, b)) and bool(torch.equal(torch.signbit(a), torch.signbit(b)))


KIND_CODE = {"Gibbs": "G", "FastGibbs": "F", "Metropolis-Hastings": "M"}


def blocks_line(kind, shape, mask=None, order=None):
    """Request line for the driver: blocks of one sweep of `kind` on a variable of shape `shape`."""
    ln = f"blocks kind={KIND_CODE[kind]} shape={fmt_list(list(shape))}"
    if mask is not None:
        ln += f" mask={fmt_list([int(bool(b)) for b in mask])}"
    if order is not None:
        ln += f" order={fmt_list(list(order))}"
    return ln


def _ints(sx):
    return [int(x) for x in split_ne(sx)]


def parse_blocks(resp):
    """Parsed `blocks` / `indblocks` response (None when the driver refuses)."""
    bad_order = resp.startswith("err:order ")
    if bad_order:
        resp = resp[len("err:order "):]
    if resp.startswith("err") or resp == "bad-request":
        return None
    parts = dict(p.split("=", 1) for p in resp.split(" "))
    nb = int(parts["nb"])

    def l2(key, conv=_ints):
        return [conv(r) for r in parts[key].split(";")] if nb else []
    return {"bad_order": bad_order,
            "ctor": parts["ctor"], "stdshape": tuple(_ints(parts["stdshape"])), "n": int(parts["n"]), "nb": nb,
            "idx": [tuple(x) for x in l2("idx")], "zshape": [tuple(x) for x in l2("zshape")],
            "coords": [tuple(x) for x in l2("coords")], "std": _ints(parts["std"]) if nb else [],
            "keep": l2("keep", lambda r: None if r == "n" else [x == "1" for x in split_ne(r)]),
            "moved": [tuple(x) for x in l2("moved")], "nz": int(parts["nz"]), "nu": int(parts["nu"])}


class LeanBlocks:
    """Blocks of (kind, shape) as answered by the Lean model; one driver call for a family of shapes, a further
    call only for a shape outside it."""

    def __init__(self, chk):
        self.chk = chk
        self.table = {}

    def prefetch_lines(self, keys):
        self._pending = [k for k in keys if k not in self.table]
        return [blocks_line(k, sh) for (k, sh) in self._pending]

    def store(self, responses):
        for key, resp in zip(self._pending, responses):
            self.table[key] = parse_blocks(resp)
        self._pending = []

    def get(self, kind, shape):
        key = (kind, tuple(shape))
        if key not in self.table:
            self.chk.tag("lean_blocks_table", "extra-driver-call")
            self.table[key] = parse_blocks(self.chk.model([blocks_line(kind, shape)])[0])
        return self.table[key]


def default_table_keys():
    shapes = [(d,) for d in range(1, 13)] + [(r, c) for r in range(1, 13) for c in range(1, 7)]
    return [(k, sh) for k in KINDS for sh in shapes]


def expected_blocks(kind, shape, lean=None):
    """Index blocks (flat, row-major) of each sampler kind: the Lean model's answer (`Model/Blocks.lean`)."""
    b = lean.get(kind, shape)
    return None if b is None else [tuple(c) for c in b["coords"]]


def alpha64(dA, dR, tinv):
    d = dR * tinv + dA
    if math.isnan(d):
        return float("nan")
    if -d > 700:
        return float("inf")
    return math.exp(-d)


def band(a, dA, dR, tinv):
    if math.isinf(a):
        return 0.0
    return a * 8 * EPS32 * (abs(dR * tinv) + abs(dA) + 1.0)


def total_delta(e_cur, e_prop, j=None):
    """(ΔA, ΔR) in double; ΔR sums the change of *every* regularity term."""
    if j is None:
        dA = float(f64(e_prop["A"]) - f64(e_cur["A"]))
        dR = sum(float(f64(e_prop["R"][v]) - f64(e_cur["R"][v])) for v in e_cur["R"])
    else:
        dA = float(f64(e_prop["A_ind"])[j] - f64(e_cur["A_ind"])[j])
        dR = sum(float(f64(e_prop["R_ind"][v])[j] - f64(e_cur["R_ind"][v])[j]) for v in e_cur["R_ind"])
    return dA, dR


def judge(u, kind_inj, a_doc, dA, dR, tinv):
    """Expected decision for one uniform draw; returns (expected|None, tag)."""
    if not (math.isfinite(dA) and math.isfinite(dR)):
        # extended reals: D = +inf gives alpha = exp(-D) = 0 (no uniform draw of [0, 1) is below it), D = -inf gives
        # alpha = +inf (every draw is below it); inf - inf has no value and is counted only
        d = dR * tinv + dA
        if math.isnan(d):
            return None, "nonfinite"
        return (d < 0), "inf"
    a = alpha64(dA, dR, tinv)
    b = band(a, dA, dR, tinv)
    if kind_inj in ("tie", "below", "above", "zero", "one"):
        # exact comparison with alpha in the implementation's dtype (documented operation order),
        # provided that this alpha is the target ratio computed from scratch
        if a < 1e-36:
            # float32 underflow region: the implementation's alpha may be 0 or a denormal
            if a_doc > 2e-36:
                return None, "doc-alpha-mismatch"
            if kind_inj == "zero":
                return None, "underflow"
        elif not (abs(a_doc - a) <= b + 1e-300 or a_doc == a):
            return None, "doc-alpha-mismatch"
        return (u < a_doc), "exact"
    if abs(u - a) <= b:
        return None, "ambiguous"
    return (u < a), "plain"


# ----------------------------------------------------------------------------------------------
# spellings of the sampler kinds that `sampler_factory` documents as equivalent (case-insensitive, `_` for `-`)
SPELLINGS = {"Gibbs": ["Gibbs", "gibbs", "GIBBS"],
             "FastGibbs": ["FastGibbs", "fastgibbs", "FASTGIBBS"],
             "Metropolis-Hastings": ["Metropolis-Hastings", "metropolis-hastings", "Metropolis_Hastings", "METROPOLIS_HASTINGS"]}
WIDE_TINVS = [1.0, 0.5, 0.1, 1.0 / 3.0, 0.01, 0.999]
N_DATA = 17   # individuals in each of the test cohorts


def make_variant(model_name, kind, seed, wide):
    """Configuration of one set-up, a function of (model, kind, seed, wide) only (so that a replay rebuilds it).
    light (every set-up): the spelling of the sampler kind; wide: cohort of 1-3 individuals, samplers built by the
    personalisation algorithms (individual samplers only, start at the prior mode), sampler settings given through
    `sampler_pop_params` / `sampler_ind_params` (visiting order not shuffled, acceptance windows of 1-3 steps, other bands /
    factors), copy-on-fork State, individual latent values displaced by several prior standard deviations."""
    r = random.Random(f"C03:variant:{model_name}:{kind}:{seed}:{wide or 0}")
    v = {"spelling": r.choice(SPELLINGS[kind])}
    if not wide:
        return v
    n = 1 if wide == "one" else r.choice([None, 1, 2, 2, 3])
    if n is not None:
        v["subset"] = sorted(r.sample(range(N_DATA), n))
    # the mixture model is not supported by the sampling-based personalisation algorithms
    if kind == "Gibbs" and "/" not in model_name and r.random() < 0.5:
        v["entry"] = r.choice(["mean_posterior", "mode_posterior"])
    else:
        v["entry"] = "mcmc_saem"
    win = r.choice([1, 2, 3, 25])
    v["pop_params"] = {"random_order_dimension": r.random() < 0.5, "acceptation_history_length": win,
                       "mean_acceptation_rate_target_bounds": r.choice([[0.2, 0.4], [0.05, 0.7]]),
                       "adaptive_std_factor": r.choice([0.1, 0.5])}
    v["ind_params"] = {"acceptation_history_length": r.choice([1, 2, 3, 25]),
                       "mean_acceptation_rate_target_bounds": r.choice([[0.2, 0.4], [0.05, 0.7]]),
                       "adaptive_std_factor": r.choice([0.1, 0.5])}
    v["fork"] = r.choice(["REF", "REF", "COPY"])
    v["displace"] = r.random() < 0.5
    return v


class Setup:
    def __init__(self, env, model_name, kind, seed, variant=None):
        self.env, self.model_name, self.kind, self.seed = env, model_name, kind, seed
        v = self.variant = dict(variant or {})
        torch = env.torch
        torch.manual_seed(seed)
        random.seed(seed)
        self.model, self.dataset = load_model_and_data(env, model_name, subset=v.get("subset"))
        entry = v.get("entry", "mcmc_saem")
        kw = dict(n_iter=10, seed=seed, progress_bar=False)
        if entry == "mcmc_saem":
            kw["sampler_pop"] = v.get("spelling", kind)
            if v.get("pop_params"):
                kw["sampler_pop_params"] = dict(v["pop_params"])
        if v.get("ind_params"):
            kw["sampler_ind_params"] = dict(v["ind_params"])
        with core.quiet():
            self.algo = env.algorithm_factory(env.AlgorithmSettings(entry, **kw))
            torch.manual_seed(seed)
            random.seed(seed)
            self.state = self.algo._initialize_algo(self.model, self.dataset)
        if v.get("fork") == "COPY":
            self.state.auto_fork_type = env.StateForkType.COPY
        dag = self.state.dag
        self.pop_vars = [p for p in dag.sorted_variables_by_type[env.PopulationLatentVariable] if p in self.algo.samplers]
        self.ind_vars = list(dag.sorted_variables_by_type[env.IndividualLatentVariable])
        self.base_std = {k: s.std.clone() for k, s in self.algo.samplers.items()}

    def warm_up(self, n_sweeps, rng):
        names = sorted(self.algo.samplers)
        for _ in range(n_sweeps):
            rng.shuffle(names)
            for v in names:
                self.algo.samplers[v].sample(self.state, temperature_inv=1.0)

    def randomize_std(self, var, rng, klass="normal"):
        """`normal`: per-entry factor exp(U(-1.2, 1.2)) on the std the algorithm built; `huge`: x30 .. x1000 (absurd proposals:
        huge / infinite changes of the nll terms); `tiny`: x1e-3 .. x1e-1."""
        torch = self.env.torch
        s = self.algo.samplers[var]
        lo, hi = {"normal": (-1.2, 1.2), "huge": (math.log(30.0), math.log(1000.0)), "tiny": (math.log(1e-3), math.log(1e-1))}[klass]
        fac = torch.tensor([math.exp(rng.uniform(lo, hi)) for _ in range(max(1, s.std.numel()))],
                           dtype=s.std.dtype).reshape(s.std.shape)
        s.std = (self.base_std[var] * fac).clone()

    def displace(self, rng):
        """Individual latent values several prior standard deviations away from where the warm-up left them (public assignment)."""
        torch = self.env.torch
        with self.state.auto_fork(None):
            for v in self.ind_vars:
                cur = self.state[v].detach()
                amp = {"tau": 25.0, "xi": 3.0}.get(v, 4.0)
                noise = torch.tensor([rng.uniform(-amp, amp) for _ in range(cur.numel())], dtype=cur.dtype).reshape(cur.shape)
                self.state[v] = cur + noise


def observe(chk, su: Setup, var, tinv, inj_rng, inject=True):
    """One real `sample` call under observation. Returns the record (python floats/lists) or an error tag."""
    env = su.env
    torch = env.torch
    sampler = su.algo.samplers[var]
    is_ind = var in su.ind_vars
    std = sampler.std.detach().clone()
    start = su.state[var].detach().clone()
    rec = Recorder(env, su.state, sampler, var, tinv, is_ind, inj_rng, inject=inject)
    try:
        with rec:
            sampler.sample(su.state, temperature_inv=tinv)
    except Exception as e:  # noqa
        return {"error": err_class(env, e), "msg": str(e)[:200]}
    final = su.state[var].detach().clone()
    hist = sampler.acceptation_history[-1].detach().clone() if hasattr(sampler, "acceptation_history") else None
    return {"is_ind": is_ind, "std": std, "start": start, "final": final, "events": rec.events, "hist": hist,
            "errors": rec.errors, "shape": tuple(start.shape), "dtype": str(start.dtype).replace("torch.", "")}


def fl(t):
    return [float(x) for x in t.detach().double().reshape(-1)]


def get_lean(chk):
    if getattr(chk, "_lean_blocks", None) is None:
        chk._lean_blocks = LeanBlocks(chk)
    return chk._lean_blocks


def partition_predicate(steps, movable, chk=None, degenerate=False):
    """steps: [(current flat value, proposed flat value)] of one sweep, in visiting order; movable: the set of flat
    coordinates the sweep is supposed to move (all of them without a mask).  The changed sets must be pairwise
    disjoint, inside `movable`, and cover it.  `degenerate`: the caller saw a proposal too small to be visible
    (fewer coordinates changed than normals drawn, or a draw below 1e-4): coverage is then counted, not judged."""
    fails, seen = [], set()
    for k, (cur, prop) in enumerate(steps):
        ch = {i for i, (a, b) in enumerate(zip(cur, prop)) if a != b}
        if ch - movable:
            fails.append(f"step {k}: the proposal moves flat coordinates {sorted(ch - movable)[:6]} which must not move (masked / not of the variable)")
        if seen & ch:
            fails.append(f"step {k}: flat coordinates {sorted(seen & ch)[:6]} are perturbed a second time in the same sweep "
                         "(the blocks must partition the coordinates of the variable)")
            break
        seen |= ch
    if not fails and seen != movable:
        if degenerate:
            if chk is not None:
                chk.tag("degenerate", "partition-coverage-not-judged")
        else:
            fails.append(f"flat coordinates {sorted(movable - seen)[:6]} are never perturbed during the sweep "
                         "(every coordinate must belong to exactly one block)")
    return fails


def analyse_pop(chk, case, su, var, tinv, ob, lines, expect):
    """Property predicate on a population sampler call + request lines for the model."""
    env = su.env
    torch = env.torch
    fails = []
    shape = ob["shape"]
    lb = get_lean(chk).get(su.kind, shape)
    if lb is None or lb["ctor"] != "ok":
        chk.disagree(case, f"a {su.kind} sampler exists for shape {shape}", None if lb is None else lb["ctor"],
                     "the Lean model refuses a variable shape that the real algorithm samples")
        return fails, 0
    blocks_expected = [tuple(c) for c in lb["coords"]]       # the Lean model's blocks (Model/Blocks.lean)
    std_of = dict(zip(blocks_expected, lb["std"]))
    zshape_of = dict(zip(blocks_expected, lb["zshape"]))
    std = ob["std"]
    if tuple(std.shape) != lb["stdshape"]:
        chk.disagree(case, tuple(std.shape), lb["stdshape"], "shape of the sampler's std")
        return fails, 0
    ev = ob["events"]
    # group events into steps: normals* then one uniform
    steps, cur_n = [], []
    for e in ev:
        if e["t"] == "n":
            cur_n.append(e)
        else:
            steps.append((cur_n, e))
            cur_n = []
    if cur_n:
        fails.append(f"{len(cur_n)} normal draw call(s) not followed by a decision draw")
    # the property's own predicate, without any table: the proposals of one sweep move pairwise disjoint sets of
    # coordinates which together are all the coordinates of the variable
    pairs = [(fl(ue_["cur"]), fl(ue_["prop"])) for _, ue_ in steps]
    degen = any(sum(a != b for a, b in zip(c_, p_)) < sum(e["z"].numel() for e in ns_) for (ns_, _), (c_, p_) in zip(steps, pairs))
    fails += partition_predicate(pairs, set(range(ob["start"].numel())), chk, degenerate=degen)
    n_dec = len(blocks_expected)
    if len(steps) != n_dec:
        fails.append(f"{len(steps)} uniform draw call(s) for {n_dec} block decisions of {su.kind} on shape {shape} "
                     "(a uniform must be consumed for every decision)")
        return fails, 0
    if ob["errors"]:
        return fails + ob["errors"][:1], 0
    visited = []
    seg = None  # current model segment
    nontrivial = 0
    for k, (ns, ue) in enumerate(steps):
        if ue["u"].numel() != 1:
            fails.append(f"step {k}: {ue['u'].numel()} uniforms drawn for one block decision")
            return fails, nontrivial
        cur, prop = ue["cur"], ue["prop"]
        z = torch.cat([e["z"].reshape(-1) for e in ns]) if ns else torch.zeros(0)
        if k + 1 == len(steps):
            post = ob["final"]
        elif steps[k + 1][0]:
            post = steps[k + 1][0][0]["cur"]  # value read at the first normal draw of the next block
        else:
            post = None
        if ns and not bits_equal(env, ns[0]["cur"], cur):
            fails.append(f"step {k}: value changed between normal draws")
        changed = [i for i, (a, b) in enumerate(zip(fl(cur), fl(prop))) if a != b]
        cands = [b for b in blocks_expected if set(changed) <= set(b)]
        cands = [b for b in cands if len(b) == z.numel()] or cands
        if not changed or not cands:
            if not changed:
                chk.tag("degenerate", "proposal-equal-to-current")
                return fails, nontrivial
            fails.append(f"step {k}: proposal changes flat positions {changed}, not inside one {su.kind} block of shape {shape}")
            return fails, nontrivial
        block = cands[0]
        if block in visited:
            fails.append(f"step {k}: block {block} visited twice in one sweep")
        visited.append(block)
        if z.numel() != len(block):
            fails.append(f"step {k}: {z.numel()} normal draws for a block of {len(block)} entries")
            return fails, nontrivial
        if len(ns) == 1 and tuple(ns[0]["z"].shape) != zshape_of[block]:
            chk.disagree(case, tuple(ns[0]["z"].shape), zshape_of[block], f"step {k}: shape of the normal draw of block {block}")
        # std entry of the block: the one the Lean model names
        sb = std.reshape(-1)[std_of[block]]
        change = torch.zeros(cur.numel(), dtype=z.dtype)
        change[list(block)] = sb * z
        want = (cur.reshape(-1) + change).reshape(cur.shape)
        if not bits_equal(env, want, prop):
            bad = [i for i, (a, b) in enumerate(zip(fl(want), fl(prop))) if a != b]
            fails.append(f"step {k}: proposed value is not current + std[block]*z on block {block} (differs at flat {bad[:4]}; "
                         f"zero-mean Gaussian perturbation of only the targeted block)")
            return fails, nontrivial
        # decision
        dA, dR = total_delta(ue["e_cur"], ue["e_prop"])
        u = float(ue["u"].reshape(-1)[0])
        a_doc = float(ue["alpha"].reshape(-1)[0])
        inj = ue["kinds"][0]
        exp_dec, tag = judge(u, inj, a_doc, dA, dR, tinv)
        chk.tag("decision_kind", f"{inj}/{tag}")
        # implementation's decision from the value after the step
        acc = None
        if post is not None:
            pb, cb, ob_ = fl(prop), fl(cur), fl(post)
            is_prop = all(ob_[i] == pb[i] for i in block)
            is_cur = all(ob_[i] == cb[i] for i in block)
            if is_prop and not is_cur:
                acc = True
            elif is_cur and not is_prop:
                acc = False
            elif not is_prop and not is_cur:
                fails.append(f"step {k}: after the decision block {block} holds neither the proposed nor the previous value")
                return fails, nontrivial
        if tag == "doc-alpha-mismatch":
            fails.append(f"step {k}: exp(-(dR*tinv+dA)) from scratch = {alpha64(dA, dR, tinv)!r} but the sampler's own-term formula gives "
                         f"{a_doc!r}: a term that depends on the block is missing from (or foreign to) the ratio")
        if exp_dec is not None and acc is not None:
            a = alpha64(dA, dR, tinv)
            if 0 < a < 1:
                nontrivial += 1
            if acc != exp_dec:
                fails.append(f"step {k} block {block} tinv={tinv}: u={u!r} alpha=exp(-(dR*tinv+dA))={a!r} (dA={dA!r}, dR={dR!r}, draw kind {inj}) "
                             f"=> {'accept' if exp_dec else 'reject'} expected, implementation {'accepted' if acc else 'rejected'}")
        if ob["hist"] is not None and acc is not None and ob["hist"].numel() == len(blocks_expected):
            # position of the block inside the acceptation history = position of its std entry
            hi = std_of[block]
            if bool(ob["hist"].reshape(-1)[hi] != 0) != acc:
                fails.append(f"step {k}: acceptation history says {bool(ob['hist'].reshape(-1)[hi] != 0)} but the value says {acc}")
        # model segment bookkeeping
        if seg is None:
            seg = {"cur": fl(cur), "blocks": [], "std": [], "z": [], "u": [], "dA": [], "dR": [], "props": [], "acc": [], "k0": k}
        seg["blocks"].append(block)
        seg["std"].append(float(sb))
        seg["z"] += fl(z)
        seg["u"].append(u)
        seg["dA"].append(dA)
        seg["dR"].append(dR)
        seg["props"].append(fl(prop))
        seg["acc"].append(acc)
        if exp_dec is None or tag in ("exact", "inf") or acc is None:
            # the double-precision model cannot take this decision reliably: close the segment here
            seg["last_open"] = True
            flush_pop_segment(case, ob, tinv, seg, lines, expect)
            if tag == "exact":
                lines.append(f"alpha u={fmt_float(u)} a={fmt_float(a_doc)}")
                expect.append(("alpha", case, {"k": k, "acc": acc, "u": u, "a": a_doc}))
            seg = None
    if seg is not None:
        seg["last_open"] = False
        flush_pop_segment(case, ob, tinv, seg, lines, expect)
    if sorted(visited) != sorted(blocks_expected):
        fails.append(f"blocks visited {sorted(visited)} are not the {su.kind} blocks {blocks_expected} of the Lean model")
    elif (su.variant.get("pop_params") or {}).get("random_order_dimension") is False and visited != blocks_expected:
        fails.append(f"sampler_pop_params random_order_dimension=False, but the blocks are visited in the order {visited[:6]} "
                     f"instead of the iterator's order {blocks_expected[:6]}")
    return fails, nontrivial


def flush_pop_segment(case, ob, tinv, seg, lines, expect):
    dt = "64" if ob["dtype"] == "float64" else "32"
    extra_z, extra_u = [0.25, -1.5], [0.75]
    lines.append(
        f"pop dt={dt} tinv={fmt_float(tinv)} cur={fmt_list(seg['cur'], fmt_float)} "
        f"blocks={fmt_list2(seg['blocks'])} std={fmt_list(seg['std'], fmt_float)} "
        f"z={fmt_list(seg['z'] + extra_z, fmt_float)} u={fmt_list(seg['u'] + extra_u, fmt_float)} "
        f"dA={fmt_list(seg['dA'], fmt_float)} dR={fmt_list(seg['dR'], fmt_float)}")
    expect.append(("pop", case, seg))


def analyse_ind(chk, case, su, var, tinv, ob, lines, expect):
    env = su.env
    torch = env.torch
    fails = []
    shape = ob["shape"]  # (n, *var_shape)
    n = shape[0]
    d = 1
    for s in shape[1:]:
        d *= s
    ev = ob["events"]
    ns = [e for e in ev if e["t"] == "n"]
    us = [e for e in ev if e["t"] == "u"]
    nz = sum(e["z"].numel() for e in ns)
    nu = sum(e["u"].numel() for e in us)
    if nu != n:
        fails.append(f"{nu} uniform draws for {n} individual decisions (a uniform must be consumed for every decision)")
    if nz != n * d:
        fails.append(f"{nz} normal draws for {n} individuals x {d} coordinates")
    if fails or len(us) != 1 or ob["errors"]:
        return fails + ob["errors"][:1], 0
    ue = us[0]
    if any(ev.index(e) > ev.index(ue) for e in ns):
        fails.append("normal draws after the decision draw")
        return fails, 0
    cur, prop, final = ue["cur"], ue["prop"], ob["final"]
    z = torch.cat([e["z"].reshape(-1) for e in ns]).reshape(n, d)
    std = ob["std"].reshape(-1)
    if std.numel() != n:
        fails.append(f"std has {std.numel()} entries for {n} individuals")
        return fails, 0
    want = (cur.reshape(n, d) + (std[:, None] * z)).reshape(cur.shape)
    if not bits_equal(env, want, prop):
        bad = [j for j in range(n) if not bits_equal(env, want[j], prop[j])]
        fails.append(f"proposed rows {bad[:5]} are not current + std[j]*z[j] (own std, own draws by position)")
        return fails, 0
    e_cur, e_prop = ue["e_cur"], ue["e_prop"]
    a_doc = ue["alpha"].reshape(-1)
    uu = ue["u"].reshape(-1)
    accs, dAs, dRs, skip = [], [], [], []
    nontrivial = 0
    for j in range(n):
        dA, dR = total_delta(e_cur, e_prop, j)
        u = float(uu[j])
        inj = ue["kinds"][j]
        exp_dec, tag = judge(u, inj, float(a_doc[j]), dA, dR, tinv)
        chk.tag("decision_kind", f"{inj}/{tag}")
        is_prop = bits_equal(env, final[j], prop[j])
        is_cur = bits_equal(env, final[j], cur[j])
        acc = True if (is_prop and not is_cur) else (False if (is_cur and not is_prop) else None)
        if not is_prop and not is_cur:
            fails.append(f"individual {j}: final row is neither the proposed nor the previous one")
        if tag == "doc-alpha-mismatch":
            fails.append(f"individual {j}: exp(-(dR*tinv+dA)) from scratch = {alpha64(dA, dR, tinv)!r} but the sampler's own-term formula gives "
                         f"{float(a_doc[j])!r}: a term that depends on the individual's row is missing from (or foreign to) the ratio")
        if exp_dec is not None and acc is not None:
            a = alpha64(dA, dR, tinv)
            if 0 < a < 1:
                nontrivial += 1
            if acc != exp_dec:
                fails.append(f"individual {j} tinv={tinv}: u={u!r} alpha=exp(-(dR*tinv+dA))={a!r} (dA={dA!r}, dR={dR!r}, draw kind {inj}) "
                             f"=> {'accept' if exp_dec else 'reject'} expected, implementation {'accepted' if acc else 'rejected'}")
        if ob["hist"] is not None and acc is not None and ob["hist"].numel() == n:
            if bool(ob["hist"].reshape(-1)[j] != 0) != acc:
                fails.append(f"individual {j}: acceptation history says {bool(ob['hist'].reshape(-1)[j] != 0)} but the value says {acc}")
        accs.append(acc)
        dAs.append(dA)
        dRs.append(dR)
        skip.append(exp_dec is None or tag == "exact" or acc is None or not (math.isfinite(dA) and math.isfinite(dR)))
        if tag == "exact":
            lines.append(f"alpha u={fmt_float(u)} a={fmt_float(float(a_doc[j]))}")
            expect.append(("alpha", case, {"k": j, "acc": acc, "u": u, "a": float(a_doc[j])}))
    dt = "64" if ob["dtype"] == "float64" else "32"
    safe = [0.0 if not math.isfinite(x) else x for x in dAs], [0.0 if not math.isfinite(x) else x for x in dRs]
    lines.append(
        f"ind dt={dt} tinv={fmt_float(tinv)} d={d} cur={fmt_list2([fl(cur[j]) for j in range(n)], fmt_float)} "
        f"std={fmt_list(fl(std), fmt_float)} z={fmt_list(fl(z) + [0.5], fmt_float)} u={fmt_list(fl(uu) + [0.5, 0.25], fmt_float)} "
        f"dA={fmt_list(safe[0], fmt_float)} dR={fmt_list(safe[1], fmt_float)}")
    expect.append(("ind", case, {"acc": accs, "skip": skip, "prop": [fl(prop[j]) for j in range(n)],
                                 "cur": [fl(cur[j]) for j in range(n)], "n": n, "d": d}))
    return fails, nontrivial


def compare_model(chk, lines, expect):
    out = chk.model(lines)
    for resp, (kind, case, info) in zip(out, expect):
        if resp.startswith("err") or resp == "bad-request":
            chk.disagree(case, "ran", resp, f"model refuses the {kind} request")
            continue
        try:
            if kind == "alpha":
                m = resp.strip() == "1"
                if info["acc"] is not None and m != info["acc"]:
                    chk.disagree(case, info["acc"], m, f"exact decision u={info['u']!r} vs alpha={info['a']!r} (entry {info['k']})")
                continue
            parts = dict(p.split("=", 1) for p in resp.split(" "))
            acc = [x == "1" for x in split_ne(parts["acc"])]
            if kind == "pop":
                seg = info
                nb = len(seg["blocks"])
                if int(parts["usedz"]) != len(seg["z"]) or int(parts["usedu"]) != nb:
                    chk.disagree(case, (len(seg["z"]), nb), (parts["usedz"], parts["usedu"]), "draws consumed (normals, uniforms)")
                props = [[parse_float(x) for x in split_ne(r)] for r in parts["props"].split(";")]
                for i in range(nb):
                    if [fmt_float(x) for x in props[i]] != [fmt_float(x) for x in seg["props"][i]]:
                        chk.disagree(case, seg["props"][i], props[i], f"proposed value at step {seg['k0'] + i} (bitwise)")
                        break
                    last = (i == nb - 1)
                    if last and seg["last_open"]:
                        continue
                    if seg["acc"][i] is not None and acc[i] != seg["acc"][i]:
                        chk.disagree(case, seg["acc"][i], acc[i], f"decision at step {seg['k0'] + i}")
                        break
            else:
                n = info["n"]
                if int(parts["usedz"]) != n * info["d"] or int(parts["usedu"]) != n:
                    chk.disagree(case, (n * info["d"], n), (parts["usedz"], parts["usedu"]), "draws consumed (normals, uniforms)")
                vals = [[parse_float(x) for x in split_ne(r)] for r in parts["val"].split(";")]
                for j in range(n):
                    if info["skip"][j]:
                        continue
                    if acc[j] != info["acc"][j]:
                        chk.disagree(case, info["acc"][j], acc[j], f"decision of individual {j}")
                        break
                    want = info["prop"][j] if info["acc"][j] else info["cur"][j]
                    if [fmt_float(x) for x in vals[j]] != [fmt_float(x) for x in want]:
                        chk.disagree(case, want, vals[j], f"new row of individual {j} (bitwise)")
                        break
        except Exception as e:  # noqa
            chk.disagree(case, "?", resp[:200], f"unparsable model response ({type(e).__name__})")


# ----------------------------------------------------------------------------------------------
# blocks of a sweep on toy variables of arbitrary shape (real sampler classes, real State)
# ----------------------------------------------------------------------------------------------
def numel_of(shape):
    n = 1
    for d in shape:
        n *= d
    return n


def ctor_class(env, e):
    if isinstance(e, IndexError):
        return "err:index"
    if isinstance(e, NotImplementedError):
        return "err:notimpl"
    if isinstance(e, env.LeaspyModelInputError):
        return "err:model"
    return f"err:other:{type(e).__name__}"


def toy_scale(env, kind, shape):
    """The `scale` argument in the containers the constructor documents (float or tensor) and near relatives."""
    torch = env.torch
    if kind == "int":
        return 1
    if kind == "tensor0":
        return torch.tensor(1.0)
    if kind == "full":
        return torch.ones(tuple(shape))
    if kind == "double":
        return torch.ones(tuple(shape), dtype=torch.float64)
    return 1.0


def toy_state(env, x0, w0, fork="REF"):
    """A real State on a real DAG: population latent `x` (any shape), individual latent `w` (n, *shape), normal
    priors, quadratic attachment per individual."""
    torch = env.torch
    n = w0.shape[0]
    nv = env.NamedVariables({
        "x_mean": env.Hyperparameter(torch.zeros(tuple(x0.shape))),
        "x_std": env.Hyperparameter(torch.tensor(1.0)),
        "x": env.PopulationLatentVariable(env.Normal("x_mean", "x_std")),
        "w_mean": env.Hyperparameter(torch.zeros(tuple(w0.shape[1:]))),
        "w_std": env.Hyperparameter(torch.ones(tuple(w0.shape[1:]))),
        "w": env.IndividualLatentVariable(env.Normal("w_mean", "w_std")),
        "nll_attach_ind": env.LinkedVariable(
            lambda *, x, w: ((w - 0.3) ** 2).reshape(w.shape[0], -1).sum(dim=1) + ((x - 0.3) ** 2).sum() / w.shape[0]),
        "nll_attach": env.LinkedVariable(lambda *, nll_attach_ind: nll_attach_ind.sum()),
    })
    st = env.State(env.VariablesDAG.from_dict(nv), auto_fork_type=getattr(env.StateForkType, fork))
    st["x"] = x0.clone()
    st["w"] = w0.clone()
    assert n == st["w"].shape[0]
    return st


class DrawTap:
    """Call-through wrappers around torch.randn / torch.normal / torch.rand recording every result together with the
    value of one state variable at that moment."""

    def __init__(self, env, read):
        self.env, self.read, self.events = env, read, []

    def __enter__(self):
        torch = self.env.torch
        self._orig = (torch.randn, torch.rand, torch.normal)
        o_randn, o_rand, o_normal = self._orig

        def randn(*a, **k):
            out = o_randn(*a, **k)
            self.events.append(("n", out.detach().clone(), self.read()))
            return out

        def normal(*a, **k):
            out = o_normal(*a, **k)
            self.events.append(("n", out.detach().clone(), self.read()))
            return out

        def rand(*a, **k):
            out = o_rand(*a, **k)
            self.events.append(("u", out.detach().clone(), self.read()))
            return out

        torch.randn, torch.rand, torch.normal = randn, rand, normal
        return self

    def __exit__(self, *exc):
        torch = self.env.torch
        torch.randn, torch.rand, torch.normal = self._orig
        return False


def signed_values(torch, shape, g):
    """values with |v| in [0.5, 2): any visible change is a change of bits, no zero whose sign could flip"""
    v = 0.5 + 1.5 * torch.rand(shape, generator=g)
    return torch.where(torch.rand(shape, generator=g) < 0.5, -v, v)


def blocks_case(chk, env, spec, lines, expect):
    """One real population sampler on a toy variable: constructor outcome, iterator, one observed `sample` call."""
    torch = env.torch
    kind, shape, mask, seed = spec["sampler_pop"], tuple(spec["shape"]), spec.get("mask"), spec["seed"]
    shuffle = spec.get("shuffle", True)
    case = dict(spec, kind="blocks")
    n = numel_of(shape)
    cls = env.SAMPLERS[kind]
    mask_t = None if mask is None else torch.tensor(mask, dtype=torch.bool).reshape(shape)
    key = ("blocks", kind, shape, None if mask is None else tuple(mask), seed, shuffle, spec.get("via"), spec.get("scale_kind"), spec.get("fork"))
    tags = {"sampler": f"blocks-{kind}", "shape_kind": f"{len(shape)}-d" + ("+mask" if mask is not None else "")}
    smp, ctor = None, "ok"
    scale_kind, fork, via = spec.get("scale_kind", "float"), spec.get("fork", "REF"), spec.get("via")

    def build(**kw):
        scale = toy_scale(env, scale_kind, shape)
        if via is None:
            return cls("x", shape, scale=scale, random_order_dimension=shuffle, **kw)
        # the documented factory, the kind given by name (any documented spelling)
        return env.sampler_factory(via, env.PopulationLatentVariable, name="x", shape=shape, scale=scale,
                                   random_order_dimension=shuffle, **kw)
    try:
        with core.quiet():
            smp = build(**({} if mask is None else {"mask": mask_t}))
    except Exception as e:  # noqa
        ctor = ctor_class(env, e)
    if smp is None and ctor == "err:notimpl" and mask is not None:
        # the constructor refuses a mask; the mask branches of the methods are reached through the attribute
        try:
            smp = build()
            smp.mask = mask_t
        except Exception as e:  # noqa
            smp = None
    if smp is not None and type(smp) is not cls:
        chk.impl_failure(case, f"sampler_factory({via!r}, PopulationLatentVariable, ...) returned a {type(smp).__name__}, not a {cls.__name__}")
    info = {"ctor": ctor, "obs": None}
    if smp is None:
        lines.append(blocks_line(kind, shape, mask))
        expect.append(("blocks", case, info))
        chk.case(key, nontrivial=False, tags=dict(tags, outcome=ctor))
        return
    fails = []
    g = torch.Generator().manual_seed(seed)
    std_shape = tuple(smp.std.shape)
    smp.std = (0.05 + 0.45 * torch.rand(std_shape, generator=g)).float()
    x0 = signed_values(torch, shape, g)
    w0 = signed_values(torch, (2, 1), g)
    visited = []
    try:
        canon = [tuple(int(v) for v in i) for i in smp._get_iterator_indices()]
        state = toy_state(env, x0, w0, fork)
        orig = smp._get_shuffled_iterator_indices

        def tapped():
            out = orig()
            visited.append([tuple(int(v) for v in i) for i in out])
            return out
        smp._get_shuffled_iterator_indices = tapped
        random.seed(seed)
        torch.manual_seed(seed)
        with core.quiet(), DrawTap(env, lambda: state["x"].detach().clone()) as tap:
            smp.sample(state, temperature_inv=1.0)
        final = state["x"].detach().clone()
        hist = smp.acceptation_history[-1].detach().clone()
    except Exception as e:  # noqa
        chk.impl_failure(case, f"sample() of a {kind} sampler on a toy variable of shape {shape} raised {err_class(env, e)}: {str(e)[:160]}")
        chk.case(key, nontrivial=False, tags=dict(tags, outcome="raised"))
        return
    # steps = normal draws followed by one decision draw
    steps, cur_n = [], []
    for ev in tap.events:
        if ev[0] == "n":
            cur_n.append(ev)
        else:
            steps.append((cur_n, ev))
            cur_n = []
    if cur_n:
        fails.append(f"{len(cur_n)} normal draw call(s) not followed by a decision draw")
    if len(visited) != 1:
        fails.append(f"the shuffled iterator was asked {len(visited)} times during one sweep")
    order = None
    if visited:
        if sorted(visited[0]) != sorted(canon):
            fails.append(f"the shuffled iterator {visited[0]} is not a permutation of the iterator {canon}")
        elif not shuffle and visited[0] != canon:
            fails.append(f"random_order_dimension=False but the iterator {canon} is visited as {visited[0]}")
        else:
            order = [canon.index(i) for i in visited[0]]
        if len(steps) != len(visited[0]):
            fails.append(f"{len(steps)} uniform draw(s) for {len(visited[0])} iterator elements (one decision draw per element)")
    if any(u.numel() != 1 for _, (_, u, _) in steps):
        fails.append("a decision of a population sampler drew more than one uniform")
    movable = set(range(n)) if mask is None else {i for i in range(n) if mask[i]}
    zs_all = [float(v) for ns, _ in steps for (_, z, _) in ns for v in z.reshape(-1)]
    degenerate = any(abs(v) < 1e-4 for v in zs_all)
    pairs = [(fl(ns[0][2]) if ns else fl(ue[2]), fl(ue[2])) for ns, ue in steps]
    fails += partition_predicate(pairs, movable, chk, degenerate=degenerate)
    for k, ((ns, _), (c_, p_)) in enumerate(zip(steps, pairs)):
        nch, nzk = sum(a != b for a, b in zip(c_, p_)), sum(z.numel() for (_, z, _) in ns)
        if nzk < nch:
            fails.append(f"step {k}: {nch} coordinates are moved with {nzk} normal draw(s): the perturbations of distinct coordinates "
                         "are not separate Gaussian draws")
            break
    bad = [i for i in range(n) if i not in movable and not bits_equal(env, final.reshape(-1)[i], x0.reshape(-1)[i])]
    if bad:
        fails.append(f"masked flat coordinates {bad[:6]} differ after the sweep")
    for f in fails[:3]:
        chk.impl_failure(case, f)
    info["obs"] = {"canon": canon, "order": order, "std": smp.std.detach().clone(), "std_shape": std_shape, "n": n,
                   "steps": [{"z": [z for (_, z, _) in ns], "cur": (ns[0][2] if ns else ue[2]), "prop": ue[2]} for ns, ue in steps],
                   "visited": visited[0] if visited else None, "degenerate": degenerate,
                   "hist_shape": tuple(hist.shape)}
    lines.append(blocks_line(kind, shape, mask, order))
    expect.append(("blocks", case, info))
    chk.case(key, nontrivial=(len(steps) > 0 and n > 0), tags=dict(tags, outcome="ok" if not fails else "fail"),
             sample=(dict(case, visited=[list(i) for i in (visited[0] if visited else [])][:6]) if len(chk.samples) < 6 and mask is not None and n > 2 else None))


def indblocks_case(chk, env, spec, lines, expect):
    """The real individual sampler on a toy individual variable of shape (n, *shape)."""
    torch = env.torch
    n, shape, seed = spec["n"], tuple(spec["shape"]), spec["seed"]
    case = dict(spec, kind="indblocks")
    d = numel_of(shape)
    key = ("indblocks", n, shape, seed, spec.get("via"), spec.get("scale_kind"), spec.get("fork"))
    tags = {"sampler": "blocks-ind", "shape_kind": f"ind-{len(shape)}-d"}
    g = torch.Generator().manual_seed(seed)
    try:
        with core.quiet():
            scale = toy_scale(env, spec.get("scale_kind", "float"), shape)
            if spec.get("via") is None:
                smp = env.IndividualGibbsSampler("w", shape, n_patients=n, scale=scale)
            else:
                smp = env.sampler_factory(spec["via"], env.IndividualLatentVariable, name="w", shape=shape, n_patients=n, scale=scale)
        if type(smp) is not env.IndividualGibbsSampler:
            chk.impl_failure(case, f"sampler_factory({spec.get('via')!r}, IndividualLatentVariable, ...) returned a {type(smp).__name__}")
        std_shape = tuple(smp.std.shape)
        smp.std = (0.05 + 0.45 * torch.rand(std_shape, generator=g)).float()
        w0 = signed_values(torch, (n, *shape), g)
        state = toy_state(env, signed_values(torch, (2,), g), w0, spec.get("fork", "REF"))
        random.seed(seed)
        torch.manual_seed(seed)
        with core.quiet(), DrawTap(env, lambda: state["w"].detach().clone()) as tap:
            smp.sample(state, temperature_inv=1.0)
    except Exception as e:  # noqa
        chk.impl_failure(case, f"individual sampler on a toy variable of shape ({n}, *{shape}) raised {err_class(env, e)}: {str(e)[:160]}")
        chk.case(key, nontrivial=False, tags=dict(tags, outcome="raised"))
        return
    fails = []
    ns = [e for e in tap.events if e[0] == "n"]
    us = [e for e in tap.events if e[0] == "u"]
    nz, nu = sum(e[1].numel() for e in ns), sum(e[1].numel() for e in us)
    if nu != n:
        fails.append(f"{nu} uniform draws for {n} individual decisions (a uniform must be consumed for every decision)")
    if nz != n * d:
        fails.append(f"{nz} normal draws for {n} individuals x {d} coordinates")
    if ns and us and not fails:
        cur, prop = ns[0][2], us[0][2]
        zs_all = [float(v) for e in ns for v in e[1].reshape(-1)]
        fails += partition_predicate([(fl(cur), fl(prop))], set(range(n * d)), chk, degenerate=any(abs(v) < 1e-4 for v in zs_all))
    for f in fails[:3]:
        chk.impl_failure(case, f)
    obs = None
    if ns and us:
        obs = {"std": smp.std.detach().clone(), "std_shape": std_shape, "n": n * d, "z": [e[1] for e in ns],
               "cur": ns[0][2], "prop": us[0][2], "nz": nz, "nu": nu}
    lines.append(f"indblocks n={n} shape={fmt_list(list(shape))}")
    expect.append(("indblocks", case, {"ctor": "ok", "obs": obs}))
    chk.case(key, nontrivial=(n * d > 0), tags=dict(tags, outcome="ok" if not fails else "fail"))


def apply_block(env, cur, std, z_flat, coords, std_idx, keep):
    """current + change of one block as the Lean model describes it, in the implementation's float32 operations"""
    torch = env.torch
    want = cur.reshape(-1).clone()
    chg = std.reshape(-1)[std_idx] * z_flat
    if keep is not None:
        chg = chg * torch.tensor(keep, dtype=torch.bool).float()
    if len(coords):
        want[list(coords)] = want[list(coords)] + chg
    return want.reshape(cur.shape)


def compare_blocks(chk, env, responses, expect):
    torch = env.torch
    for resp, (kind, case, info) in zip(responses, expect):
        lb = None
        try:
            lb = parse_blocks(resp)
        except Exception as e:  # noqa
            chk.disagree(case, "?", resp[:200], f"unparsable model response ({type(e).__name__})")
            continue
        if lb is None:
            chk.disagree(case, "ran", resp, f"model refuses the {kind} request")
            continue
        if lb["ctor"] != info["ctor"]:
            chk.disagree(case, info["ctor"], lb["ctor"], "outcome of the sampler's constructor")
            continue
        ob = info["obs"]
        if ob is None:
            continue
        if kind == "blocks":
            # the blocks a sweep moves, whatever the order: the Lean model's blocks are the reference of the property
            # ("one coordinate, one row, the whole population variable": gibbs_blocks_singletons, fastGibbs_blocks_rows,
            # mh_one_block), so a different family of blocks is a failure of the implementation on this input
            moved_impl = sorted(tuple(i for i, (a, b) in enumerate(zip(fl(st["cur"]), fl(st["prop"]))) if a != b) for st in ob["steps"])
            if not ob["degenerate"] and moved_impl != sorted(lb["moved"]):
                chk.impl_failure(case, f"one {case['sampler_pop']} sweep on a variable of shape {tuple(case['shape'])}"
                                       f"{' with mask ' + str(case['mask']) if case.get('mask') is not None else ''} perturbs the blocks "
                                       f"{moved_impl}; the blocks of that sampler are {sorted(lb['moved'])} (Model/Blocks.lean)")
                continue
        if tuple(ob["std_shape"]) != lb["stdshape"]:
            chk.disagree(case, ob["std_shape"], lb["stdshape"], "shape of std (shape_adapted_std)")
            continue
        if ob["n"] != lb["n"]:
            chk.disagree(case, ob["n"], lb["n"], "number of entries of the variable")
            continue
        if kind == "indblocks":
            z = torch.cat([t.reshape(-1) for t in ob["z"]])
            if (ob["nz"], ob["nu"]) != (lb["nz"], lb["nb"]):
                chk.disagree(case, (ob["nz"], ob["nu"]), (lb["nz"], lb["nb"]), "draws of one individual step (normals, uniforms)")
                continue
            if len(ob["z"]) != 1 or tuple(ob["z"][0].shape) != tuple(ob["cur"].shape):
                chk.disagree(case, [tuple(t.shape) for t in ob["z"]], tuple(ob["cur"].shape), "shape of the single normal draw (n_patients, *shape)")
                continue
            want = ob["cur"]
            for coords, si in zip(lb["coords"], lb["std"]):
                want = apply_block(env, want, ob["std"], z[list(coords)] if len(coords) else z[:0], coords, si, None)
            if not bits_equal(env, want, ob["prop"]):
                bad = [i for i, (a, b) in enumerate(zip(fl(want), fl(ob["prop"]))) if a != b]
                chk.disagree(case, fl(ob["prop"])[:8], fl(want)[:8], f"proposed rows: own std entry on own coordinates (differs at flat {bad[:4]})")
            continue
        steps = ob["steps"]
        if ob["order"] is None or lb["bad_order"]:
            # the implementation's iterator is not the model's (or its visiting order is not a permutation of it)
            chk.disagree(case, ob["canon"], sorted(lb["idx"]), "iterator indices (unshuffled)")
            continue
        if ob["visited"] != lb["idx"]:
            chk.disagree(case, ob["visited"], lb["idx"], "iterator indices (in visiting order)")
            continue
        if len(steps) != lb["nb"] or sum(t.numel() for st in steps for t in st["z"]) != lb["nz"]:
            chk.disagree(case, (sum(t.numel() for st in steps for t in st["z"]), len(steps)), (lb["nz"], lb["nu"]),
                         "draws of one sweep (normals, uniforms)")
            continue
        if ob["hist_shape"] != lb["stdshape"]:
            chk.disagree(case, ob["hist_shape"], lb["stdshape"], "shape of one row of the acceptation history")
        for k, st in enumerate(steps):
            zsh = [tuple(t.shape) for t in st["z"]]
            if zsh != [lb["zshape"][k]]:
                chk.disagree(case, zsh, [lb["zshape"][k]], f"step {k} (idx {lb['idx'][k]}): shape of the normal draw")
                break
            z = st["z"][0].reshape(-1)
            want = apply_block(env, st["cur"], ob["std"], z, lb["coords"][k], lb["std"][k], lb["keep"][k])
            if not bits_equal(env, want, st["prop"]):
                bad = [i for i, (a, b) in enumerate(zip(fl(want), fl(st["prop"]))) if a != b]
                chk.disagree(case, fl(st["prop"])[:8], fl(want)[:8],
                             f"step {k} (idx {lb['idx'][k]}): proposed value = current + std[{lb['std'][k]}]*z on coordinates {list(lb['coords'][k])}"
                             f"{' times the mask' if lb['keep'][k] is not None else ''} (differs at flat {bad[:4]})")
                break
            changed = tuple(i for i, (a, b) in enumerate(zip(fl(st["cur"]), fl(st["prop"]))) if a != b)
            if not ob["degenerate"] and changed != lb["moved"][k]:
                chk.disagree(case, changed, lb["moved"][k], f"step {k}: coordinates moved by the proposal")
                break


def synthetic_specs(rng, tier):
    specs = []
    fixed = [(), (1,), (3,), (1, 1), (1, 4), (4, 1), (2, 3), (0,), (2, 0), (0, 2), (2, 2, 2)]
    for kind in KINDS:
        for sh in fixed:
            specs.append({"kind": "blocks", "sampler_pop": kind, "shape": list(sh), "mask": None,
                          "seed": rng.randrange(1, 10 ** 6), "shuffle": True})
    for _ in range(45 if tier == "quick" else 300):
        kind = rng.choice(KINDS)
        sh = (rng.randint(1, 7),) if rng.random() < 0.35 else (rng.randint(1, 5), rng.randint(1, 5))
        n = numel_of(sh)
        mask = None
        if rng.random() < 0.5:
            style = rng.choice(["rand", "rand", "rand", "ones", "zeros", "row"])
            if style == "ones":
                mask = [1] * n
            elif style == "zeros":
                mask = [0] * n
            else:
                mask = [int(rng.random() < 0.6) for _ in range(n)]
                if style == "row" and len(sh) == 2:
                    r = rng.randrange(sh[0])
                    for c in range(sh[1]):
                        mask[r * sh[1] + c] = 0
        specs.append(dict({"kind": "blocks", "sampler_pop": kind, "shape": list(sh), "mask": mask,
                           "seed": rng.randrange(1, 10 ** 6), "shuffle": rng.random() < 0.85}, **toy_config(rng, kind)))
    ind = [(3, ()), (2, (1,)), (4, (3,)), (3, (2, 2)), (1, (2,)), (2, (1, 1))]
    for _ in range(6 if tier == "quick" else 40):
        nd = rng.choice([0, 1, 1, 2])
        ind.append((rng.randint(1, 6), tuple(rng.randint(1, 4) for _ in range(nd))))
    for k, (n, sh) in enumerate(ind):
        specs.append(dict({"kind": "indblocks", "n": n, "shape": list(sh), "seed": rng.randrange(1, 10 ** 6)},
                          **(toy_config(rng, "Gibbs") if k >= 3 else {})))
    return specs


def toy_config(rng, kind):
    """How a toy sampler is obtained and used: class constructor or `sampler_factory` with a spelling of the kind; `scale` as float,
    int, 0-d tensor, tensor of the variable's shape (float32 / float64); State forking by reference or by copy."""
    return {"via": rng.choice([None, None] + SPELLINGS[kind]),
            "scale_kind": rng.choice(["float", "float", "int", "tensor0", "full", "double"]),
            "fork": rng.choice(["REF", "REF", "COPY"])}


def run_synthetic(chk, env, specs, lines, expect):
    for spec in specs:
        if spec["kind"] == "blocks":
            blocks_case(chk, env, spec, lines, expect)
        else:
            indblocks_case(chk, env, spec, lines, expect)


# ----------------------------------------------------------------------------------------------
REFUSALS = ("err:model", "err:other:ValueError")


def run_setup(chk, env, model_name, kind, seed, tier, lines, expect, wide=False):
    """All observed calls for one (model, population sampler kind); deterministic given (seed, tier, wide)."""
    rng = random.Random(f"C03:{model_name}:{kind}:{seed}" + (f":{wide}" if wide else ""))
    base_case = {"model": model_name, "sampler_pop": kind, "setup_seed": seed, "tier": tier}
    variant = make_variant(model_name, kind, seed, wide)
    if wide:
        base_case.update(wide=wide, variant=variant)
    else:
        base_case["spelling"] = variant["spelling"]
    try:
        with core.quiet():
            su = Setup(env, model_name, kind, seed, variant)
            su.warm_up(12 if tier == "quick" else 25, rng)
            if variant.get("displace"):
                su.displace(rng)
    except Exception as e:  # noqa
        chk.impl_failure(base_case, f"sampler set-up / warm-up sweeps failed: {err_class(env, e)}: {str(e)[:200]}")
        return
    # the samplers the algorithm built: one per latent variable it samples, named after it, of the variable's shape, of the kind asked for
    want_cls = env.SAMPLERS[kind]
    for v_, smp in su.algo.samplers.items():
        shp = tuple(su.state[v_].shape)
        exp_shape = shp[1:] if v_ in su.ind_vars else shp
        if tuple(smp.shape) != exp_shape or smp.name != v_:
            chk.impl_failure(base_case, f"sampler registered for {v_} has name {smp.name!r} / shape {tuple(smp.shape)}, variable shape is {exp_shape}")
        if v_ in su.pop_vars and type(smp) is not want_cls:
            chk.impl_failure(base_case, f"sampler_pop={variant['spelling']!r}: the sampler built for {v_} is a {type(smp).__name__}, not a {want_cls.__name__}")
        if v_ in su.ind_vars and type(smp) is not env.IndividualGibbsSampler:
            chk.impl_failure(base_case, f"the sampler built for the individual variable {v_} is a {type(smp).__name__}")
    do_ind = (kind == "Gibbs") or tier == "thorough" or wide
    tinvs = list(TINVS)
    if tier == "thorough":
        tinvs.append(1.0 / rng.uniform(1.0, 12.0))
    else:
        # one further inverse temperature of (0, 1] per set-up: not dyadic, next to 1, next to 0, or 1/T for a random T
        tinvs.append(rng.choice(WIDE_TINVS[3:] + [1.0 / rng.uniform(1.0, 100.0)]))
    reps = 1 if tier == "quick" else 2
    call = 0
    for rep in range(reps):
        for tinv in tinvs:
            names = list(su.pop_vars) + (list(su.ind_vars) if do_ind else [])
            rng.shuffle(names)
            for var in names:
                call += 1
                case = dict(base_case, var=var, tinv=tinv, call=call)
                klass = "normal"
                if wide:
                    klass = rng.choice(["normal"] * 6 + ["huge"] * 3 + ["tiny"])
                    case["std_class"] = klass
                su.randomize_std(var, rng, klass)
                start = su.state[var].detach().clone()
                with core.quiet():
                    ob = observe(chk, su, var, tinv, rng, inject=(rng.random() < 0.8))
                if "error" in ob:
                    if klass == "huge" and ob["error"] in REFUSALS:
                        # an absurd proposal (std x30 .. x1000) that the model / torch's argument validation refuses to evaluate:
                        # counted; the step is abandoned and the value put back through the public interface
                        chk.tag("refused_absurd_proposal", ob["error"])
                        try:
                            su.state.revert()
                        except Exception:  # noqa
                            pass
                        with su.state.auto_fork(None):
                            su.state[var] = start
                        chk.case((model_name, kind, var, tinv, seed, call, wide), nontrivial=False, tags={"outcome": "refused"})
                        continue
                    chk.impl_failure(case, f"sample() raised {ob['error']}: {ob['msg']}")
                    chk.case((model_name, kind, var, tinv, call, wide), nontrivial=False, tags={"outcome": ob["error"]})
                    continue
                if ob["is_ind"]:
                    fails, nt = analyse_ind(chk, case, su, var, tinv, ob, lines, expect)
                else:
                    fails, nt = analyse_pop(chk, case, su, var, tinv, ob, lines, expect)
                for f in fails[:3]:
                    chk.impl_failure(case, f)
                sample = None
                if len(chk.samples) < 4 and nt > 0 and rng.random() < 0.2:
                    ue = [e for e in ob["events"] if e["t"] == "u"][0]
                    sample = dict(case, std=fl(ob["std"])[:4], first_u=fl(ue["u"])[:3], first_alpha=fl(ue["alpha"])[:3],
                                  draw_kinds=ue["kinds"][:3])
                tags = {"model": model_name, "sampler": "ind-Gibbs" if ob["is_ind"] else kind,
                        "tinv": round(tinv, 3), "dtype": ob["dtype"], "outcome": "ok" if not fails else "fail"}
                if wide:
                    tags.update(std_class=klass, cohort=len(su.dataset.indices), entry=variant["entry"], fork=variant["fork"],
                                displaced=bool(variant.get("displace")))
                chk.case((model_name, kind, var, tinv, seed, call, wide), nontrivial=(nt > 0), sample=sample, tags=tags)
                chk.tag("decisions_nontrivial", "count", nt)


def iteration_case(chk, env, model_name, kind, seed, tinv):
    """algo_with_samplers / mcmc_saem `_iteration`: every latent variable is sampled exactly once per iteration,
    on the algorithm's state, with the algorithm's current inverse temperature."""
    case = {"kind": "iteration", "model": model_name, "sampler_pop": kind, "setup_seed": seed, "tinv": tinv}
    try:
        with core.quiet():
            su = Setup(env, model_name, kind, seed)
            su.algo.temperature_inv = tinv
            su.algo.temperature = 1.0 / tinv
            calls = []
            for v, smp in su.algo.samplers.items():
                def w(state, *, temperature_inv, _o=smp.sample, _v=v):
                    calls.append((_v, float(temperature_inv), state is su.state))
                    return _o(state, temperature_inv=temperature_inv)
                smp.sample = w
            su.algo.current_iteration = 1
            su.algo._iteration(su.model, su.state)
    except Exception as e:  # noqa
        chk.impl_failure(case, f"one MCMC-SAEM iteration failed: {err_class(env, e)}: {str(e)[:200]}")
        return
    want = sorted(su.pop_vars + su.ind_vars)
    if sorted(c[0] for c in calls) != want:
        chk.impl_failure(case, f"samplers called for {sorted(c[0] for c in calls)} in one iteration, latent variables are {want}")
    bad = [c for c in calls if c[1] != tinv or not c[2]]
    if bad:
        chk.impl_failure(case, f"sampler of {bad[0][0]} called with temperature_inv={bad[0][1]!r} (algorithm's value {tinv!r}) / on another state")
    for v, smp in su.algo.samplers.items():
        shp = tuple(su.state[v].shape)
        exp_shape = shp[1:] if v in su.ind_vars else shp
        if tuple(smp.shape) != exp_shape or smp.name != v:
            chk.impl_failure(case, f"sampler registered for {v} has name {smp.name!r} / shape {tuple(smp.shape)}, variable shape is {exp_shape}")
    chk.case(("iteration", model_name, kind, seed, tinv), nontrivial=True, tags={"sampler": "iteration", "model": model_name})


def public_run_case(chk, env, model_name, entry, seed):
    """Through the public entry point `algorithm.run` (what `model.fit` / `model.personalize` call) with annealing on: every
    sampling step of the short run is observed (call-through wrapper on the sampler classes' `sample`): it must receive the
    inverse temperature the algorithm holds at that moment, a number of (0, 1] equal to 1 / temperature, and every latent
    variable the algorithm samples must be visited exactly once per iteration."""
    r = random.Random(f"C03:run:{model_name}:{entry}:{seed}")
    n_iter = r.choice([6, 8, 9])
    ann = {"do_annealing": True, "initial_temperature": r.choice([3, 10, 40]), "n_plateau": r.choice([2, 3, 4]),
           "n_iter": n_iter - r.choice([0, 1, 2])}
    kind = r.choice(KINDS)
    fit = entry == "mcmc_saem"
    subset = None if fit else sorted(r.sample(range(N_DATA), r.choice([1, 2, 4])))
    case = {"kind": "public-run", "model": model_name, "entry": entry, "setup_seed": seed, "n_iter": n_iter, "annealing": ann,
            "sampler_pop": kind if fit else None, "subset": subset}
    calls = []
    classes = list(env.SAMPLERS.values()) + [env.IndividualGibbsSampler]
    origs = {c: c.__dict__.get("sample") for c in classes}
    try:
        model, dataset = load_model_and_data(env, model_name, subset=subset)
        kw = dict(n_iter=n_iter, seed=seed, progress_bar=False, annealing=ann)
        if fit:
            kw["sampler_pop"] = kind
        algo = env.algorithm_factory(env.AlgorithmSettings(entry, **kw))

        def wrap(c):
            o = c.sample

            def sample(self, state, *, temperature_inv):
                calls.append((algo.current_iteration, self.name, temperature_inv, algo.temperature_inv, algo.temperature))
                return o(self, state, temperature_inv=temperature_inv)
            return sample
        wrapped = {c: wrap(c) for c in classes}
        for c in classes:
            c.sample = wrapped[c]
        try:
            with core.quiet():
                algo.run(model, dataset)
        finally:
            for c in classes:
                if origs[c] is None:
                    del c.sample
                else:
                    c.sample = origs[c]
    except env.LeaspyConvergenceError:
        chk.tag("public_run", "fit_did_not_converge")
        chk.case(("public-run", model_name, entry, seed), nontrivial=False, tags={"sampler": "public-run", "outcome": "no-convergence"})
        return
    except Exception as e:  # noqa
        chk.impl_failure(case, f"a {n_iter}-iteration annealed {entry} run failed: {err_class(env, e)}: {str(e)[:200]}")
        chk.case(("public-run", model_name, entry, seed), nontrivial=False, tags={"sampler": "public-run", "outcome": "error"})
        return
    dag = model.dag
    want = sorted((list(dag.sorted_variables_by_type[env.PopulationLatentVariable]) if fit else [])
                  + list(dag.sorted_variables_by_type[env.IndividualLatentVariable]))
    fails = []
    for k in range(1, n_iter + 1):
        got = sorted(c[1] for c in calls if c[0] == k)
        if got != want:
            fails.append(f"iteration {k}: sampling steps for {got}, the latent variables to sample are {want}")
            break
    if len(calls) != n_iter * len(want) and not fails:
        fails.append(f"{len(calls)} sampling steps in {n_iter} iterations over {len(want)} latent variables")
    for (k, name, tinv, a_tinv, a_temp) in calls:
        if not (isinstance(tinv, (int, float)) and 0 < tinv <= 1):
            fails.append(f"iteration {k}: sampler of {name} called with temperature_inv={tinv!r}, not a number of (0, 1]")
            break
        if tinv != a_tinv or abs(tinv * a_temp - 1.0) > 1e-12:
            fails.append(f"iteration {k}: sampler of {name} called with temperature_inv={tinv!r} while the algorithm's temperature is "
                         f"{a_temp!r} (inverse {a_tinv!r})")
            break
    for f in fails[:3]:
        chk.impl_failure(case, f)
    distinct = len({c[2] for c in calls})
    chk.case(("public-run", model_name, entry, seed), nontrivial=(distinct >= 2),
             tags={"sampler": "public-run", "model": model_name, "entry": entry, "outcome": "ok" if not fails else "fail"})


def run(chk: core.Check):
    env = _imports()
    chk.rule = ("block cases: one real sampler object on a toy variable (shapes (), (d,), (r,c) incl. extents 0 and 1, 3-D; "
                "random 0/1 masks incl. all-0, all-1 and a fully masked row; shuffled or not), constructor outcome + one observed "
                "sweep, non-trivial when a sweep with at least one entry was observed; distinct by (kind, shape, mask, seed). "
                "Step cases: one case = one real sampler.sample(state, temperature_inv) call under observation, on a fitted model after warm-up "
                "sweeps, with randomised per-entry std; all population sampler kinds x every latent variable x tinv in {1, .5, .1} "
                "(+ a random 1/T in the thorough tier); ~55% of the uniform draws handed to the sampler are chosen adversarially "
                "(exact tie u=alpha, float neighbours of alpha, alpha(1+-1e-3), alpha(1+-1e-2), 0, 1-ulp). A case is non-trivial when "
                "at least one non-ambiguous decision has 0 < alpha < 1; distinct by (model, sampler kind, variable, tinv, seed, call index). "
                "Every set-up spells the sampler kind in one of the documented equivalent ways and adds one inverse temperature out of "
                "{1/3, 0.01, 0.999, 1/T with T in [1, 100]}. Wide set-ups (every model kind: one on a single individual, one free): cohort of "
                "1-3 individuals or all 17, samplers built by mcmc_saem or by mean_/mode_posterior (start at the prior mode), sampler settings "
                "through sampler_pop_params / sampler_ind_params (unshuffled visiting order, acceptance windows 1-3, other bands / factors), "
                "State forking by copy, individual latent values displaced by up to 25 years / 3 / 4 (tau / xi / sources), proposal scale "
                "x30-x1000 (infinite changes of the nll terms are judged in the extended reals: D=+inf never accepted, D=-inf always; a "
                "proposal the model refuses to evaluate is counted) or x1e-3-x1e-1. Toy samplers are obtained from the class or from "
                "sampler_factory (any spelling), scale as float / int / 0-d / full-shape float32 / float64 tensor, State forking by reference or copy. "
                "Public runs: annealed 6-9 iteration runs of mcmc_saem / mean_posterior / mode_posterior through algorithm.run, every "
                "sampling step observed (temperature_inv handed over = the algorithm's 1/T in (0, 1], each latent variable once per iteration).")
    models = list(MODELS)
    lines, expect = [], []
    # 1. blocks of a sweep: real sampler classes on toy variables of arbitrary shape vs Model/Blocks.lean, and the
    #    table of blocks (Lean's answer) used below to analyse the sweeps on the fitted models
    corpus = core.load_corpus(PROP)
    blines, bexpect = [], []
    run_synthetic(chk, env, [c for c in corpus if c.get("kind") in ("blocks", "indblocks")] + synthetic_specs(chk.rng, chk.tier),
                  blines, bexpect)
    lean = get_lean(chk)
    tlines = lean.prefetch_lines(default_table_keys())
    out = chk.model(tlines + blines)
    lean.store(out[:len(tlines)])
    compare_blocks(chk, env, out[len(tlines):], bexpect)
    # 2. sampling steps on fitted models
    for c in corpus:
        if c.get("kind") in ("blocks", "indblocks"):
            continue
        run_setup(chk, env, c["model"], c["sampler_pop"], c["setup_seed"], c.get("tier", "quick"), lines, expect, wide=c.get("wide") or False)
    if chk.tier == "quick":
        # every model with Gibbs (incl. individual variables); the two other kinds on a rotating subset
        plan = [(m, "Gibbs") for m in MODELS]
        others = [(m, k) for m in MODELS for k in KINDS[1:]]
        chk.rng.shuffle(others)
        plan += others[:10]
    else:
        plan = [(m, k) for m in models for k in KINDS]
    for (m, k) in plan:
        seed = chk.rng.randrange(1, 10 ** 6)
        run_setup(chk, env, m, k, seed, chk.tier, lines, expect)
    # 3. wide set-ups: small cohorts, samplers of the personalisation algorithms, sampler settings, copy-on-fork State, displaced
    #    individuals, absurd / tiny proposal scales (see make_variant)
    #    every model kind: one set-up on a single individual, one (thorough: four) with a free configuration
    for m in models:
        for w in (["one", "free"] if chk.tier == "quick" else ["one", "free", "free", "free", "free"]):
            run_setup(chk, env, m, chk.rng.choice(["Gibbs", "Gibbs"] + KINDS), chk.rng.randrange(1, 10 ** 6),
                      chk.tier, lines, expect, wide=w)
    for _ in range(2 if chk.tier == "quick" else 8):
        iteration_case(chk, env, chk.rng.choice(models), chk.rng.choice(KINDS), chk.rng.randrange(1, 10 ** 6),
                       chk.rng.choice([1.0, 0.5, 0.1, 0.25]))
    # 4. whole annealed runs through the public entry point
    plain = [m for m in models if "/" not in m]
    for entry in (["mcmc_saem", "mean_posterior", "mode_posterior"] if chk.tier == "quick" else
                  ["mcmc_saem", "mean_posterior", "mode_posterior"] * 4):
        public_run_case(chk, env, chk.rng.choice(models if entry == "mcmc_saem" else plain), entry, chk.rng.randrange(1, 10 ** 6))
    compare_model(chk, lines, expect)
    chk.exhaustive = False


def replay(chk: core.Check, payload):
    env = _imports()
    case = payload.get("case") or (payload.get("disagreements") or [{}])[0].get("case")
    if not case:
        chk.note("replay file has no case")
        return
    lines, expect = [], []
    if case.get("kind") == "iteration":
        iteration_case(chk, env, case["model"], case["sampler_pop"], case["setup_seed"], case["tinv"])
        return
    if case.get("kind") == "public-run":
        public_run_case(chk, env, case["model"], case["entry"], case["setup_seed"])
        return
    if case.get("kind") in ("blocks", "indblocks"):
        spec = {k: v for k, v in case.items() if k != "visited"}
        run_synthetic(chk, env, [spec], lines, expect)
        compare_blocks(chk, env, chk.model(lines), expect)
        return
    run_setup(chk, env, case["model"], case["sampler_pop"], case["setup_seed"], case.get("tier", "quick"), lines, expect,
              wide=case.get("wide") or False)
    compare_model(chk, lines, expect)
