"""C13 — estimate, personalize and simulate leave the model and caller inputs untouched.

Footprints (second half of this file, recorder in footprint_c13.py): during every estimate / personalize / simulate call of
every history, wrappers on `State` and on the model object record each event that can change a state or the model
(assignments, uncached reads, reverts, clones, mode switches, re-binding of `model.state`, attribute writes, in-place
tensor writes seen through `_version` counters). The recorded history of each call is decided by `Model/Footprint.lean`
through `drivers/C13.lean` (`touchesOriginal`, `writesOriginal`, `analyse`, `verdict`): estimate / scipy_minimize / simulate
must not write to the original state at all; mean / mode posterior (which do run on `model.state`) must end with the model
bound to a state holding the protected variables of the original and no data / individual value. What the theorems
conclude from a passing verdict is compared with the real objects (same tensor objects / cache only grown / digests); a
footprint that does not pass triggers a search for an observable consequence (extended snapshots, later calls against a
copy taken before the call).

Random call histories over {fit, estimate, personalize x3 algorithms, simulate, save, load} on one object per model
kind. Around every call: deep snapshots of `model.state._values`, parameters, hyperparameters, the DataFrame / Data /
timepoints / individual parameters passed in and `AlgorithmSettings.parameters`; the value returned is compared
with the value the same call returns on a freshly loaded copy. The per-call pattern (leftovers present, result
equal on the copy, protected part changed) is compared with `Model/Api.lean` part (c) through `drivers/C13.lean`.
"""
from __future__ import annotations

import copy
import json
import os
import shutil
import tempfile

from . import core
from . import api_common as A
from . import footprint_c13 as F
from .core import fmt_list

PROP = "C13"
LEAN = dict(
    props="LeaspyVerif.Props.C13",
    driver="drivers/C13.lean",
    harness="c13_purity.py",
    extra_modules=["LeaspyVerif.Model.Api", "LeaspyVerif.Model.Footprint"],
    theorems=["estimate_pure", "personalize_preserves_core", "simulate_preserves_core", "no_residual_added",
              "no_residual_added_none", "core_preserved_history", "result_independent_of_residual",
              "result_same_on_fresh_copy", "result_independent_of_residual_shipped_counterexample",
              "result_independent_of_residual_shipped_partial",
              "footprint_frame", "footprint_pure", "footprint_reads_only", "footprint_reads_refine", "clone_isolated",
              "footprint_core_preserved", "footprint_no_residual", "footprint_refines_api",
              "footprint_history_refines_api", "footprint_history_preserves", "footprint_pure_counterexample",
              "untouching_footprint_keeps_leftovers_counterexample"],
    trusted_extra=[
        "the footprint recorder (harness/footprint_c13.py) sees every event that can change a State or the model object: wrappers on State.__setitem__/__getitem__/revert/clone/precompute_all/clear/auto_fork_type/to_device/(un)track_variable and on the model's __setattr__, version counters of every tensor held by the original state; checked on every call by comparing what the theorems conclude from the recorded history with the real objects (same tensor objects, cache only grown, digests of the protected variables), and by the deep snapshots",
        "what a call READS (the dependence of its result on what it is given) is still the transcription of Model/Api.lean part (c), validated by comparing every result with the same call on a freshly loaded copy; the footprint discharges the WRITE side only",
        "numerical kernels (SAEM, Gibbs samplers, scipy minimize, trajectories, simulation) are uninterpreted functions of what they are given",
        "purity of caller inputs (DataFrame, Data, timepoints, individual parameters, AlgorithmSettings.parameters) is observed by fingerprints on the real objects, not modelled",
    ],
    assumptions=["histories start with a fit (an uninitialised model refuses the other calls)",
                 "mixture_logistic is left out: mean/mode posterior personalisation aborts on the mock cohort with an unrelated RuntimeError",
                 "the table output of estimate (to_dataframe=True / MultiIndex ages) is not requested from the joint model inside histories: it is "
                 "refused with a pandas ValueError (finding F101, probed on every run)",
                 "integer identifiers are refused by the personalisation algorithms (AssertionError / LeaspyIndividualParamsInputError): "
                 "cohorts use string identifiers"],
)

KIND_CONFIGS = [
    # key, factory name, cohort, hyperparameters
    ("logistic-src", "logistic", "multi", dict(source_dimension=2)),
    ("logistic-scalar-nosrc", "logistic", "multi", dict(source_dimension=0, obs_models="gaussian-scalar")),
    ("linear", "linear", "multi", dict(source_dimension=1)),
    ("shared-speed", "shared_speed_logistic", "multi", dict(source_dimension=1)),
    ("logistic-univariate", "logistic", "uni", dict(dimension=1)),
    ("joint", "joint", "joint", dict(source_dimension=1)),
    ("logistic-diag", "logistic", "multi", dict(dimension=3, source_dimension=1, obs_models="gaussian-diagonal")),
]
# simulate accepts the logistic model only; every configuration of it (sources or none, one noise level or one per feature,
# a single feature) takes another path through the generation of individual parameters and of the noise
SIM_KINDS = ("logistic-src", "logistic-scalar-nosrc", "logistic-univariate", "logistic-diag")
OPS = ["fit", "est", "mean", "mode", "scipy", "sim", "save", "load"]
READ_ONLY = ("est", "mean", "mode", "scipy", "sim")
MCMC = ("mean", "mode")


def gen_sequence(rng, key, length):
    ops = ["fit"]
    saved = False
    fits = 1
    while len(ops) < length:
        weights = {"fit": 1.0 if fits < 3 else 0.0, "est": 2, "mean": 1.5, "mode": 1.5, "scipy": 2.5,
                   "sim": 1.5 if key == "logistic-src" else (1.0 if key in SIM_KINDS else 0.0), "save": 1.0,
                   "load": 1.5 if saved else 0.0}
        r = rng.random() * sum(weights.values())
        for op, w in weights.items():
            r -= w
            if r < 0:
                break
        ops.append(op)
        saved = saved or op == "save"
        fits += op == "fit"
    if key in SIM_KINDS and "sim" not in ops:
        ops.append("sim")
    return ops


class Harness:
    def __init__(self, chk, E, key, tmp, case_seed):
        import random
        self.chk, self.E, self.key, self.tmp = chk, E, key, tmp
        self.rng = random.Random(case_seed)
        self.rng2 = random.Random(case_seed * 7919 + 13)      # decisions added later (keeps the older stream as it was)
        cfg = {k[0]: k for k in KIND_CONFIGS}[key]
        _, self.kind, self.which, self.hyp = cfg
        n_ind = 6 if self.which == "joint" else None
        self.df, self.data = A.cohort(self.which, n_ind=n_ind)
        self.holes = self.rng2.random() < 0.35
        if self.holes:
            # a quarter of the observations missing (the mock cohorts are complete): the readers, the per-individual slices and the
            # masked likelihood terms then work on nan / padded entries of the caller's objects
            cols = A.feature_columns(self.df)
            hole = [[self.rng2.random() < 0.25 for _ in cols] for _ in range(len(self.df))]
            df = self.df.copy()
            df[cols] = df[cols].mask(E.np.array(hole))
            df = df[~df[cols].isna().all(axis=1)]
            try:
                data = E.Data.from_dataframe(df, data_type="joint") if self.which == "joint" else E.Data.from_dataframe(df)
                if len(set(df.index.get_level_values("ID"))) == len(set(self.df.index.get_level_values("ID"))):
                    self.df, self.data = df, data
                else:
                    self.holes = False
            except Exception:  # noqa
                self.holes = False
        chk.tag("cohort_with_missing_values", self.holes)
        self.ids = list(dict.fromkeys(self.df.index.get_level_values("ID")))
        self.model = E.model_factory(self.kind, **self.hyp)
        self.path = os.path.join(tmp, f"{key}.json")
        self.settings_cache = {}
        self.double_params = False

    # ---- inputs ----
    def sub_cohort(self, n):
        """random sub-cohort in cohort order; re-drawn when the reader refuses it (joint data without any event)"""
        last = None
        for _ in range(20):
            ids = self.rng.sample(self.ids, min(n, len(self.ids)))
            ids = [i for i in self.ids if i in ids]     # cohort order
            df = self.df[self.df.index.get_level_values("ID").isin(ids)].copy()
            try:
                if self.which == "joint":
                    data = self.E.Data.from_dataframe(df, data_type="joint")
                else:
                    data = self.E.Data.from_dataframe(df)
                return df, data
            except Exception as e:  # noqa
                last = e
        return self.df.copy(), self.data

    def as_df(self):
        """pass the table itself (visit data only: a joint cohort needs `Data.from_dataframe(..., data_type="joint")`)"""
        return self.which != "joint" and self.rng.random() < 0.5

    def settings(self, algo, seed):
        """one AlgorithmSettings object per (algorithm, seed), reused across the history"""
        k = (algo, seed)
        if k not in self.settings_cache:
            kws = dict(seed=seed, progress_bar=False)
            if algo in ("mean_posterior", "mode_posterior"):
                kws["n_iter"] = 12
            if algo == "mcmc_saem":
                kws["n_iter"] = 6
                kws["n_burn_in_iter"] = 2
            if algo in ("mean_posterior", "mode_posterior", "mcmc_saem") and self.rng.random() < 0.5:
                # nested settings that the algorithm completes for itself (annealing.n_iter is derived from the fraction):
                # the caller's object must not receive the derived values
                kws["annealing"] = dict(do_annealing=True, n_plateau=2, initial_temperature=3.0)
            r2 = self.rng2
            logger = None
            if algo in ("mean_posterior", "mode_posterior") and r2.random() < 0.4:
                # other documented options held in nested dictionaries / derived by the algorithm
                kws["sampler_ind_params"] = dict(acceptation_history_length=r2.choice([2, 5]), adaptive_std_factor=0.2)
                if r2.random() < 0.5:
                    kws["n_burn_in_iter"] = r2.choice([0, 3, 11])
            if algo == "scipy_minimize":
                # the optimiser's own options: nested dictionaries owned by the caller, handed to scipy as they are; a budget so
                # small that some individuals do not converge (the convergence report is then built and sent to the logger)
                how = r2.choice(["default", "default", "no-jacobian", "custom-bfgs", "custom-powell"])
                if how == "no-jacobian":
                    kws["use_jacobian"] = False
                elif how == "custom-bfgs":
                    kws["custom_scipy_minimize_params"] = {"method": "BFGS", "options": {"gtol": 1e-2, "maxiter": r2.choice([2, 40])}}
                elif how == "custom-powell":
                    kws["use_jacobian"] = False
                    kws["custom_scipy_minimize_params"] = {"method": "Powell", "options": {"xtol": 1e-2, "ftol": 1e-2,
                                                                                           "maxiter": r2.choice([1, 3])}}
                if (self.chk.tier == "thorough" and r2.random() < 0.15) or os.environ.get("VERIF_C13_POOL") == "1":
                    # a pool of worker processes: the per-individual states travel to the workers, the model stays here
                    kws["n_jobs"] = 2
                    how += " n_jobs=2"
                    logger = []          # (the default logger would print from the worker processes)
                if how.startswith("custom") and r2.random() < 0.5:
                    kws["custom_format_convergence_issues"] = "{patient_id}: {optimization_result_obj.message}"
                    logger = []
                    how += " +format"
                self.chk.tag("scipy_settings", how + (" +logger" if logger is not None else ""))
            with core.quiet():
                self.settings_cache[k] = self.E.AlgorithmSettings(algo, **kws)
            if logger is not None:
                self.settings_cache[k].logger = logger.append      # documented hook: receives the convergence reports
        return self.settings_cache[k]

    # ---- fresh copy ----
    def fresh_copy(self):
        """load(save(model)); for objects holding double-precision parameters (finding F21 of C12 would blur the
        comparison) a deep copy with the state cleaned the way `_terminate_algo` does."""
        E = self.E
        self.double_params = any(E.torch.as_tensor(v).dtype == E.torch.float64 for v in self.model.parameters.values())
        if not self.double_params:
            p = os.path.join(self.tmp, "copy.json")
            self.model.save(p)
            with core.quiet():
                return E.BaseModel.load(p)
        m = copy.deepcopy(self.model)
        st = m.state.clone()
        with st.auto_fork(None):
            m.reset_data_variables(st)
            st.put_individual_latent_variables(None)
        m.state = st
        return m

    # ---- one call on a given model; returns (result fingerprint, inputs-before, inputs-after) ----
    def call(self, model, op, args):
        E = self.E
        with core.quiet():
            if op == "fit":
                inp = args["df"] if args["as_df"] else args["data"]
                model.fit(inp, algorithm_settings=args["settings"])
                return None
            if op == "est":
                how = args.get("how", "dict")
                if how in ("mean_traj", "mode_traj"):
                    # the population trajectories: public read-only calls that work on a clone like estimate does
                    out = getattr(model, "compute_" + how)(args["tps"])
                    return A.obj_digest(A.value_digest(out))
                if how == "traj":
                    i = next(iter(args["tps"]))
                    out = model.compute_individual_trajectory(args["tps"][i], args["ips"][i])
                    return A.obj_digest(A.value_digest(out))
                out = model.estimate(args["tps"], args["ips"], **({"to_dataframe": True} if how == "to_dataframe" else {}))
                if isinstance(out, E.pd.DataFrame):
                    return A.df_digest(out)
                return A.obj_digest({k: (v.shape, v.dtype.str, v.tobytes()) for k, v in out.items()})
            if op in ("mean", "mode", "scipy"):
                inp = args["dataset"] if args.get("dataset") is not None else (args["df"] if args["as_df"] else args["data"])
                ips = model.personalize(inp, algorithm_settings=args["settings"])
                return A.ip_digest(ips)
            if op == "sim":
                res = model.simulate(algorithm_settings=args["settings"])
                ip = res.individual_parameters
                ipd = A.df_digest(ip) if isinstance(ip, E.pd.DataFrame) else A.ip_digest(ip)
                return A.obj_digest((A.df_digest(res.data.to_dataframe()), ipd))
            if op == "save":
                model.save(self.path)
                return None
        raise ValueError(op)

    def make_args(self, op, step):
        E, rng = self.E, self.rng
        seed = rng.randrange(4)
        if op == "fit":
            # always the whole cohort: a second fit warm-starts from the individual values of the first one
            # (by design) and aborts when the number of individuals differs
            df, data = self.df.copy(), self.data
            return dict(df=df, data=data, as_df=self.as_df(), settings=self.settings("mcmc_saem", seed), seed=seed)
        if op in ("mean", "mode", "scipy"):
            # a sub-cohort, or (one time in three) the very cohort the model was fitted on: same individuals, same count,
            # so that anything the fit left behind in the model would "fit" the new call
            if rng.random() < 0.34:
                df, data = self.df.copy(), self.data
            else:
                df, data = self.sub_cohort(rng.choice([1, 2, 3]))
            algo = {"mean": "mean_posterior", "mode": "mode_posterior", "scipy": "scipy_minimize"}[op]
            out = dict(df=df, data=data, as_df=self.as_df(), settings=self.settings(algo, seed), seed=seed)
            if self.rng2.random() < 0.25:
                # a caller-owned Dataset (tensors): the algorithms put these very tensors into the state they work on
                from leaspy.io.data import Dataset
                with core.quiet():
                    out["dataset"] = Dataset(data)
            return out
        if op == "est":
            ids = [f"e{i}" for i in range(rng.choice([1, 2]))]
            ips = A.random_ips(rng, self.model, ids)
            tps = {i: [rng.uniform(60, 90) for _ in range(rng.randrange(1, 4))] for i in ids}
            # the ages in every container the call documents or accepts (all caller-owned): lists, numpy arrays, tuples, one
            # number, a (ID, TIME) MultiIndex in request order; the table output; the trajectory calls underneath estimate
            r2 = self.rng2
            how = r2.choice(["dict", "dict", "array", "array32", "tuple", "scalar", "multiindex", "to_dataframe", "traj", "mean_traj",
                             "mode_traj"])
            if self.kind == "joint" and how in ("multiindex", "to_dataframe"):
                # finding F101 (probed on every run): the table output of estimate is built with the feature names as columns
                # while the joint model's trajectories carry one more column per event -> ValueError before anything is
                # returned.  Not a matter of purity: the history keeps the dictionary output so that it can go on.
                how = "array"
            np, torch = E.np, E.torch
            if how == "array":
                tps = {i: np.array(v, dtype=np.float64) for i, v in tps.items()}
            elif how == "array32":
                tps = {i: np.array(v[::-1], dtype=np.float32) for i, v in tps.items()}          # (not sorted either)
            elif how == "tuple":
                tps = {i: tuple(v) for i, v in tps.items()}
            elif how == "scalar":
                tps = {i: v[0] for i, v in tps.items()}
            elif how == "multiindex":
                pairs = [(i, t) for i, v in tps.items() for t in v]
                r2.shuffle(pairs)
                tps = E.pd.MultiIndex.from_tuples(pairs, names=["ID", "TIME"])
            elif how == "traj":
                tps = {i: np.array(v, dtype=np.float64) for i, v in tps.items()}
            elif how in ("mean_traj", "mode_traj"):
                tps = torch.tensor([sorted(next(iter(tps.values())))], dtype=torch.float32)
            self.chk.tag("estimate_input", how)
            return dict(ips=ips, tps=tps, how=how)
        if op == "sim":
            self.sim_count = getattr(self, "sim_count", 0) + 1
            table = self.sim_count % 2 == 1          # first a caller-owned table, then a random design, alternately
            k = ("simulate", seed, table)
            if k not in self.settings_cache:
                vp = {"patient_number": 3, "visit_type": "random", "first_visit_mean": 0.0, "first_visit_std": 0.4,
                      "time_follow_up_mean": 3, "time_follow_up_std": 0.5, "distance_visit_mean": 1.0,
                      "distance_visit_std": 0.2, "min_spacing_between_visits": 1}
                if table:
                    # a caller-owned table of visits (integer identifiers, unsorted): it must come back untouched
                    vp = {"visit_type": "dataframe",
                          "df_visits": E.pd.DataFrame({"ID": [30, 7, 30, 12, 7], "TIME": [71.5, 68.0, 72.25, 80.0, 69.5]})}
                with core.quiet():
                    self.settings_cache[k] = E.AlgorithmSettings("simulate", seed=seed, features=list(self.model.features),
                                                                 visit_parameters=vp)
            return dict(settings=self.settings_cache[k], seed=seed)
        return {}

    def inputs_digest(self, op, args):
        d = {}
        if "df" in args:
            d["dataframe"] = A.df_digest(args["df"])
            d["data"] = A.data_digest(args["data"])
        if args.get("dataset") is not None:
            d["dataset"] = A.obj_digest(F.deep_fp(args["dataset"], depth=3))
        if "settings" in args:
            s = args["settings"]
            d["settings.parameters"] = A.obj_digest(s.parameters)
            d["settings.seed"] = repr(s.seed)
        if "ips" in args:
            d["individual_parameters"] = A.ip_digest(args["ips"])
            tps = args["tps"]
            if isinstance(tps, self.E.pd.MultiIndex):
                tps = ("MultiIndex", list(tps.names), [tuple(x) for x in tps.tolist()], [str(t) for t in tps.dtypes])
            d["timepoints"] = A.obj_digest(F.deep_fp(tps))          # (arrays and tensors by content, tensors with their version)
        if "data" in args:
            d["data (every attribute)"] = A.obj_digest(F.deep_fp(args["data"], depth=6))
        return d


def ext_snapshot(model):
    """everything the model object holds: values, cache pattern, pending fork, fork mode, tracked variables, other attributes"""
    st = model._state
    return dict(values=A.state_snapshot(model),
                fork=None if st._last_fork is None else {k: A.value_digest(v) for k, v in st._last_fork.items()},
                mode=str(st.auto_fork_type), tracked=sorted(st._tracked_variables), attrs=F.model_attrs_fp(model))


def ext_diff(op, e0, e1, model):
    """observable differences between two extended snapshots, for a call that must leave the object as it is
    (lazy fills of the cache are not differences; for mean / mode the cleaned clone legitimately has no fork and no leftovers)"""
    out = []
    d = A.snapshot_diff(e0["values"], e1["values"], model)
    if d["core"]:
        out.append(f"parameters / population variables changed: {d['core']}")
    if d["derived_changed"]:
        out.append(f"cached derived values changed: {d['derived_changed'][:4]}")
    added = [k for k in d["ind"] + d["data"] if e1["values"][k] is not None]
    if added:
        out.append(f"data / individual values stored: {added}")
    if op not in MCMC:
        if d["derived_dropped"]:
            out.append(f"cached derived values dropped: {d['derived_dropped'][:4]}")
        if e0["fork"] != e1["fork"]:
            out.append("pending fork of model.state changed")
    for k in ("mode", "tracked"):
        if e0[k] != e1[k]:
            out.append(f"{k} of model.state changed: {e0[k]} -> {e1[k]}")
    ch = [k for k in set(e0["attrs"]) | set(e1["attrs"]) if e0["attrs"].get(k) != e1["attrs"].get(k)]
    if ch:
        out.append(f"model attributes changed: {sorted(ch)}")
    return out


def later_results(H, model):
    """two fixed later calls (an estimate, a scipy personalisation of the first subject), as fingerprints"""
    import random
    E = H.E
    ips = A.random_ips(random.Random(7), model, ["p0"])
    out = []
    try:
        with core.quiet():
            est = model.estimate({"p0": [70.0, 75.5]}, ips)
        out.append(A.obj_digest({k: v.tobytes() for k, v in est.items()}))
    except Exception as e:  # noqa
        out.append(f"estimate raised {type(e).__name__}")
    try:
        first = H.ids[0]
        df = H.df[H.df.index.get_level_values("ID") == first]
        with core.quiet():
            data = E.Data.from_dataframe(df, data_type="joint") if H.which == "joint" else E.Data.from_dataframe(df)
            ip = model.personalize(data, "scipy_minimize", seed=0, progress_bar=False)
        out.append(A.ip_digest(ip))
    except Exception as e:  # noqa
        out.append(f"scipy_minimize raised {type(e).__name__}")
    return out


def run_history(chk, E, key, ops, case_seed, tmp, edge=None, fps=None, probe_at=None, probe_out=None):
    """returns (per-step implementation pattern, case json); `edge` = [parameter, value]: every load reads a file in which that
    parameter was overwritten by hand.  `fps`: list receiving one footprint record per estimate / personalize / simulate call.
    `probe_at` = step: instead of recording, that call is run between two extended snapshots and followed by later calls on the
    object and on a copy taken before it (search for an observable consequence of a touching footprint); findings go to `probe_out`."""
    case = {"kind": key, "ops": ops, "case_seed": case_seed}
    if edge:
        case["edge"] = list(edge)
    H = Harness(chk, E, key, tmp, case_seed)
    res_bits, same_tok, core_bits = [], [], []
    saved_double = False
    for step, op in enumerate(ops):
        cj = dict(case, step=step, op=op)
        if op == "load":
            def core_values(model):
                # by value (flat), not by shape: a scalar noise_std is 0-d after fit and (1,) after load (C12 remark)
                names = sum((A.variable_classes(model)[r] for r in ("params", "hyper", "pop")), [])
                out = {}
                for k in names:
                    v = model.state._values.get(k)
                    out[k] = None if v is None else (str(v.dtype), v.detach().reshape(-1).numpy().tobytes())
                return out
            before_core = core_values(H.model)
            edited = False
            if edge or H.rng.random() < 0.4:
                # parameter values written by hand, at the edge of their domain (a nearly degenerate or a very wide prior):
                # the calls that follow must leave such a model untouched as well
                try:
                    with open(H.path) as fh:
                        doc = json.load(fh)
                    cand = [k for k in ("xi_std", "tau_std") if k in doc.get("parameters", {})]
                    if cand:
                        k = H.rng.choice(cand)
                        new = H.rng.choice([5e-4, 2e-4, 9e-4, 250.0])
                        if not edge and "noise_std" in doc["parameters"] and H.rng2.random() < 0.3:
                            # the noise level at both ends: the likelihood terms of the personalisations and the noise that
                            # simulate adds (variance clamped near 0 and 1) are scaled by it
                            k, new = "noise_std", H.rng2.choice([1e-3, 0.7])
                        if edge and edge[0] in cand:
                            k, new = edge[0], float(edge[1])
                        old_v = doc["parameters"][k]
                        doc["parameters"][k] = [new] * len(old_v) if isinstance(old_v, list) else new
                        with open(H.path, "w") as fh:
                            json.dump(doc, fh)
                        edited = True
                        chk.tag("hand_written_edge_parameter", f"{k}={new}")
                except Exception:  # noqa
                    edited = False
            try:
                with core.quiet():
                    H.model = E.BaseModel.load(H.path)
            except Exception as e:
                chk.impl_failure(cj, f"load raised {type(e).__name__}: {str(e)[:100]}")
                return None, case
            after_core = core_values(H.model)
            res_bits.append(A.has_residual(H.model))
            same_tok.append("-")
            core_bits.append("?" if (saved_double or edited) else int(before_core != after_core))
            continue
        args = H.make_args(op, step)
        copy_model = None
        if op in ("est", "mean", "mode", "scipy", "sim"):
            try:
                copy_model = H.fresh_copy()
            except Exception as e:
                chk.impl_failure(cj, f"could not build the fresh copy: {type(e).__name__}: {str(e)[:100]}")
                return None, case
        had_residual = A.has_residual(H.model) if H.model._state is not None else False
        snap0 = A.state_snapshot(H.model) if H.model._state is not None else None
        params0 = A.obj_digest({k: A.value_digest(v) for k, v in H.model.parameters.items()}) if snap0 is not None else None
        hyper0 = A.obj_digest({k: A.value_digest(E.torch.as_tensor(v)) for k, v in H.model.hyperparameters.items()}) if snap0 is not None else None
        in0 = H.inputs_digest(op, args)
        rec = iw = None
        probing = probe_at == step and op in READ_ONLY and snap0 is not None
        if probing:
            ref_model = copy.deepcopy(H.model)       # the object as it was before the call
            ext0 = ext_snapshot(H.model)
        elif op in READ_ONLY and snap0 is not None and fps is not None:
            rec, iw = F.Recorder(H.model), F.InputWatch(args)
            attrs0 = F.model_attrs_fp(H.model)
        try:
            if rec is not None:
                with rec, iw:
                    out = H.call(H.model, op, args)
            else:
                out = H.call(H.model, op, args)
            err = None
        except Exception as e:
            out, err = None, e
        in1 = H.inputs_digest(op, args)
        snap1 = A.state_snapshot(H.model)
        if probing:
            found = [] if err is None else [f"the call raised {type(err).__name__}"]
            found += ext_diff(op, ext0, ext_snapshot(H.model), H.model)
            found += [f"the caller's {k} was modified" for k in in0 if in0[k] != in1[k]]
            if not found:
                a, b = later_results(H, H.model), later_results(H, ref_model)
                if a != b:
                    found.append("a later estimate / scipy_minimize on the object differs from the same call on a copy taken before "
                                 f"the call ({[x == y for x, y in zip(a, b)]})")
            if probe_out is not None:
                probe_out.extend(found)
            return None, case
        # ---- predicates -------------------------------------------------------------------
        for k in in0:
            if in0[k] != in1[k]:
                chk.impl_failure(cj, f"{op}: the caller's {k} was modified by the call")
        if err is not None and op == "fit" and type(err).__name__ == "LeaspyConvergenceError":
            # a tiny cohort / very short fit may legitimately fail to converge (a variance collapses): the fit algorithm says so
            # itself; nothing about purity can be concluded, the history ends here (inputs were already compared above)
            chk.tag("fit_did_not_converge", H.key)
            return None, case
        if err is not None:
            fid = None
            if op == "scipy" and had_residual:
                fid = "F8"          # as shipped: joint model aborts when the object carries the leftovers of a fit
            chk.impl_failure(cj, f"{op} raised {type(err).__name__}: {str(err)[:120]}", finding=fid)
            if snap0 is not None and snap1 is not None and op != "fit":
                d = A.snapshot_diff(snap0, snap1, H.model)
                if d["core"]:
                    chk.impl_failure(cj, f"{op} failed and left parameters / population variables changed: {d['core']}")
            return None, case
        if op == "fit" and any(not bool(E.torch.isfinite(E.torch.as_tensor(v)).all()) for v in H.model.parameters.values()):
            # a short fit started from hand-written values at the edge of their domain (e.g. xi_std = 250) can end with a
            # non-finite noise level without the algorithm saying so: such an object can not be reloaded (`load` compares
            # the derived values of the file, NaN != NaN), so the copy the later calls are compared with does not exist.
            # Like a fit that reports non-convergence: the history ends here (its inputs were compared above).
            chk.tag("fit_gave_non_finite_parameters", H.key)
            return None, case
        if op == "save":
            saved_double = any(E.torch.as_tensor(v).dtype == E.torch.float64 for v in H.model.parameters.values())
        if snap0 is None:       # first fit on an uninitialised model
            res_bits.append(A.has_residual(H.model))
            same_tok.append("-")
            core_bits.append(1)
            continue
        d = A.snapshot_diff(snap0, snap1, H.model)
        params1 = A.obj_digest({k: A.value_digest(v) for k, v in H.model.parameters.items()})
        hyper1 = A.obj_digest({k: A.value_digest(E.torch.as_tensor(v)) for k, v in H.model.hyperparameters.items()})
        core_changed = bool(d["core"]) or params0 != params1 or hyper0 != hyper1
        if op != "fit":
            if core_changed:
                chk.impl_failure(cj, f"{op} changed parameters / hyperparameters / population variables: {d['core']}")
            if d["derived_changed"]:
                chk.impl_failure(cj, f"{op} changed cached derived values while the parameters are the same: {d['derived_changed'][:4]}")
            added = [k for k in d["ind"] + d["data"] if snap1[k] is not None]
            if added:
                chk.impl_failure(cj, f"{op} left data / individual latent values in the model: {added}")
        # ---- same call on the fresh copy ----------------------------------------------------
        if copy_model is not None:
            args2 = args
            try:
                out2 = H.call(copy_model, op, args2)
            except Exception as e:
                fid = "F24" if (op == "sim" and isinstance(e, ValueError) and "Lengths must match" in str(e)) else None
                chk.impl_failure(cj, f"{op} works on the object but raises on its fresh copy: {type(e).__name__}: {str(e)[:100]}",
                                 finding=fid)
                return None, case
            same = out == out2
            if not same:
                fid = "F8" if (op == "scipy" and had_residual) else None
                chk.impl_failure(cj, f"{op}: result on the object differs from the result of the same call on a freshly loaded copy "
                                     f"(history {ops[:step]})", finding=fid)
            same_tok.append(str(int(same)))
            chk.tag("copy", "deepcopy-clean (double params)" if H.double_params else "load(save)")
        else:
            same_tok.append("-")
        res_bits.append(A.has_residual(H.model))
        core_bits.append(int(core_changed))
        if rec is not None:
            cls = A.variable_classes(H.model)
            fps.append(dict(case=cj, op=op, line=rec.request(op, cls), n=len(rec.events),
                            replay=rec.replay_request(op, cls) if len(rec.events) <= 400 else None,
                            ident=rec.original_unchanged_by_identity(), grew=rec.cache_only_grew(),
                            rebound=H.model._state is not rec.keep[0], core_changed=core_changed,
                            residual=A.has_residual(H.model), attrs_same=attrs0 == F.model_attrs_fp(H.model),
                            inputs=list(iw.events), inputs_changed=[k for k in in0 if in0[k] != in1[k]]))
    return (res_bits, same_tok, core_bits), case


def search_consequence(chk, E, f, tmp):
    """re-run the history of footprint record `f` up to its call and look for an observable consequence"""
    c = f["case"]
    found = []
    try:
        run_history(chk, E, c["kind"], c["ops"], c["case_seed"], tmp, edge=c.get("edge"), probe_at=c["step"], probe_out=found)
    except Exception as e:  # noqa
        found.append(f"the search itself failed: {type(e).__name__}: {str(e)[:80]}")
    return found


def compare_footprints(chk, E, fps, tmp):
    """every recorded footprint through the Lean decision procedures; conclusions of the theorems against the real objects"""
    if not fps:
        return
    replays, seen = [], set()
    for f in fps:                       # one shadow replay per kind of call
        if f["op"] not in seen and f["replay"]:
            seen.add(f["op"])
            replays.append(f)
    out = chk.model([f["line"] for f in fps] + [f["replay"] for f in replays])
    for f, resp in zip(fps, out[:len(fps)]):
        op, cj = f["op"], f["case"]
        chk.tag("footprint_events", "<=10" if f["n"] <= 10 else "<=100" if f["n"] <= 100 else "<=1000" if f["n"] <= 1000 else ">1000")
        try:
            parts = dict(p.split("=", 1) for p in resp.split(" "))
            touches, writes, verdict = parts["touches"], parts["writes"], parts["verdict"]
        except Exception:  # noqa
            chk.disagree(cj, "?", resp, "unparsable footprint response")
            continue
        chk.tag("footprint", f"{op}: touches={touches} writes={writes} verdict={verdict}")
        # -- what the theorems conclude from the recorded history, observed on the real objects ------------------------
        untouched = f["ident"] and not f["rebound"] and f["attrs_same"]
        if touches == "0" and not untouched:
            chk.disagree(cj, f"identical={f['ident']} rebound={f['rebound']} attributes_same={f['attrs_same']}", resp,
                         "footprint_pure: no recorded event touches model.state, yet the real object is not the same "
                         "(the recorder missed an event)")
        if writes == "0" and not (f["grew"] and not f["rebound"] and f["attrs_same"]):
            chk.disagree(cj, f"cache_only_grew={f['grew']} rebound={f['rebound']} attributes_same={f['attrs_same']}", resp,
                         "footprint_reads_only: only reads of model.state were recorded, yet more than its cache changed")
        if op in MCMC and verdict == "1" and (f["core_changed"] or f["residual"] or not f["attrs_same"]):
            chk.disagree(cj, f"core_changed={f['core_changed']} residual={f['residual']} attributes_same={f['attrs_same']}", resp,
                         "footprint_core_preserved / footprint_no_residual: the analysis accepts the history, the real state differs")
        # -- the verdict -----------------------------------------------------------------------------------------------
        if verdict != "1":
            what = (f"{op}: the recorded footprint writes to model.state / the model object (first touching event {parts.get('first')}, "
                    f"bound={parts.get('bound')} same={parts.get('same')} resid={parts.get('resid')} attrs={parts.get('attrs')} "
                    f"shared={parts.get('shared')})")
            found = search_consequence(chk, E, f, tmp)
            if found:
                chk.impl_failure(cj, f"{what}; observable consequence: {'; '.join(found)[:300]}")
            else:
                chk.disagree(cj, f"footprint of {f['n']} events", resp, what + " — no observable consequence found")
        # -- caller-owned inputs ---------------------------------------------------------------------------------------
        if f["inputs"]:
            what = f"{op}: the call wrote to a caller-owned input while it ran: {f['inputs'][:4]}"
            if f["inputs_changed"]:
                chk.impl_failure(cj, what + f" and left {f['inputs_changed']} modified")
            else:
                chk.disagree(cj, f["inputs"][:6], "inputs are only read", what + " (restored before returning: no observable consequence)")
    for f, resp in zip(replays, out[len(fps):]):
        chk.tag("shadow_replay", f"{f['op']}: {resp}")
        if resp != "conc=1":
            chk.disagree(f["case"], "recorded footprint", resp, "shadow replay of the footprint through State.step does not confirm the verdict")


def compare(chk, cases, patterns):
    lines = [f"seq shipped=0 ops={fmt_list(c['ops'])}" for c, p in zip(cases, patterns) if p is not None]
    idx = [i for i, p in enumerate(patterns) if p is not None]
    out = chk.model(lines)
    for i, resp in zip(idx, out):
        res_bits, same_tok, core_bits = patterns[i]
        try:
            parts = dict(p.split("=", 1) for p in resp.split(" "))
            m_res, m_same, m_core = (core.split_ne(parts[k]) for k in ("res", "same", "core"))
        except Exception:
            chk.disagree(cases[i], "?", resp, "unparsable model response")
            continue
        impl_res = [str(int(b)) for b in res_bits]
        if impl_res != m_res:
            chk.disagree(cases[i], impl_res, m_res, "which calls leave data / individual latent values in the object")
        if same_tok != m_same:
            chk.disagree(cases[i], same_tok, m_same, "which results equal those on a fresh copy")
        ic = [str(c) for c in core_bits]
        if any(a != b for a, b in zip(ic, m_core) if a != "?") or len(ic) != len(m_core):
            chk.disagree(cases[i], ic, m_core, "which calls change parameters / population variables")


def probe_findings(chk, E, tmp):
    """F8 witness on every run: scipy_minimize on the just-fitted object vs on its reloaded copy."""
    try:
        H = Harness(chk, E, "logistic-src", tmp, 0)
        with core.quiet():
            H.model.fit(H.data, "mcmc_saem", n_iter=8, n_burn_in_iter=2, seed=0, progress_bar=False)
            cp = H.fresh_copy()
            a = H.model.personalize(H.data, "scipy_minimize", seed=0, progress_bar=False)
            b = cp.personalize(H.data, "scipy_minimize", seed=0, progress_bar=False)
        if A.ip_digest(a) != A.ip_digest(b):
            da, db = a.to_dataframe(), b.to_dataframe()
            chk.known_finding_reproduces("F8", f"scipy_minimize on the fitted object vs its reloaded copy: max difference {float((da - db).abs().max().max()):.3g}")
        else:
            chk.note("finding F8 no longer reproduces (scipy_minimize result equal on fitted object and reloaded copy)")
    except Exception as e:
        chk.note(f"F8 probe could not run: {type(e).__name__}: {str(e)[:80]}")
    # F101: table output of estimate for the joint model
    try:
        H = Harness(chk, E, "joint", tmp, 0)
        with core.quiet():
            H.model.fit(H.data, "mcmc_saem", n_iter=4, n_burn_in_iter=2, seed=0, progress_bar=False)
        snap0 = A.state_snapshot(H.model)
        ips = A.random_ips(H.rng, H.model, ["p0"])
        try:
            with core.quiet():
                H.model.estimate({"p0": [70.0, 75.5]}, ips, to_dataframe=True)
            chk.note("finding F101 no longer reproduces (estimate(..., to_dataframe=True) of the joint model returns a table)")
        except ValueError as e:
            chk.known_finding_reproduces("F101", f"joint model, estimate({{'p0': [70.0, 75.5]}}, ips, to_dataframe=True): ValueError: {str(e)[:100]}")
        d = A.snapshot_diff(snap0, A.state_snapshot(H.model), H.model)
        if d["core"] or d["derived_changed"]:
            chk.impl_failure({"kind": "joint", "ops": ["fit", "est"], "case_seed": 0, "probe": "F101"},
                             f"the refused table estimate changed the model: {d['core'] + d['derived_changed']}")
    except Exception as e:
        chk.note(f"F101 probe could not run: {type(e).__name__}: {str(e)[:80]}")


def run(chk: core.Check):
    E = A.env()
    rng = chk.rng
    chk.rule = ("one case = one random call history (first call fit; up to 3 fits; estimate / mean / mode / scipy / simulate / save / load "
                "with random sub-cohorts given as DataFrame, Data or Dataset, a third of the cohorts with a quarter of the observations "
                "missing, reused AlgorithmSettings objects with nested options — annealing, sampler tuning, explicit burn-in, the "
                "optimiser's own options and budget, convergence-report format and logger —, estimate ages as lists / tuples / float64 and "
                "float32 arrays / one number / MultiIndex / table output and the trajectory calls underneath, simulate on every "
                "configuration of the logistic model, hand-written xi_std / tau_std / noise_std at the edge) on one object of one model kind "
                "(seven configurations incl. one noise level per feature); "
                "distinct by (kind, op sequence); non-trivial when a read-only call happens while the object carries the leftovers of a fit. "
                "Every estimate / personalize / simulate call is run under the footprint recorder; its recorded history is one more model line.")
    tmp = tempfile.mkdtemp(prefix="c13_")
    try:
        corpus = [c["case"] for c in core.load_corpus(PROP) if "case" in c]
        cases_in = [(c["kind"], c["ops"], c["case_seed"]) for c in corpus]
        n_per_kind, length = (3, 9) if chk.tier == "quick" else (8, 12)
        fixed = [("logistic-src", ["fit", "scipy", "est", "sim", "mean", "scipy", "save", "load", "scipy", "mode"], 1),
                 ("joint", ["fit", "scipy", "mode", "scipy"], 2)]
        cases_in += fixed
        for key, *_ in KIND_CONFIGS:
            for _ in range(n_per_kind):
                cases_in.append((key, gen_sequence(rng, key, rng.randrange(length - 3, length + 1)), rng.randrange(10 ** 6)))
        cases_in = [c + (None,) for c in cases_in]
        # hand-written parameter values at the edge of their domain, every read-only call afterwards
        edge_kinds = [k[0] for k in KIND_CONFIGS] if chk.tier == "thorough" else ["logistic-src"] + rng.sample([k[0] for k in KIND_CONFIGS[1:]], 2)
        for key in edge_kinds:
            for par, val in ([("xi_std", 5e-4), ("tau_std", 5e-4)] if chk.tier == "thorough" or key == "logistic-src"
                             else [rng.choice([("xi_std", 5e-4), ("tau_std", 2e-4), ("xi_std", 9e-4)])]):
                ops = ["fit", "save", "load", "scipy", "est", "mean", "mode", "scipy"] + (["sim"] if key in SIM_KINDS else [])
                cases_in.append((key, ops, rng.randrange(10 ** 6), (par, val)))
        cases, patterns, fps = [], [], []
        for key, ops, cs, edge in cases_in:
            pat, case = run_history(chk, E, key, ops, cs, tmp, edge=edge, fps=fps)
            cases.append(case)
            patterns.append(pat)
            nontriv = any(o in ("est", "mean", "mode", "scipy", "sim") and i > 0 for i, o in enumerate(ops))
            for o in ops:
                chk.tag("op", o)
            chk.case((key, tuple(ops)), nontrivial=nontriv, sample=case if len(chk.samples) < 4 else None,
                     tags={"kind": key, "length": len(ops), "completed": pat is not None})
        compare(chk, cases, patterns)
        compare_footprints(chk, E, fps, tmp)
        probe_findings(chk, E, tmp)
    finally:
        shutil.rmtree(tmp, ignore_errors=True)


def replay(chk: core.Check, payload):
    E = A.env()
    case = payload.get("case") or (payload.get("disagreements") or [{}])[0].get("case")
    if not case or "ops" not in case:
        chk.note("replay file has no call history")
        return
    tmp = tempfile.mkdtemp(prefix="c13_")
    try:
        fps = []
        pat, c = run_history(chk, E, case["kind"], case["ops"], case["case_seed"], tmp, edge=case.get("edge"), fps=fps)
        chk.case((case["kind"], tuple(case["ops"])), sample=c)
        compare(chk, [c], [pat])
        compare_footprints(chk, E, fps, tmp)
    finally:
        shutil.rmtree(tmp, ignore_errors=True)
