"""C08 — likelihood terms are the negative log-densities of the documented distributions.

Correspondence: `SymbolicDistribution.get_func_nll / get_func_regularization`, the family classes'
`_nll`, `_nll_jacobian`, `_nll_and_jacobian`, `compute_log_survival`, `compute_log_likelihood_hazard`
and `state['nll_*']` of real (stored) models, against `Model/Dist.lean` run on IEEE doubles through
`drivers/C08.lean`.

Two comparisons per case:
  * property predicate on the implementation alone: entry-wise value vs an independent float64
    reference (scipy.stats norm / bernoulli / weibull_min log-densities and log-survival);
  * implementation vs Lean model (same inputs, exact double values of the float32/float64 entries).
Both use the same envelope, derived per formula from the dtype (unit round-off of the least precise
tensor taking part) and the operations of the formula (see `env_*`).  The penalty branch
(observed event, t <= tau) is compared exactly and checked for finiteness.
"""
from __future__ import annotations

import math
import warnings

from . import core
from .core import fmt_float, parse_float, split_ne

PROP = "C08"
FID = "F08a"
LEAN = dict(
    props="LeaspyVerif.Props.C08",
    driver="drivers/C08.lean",
    harness="c08_dist.py",
    extra_modules=["LeaspyVerif.Model.Dist"],
    theorems=["normalNll_eq_neg_log_pdf", "normalNll_density_normalised", "normalNllJac_hasDerivAt",
              "normalNllJac_forms_agree", "bernoulliNll_eq", "bernoulliNll_clamped", "infinity_eq",
              "weibull_censored", "weibull_censored_eq_neg_log_survival", "weibull_observed",
              "weibull_reparam", "weibull_reparam_sources", "weibull_sources_proportional_hazards",
              "weibull_penalty", "weibull_penalty_nll", "weibull_censored_before_reference",
              "weibull_density_is_neg_deriv_survival", "penalty_float_finite", "penalty_float_value"],
    trusted_extra=[
        "theorems are over the reals (Real.exp/log/rpow, Mathlib gaussianPDFReal); the executable instance is IEEE double "
        "(C libm exp/log/pow) while torch uses its own vectorised kernels: compared through a per-formula envelope, never bitwise",
        "torch.distributions.Bernoulli.log_prob is modelled by its documented composition (clamp_probs, probs_to_logits, "
        "binary_cross_entropy_with_logits)",
        "independent reference for the property predicate: scipy.stats.norm/bernoulli/weibull_min in float64",
    ],
    assumptions=[
        "event times are float64 (Dataset builds them so); with float32 event times torch.where(..., -1e307) raises RuntimeError "
        "(probed on every run, recorded in input_distribution.f32_event_time) - unreachable through the public API, not a finding",
        "NormalFamily.nll_constant_standard is a float32 0-dim tensor whatever the input dtype: its stored value is compared with "
        "0.5*log(2*pi) to float32 accuracy and handed to the model for the entry-wise comparison",
        "domains: scale > 0, 0 <= p <= 1, y in {0,1}, nu > 0, rho > 0; a few out-of-domain inputs (scale <= 0) are compared with the model only",
    ],
)

EPS32 = 2.0 ** -24   # unit round-off
EPS64 = 2.0 ** -53
K = 16.0             # safety factor on the first-order bounds below (covers both sides' worst-case roundings)
INF_CONST = float(10 ** 307)

_ENV = None


def env():
    global _ENV
    if _ENV is None:
        warnings.filterwarnings("ignore")
        import leaspy.models  # noqa: F401  (must precede leaspy.variables)
        import numpy as np
        import scipy.stats as sst
        import torch
        from leaspy.constants import constants
        from leaspy.utils.weighted_tensor import WeightedTensor
        from leaspy.variables import distributions as D
        _ENV = dict(np=np, sst=sst, torch=torch, constants=constants, WT=WeightedTensor, D=D)
    return _ENV


def err_class(e):
    n = type(e).__name__
    if isinstance(e, RuntimeError):
        return "err:shape" if "must match" in str(e) or "broadcast" in str(e) else f"err:other:{n}"
    if n.startswith("Leaspy") and "Input" in n:
        return "err:input"
    return f"err:other:{n}"


# ---------------------------------------------------------------------------- tensors <-> json / protocol
def tjson(vals, shape, dtype):
    """JSON form of a tensor: exact values as python floats (already rounded to dtype)."""
    return {"dtype": dtype, "shape": list(shape), "v": [float(x).hex() for x in vals]}


def tvals(tj):
    return [float.fromhex(h) for h in tj["v"]]


def to_torch(tj):
    e = env()
    torch = e["torch"]
    dt = {"float32": torch.float32, "float64": torch.float64, "bool": torch.bool}[tj["dtype"]]
    if tj["dtype"] == "bool":
        return torch.tensor([bool(x) for x in tvals(tj)], dtype=dt).reshape(tj["shape"])
    return torch.tensor(tvals(tj), dtype=torch.float64).to(dt).reshape(tj["shape"])


def from_torch(t):
    dt = str(t.dtype).replace("torch.", "")
    return tjson(t.detach().double().reshape(-1).tolist(), tuple(t.shape), dt)


def to_np(tj):
    np = env()["np"]
    return np.array(tvals(tj), dtype=np.float64).reshape(tj["shape"])


def treq(tj):
    sh = "x".join(str(s) for s in tj["shape"]) if tj["shape"] else "s"
    return sh + "|" + ",".join(fmt_float(x) for x in tvals(tj))


def rnd32(x):
    import struct
    try:
        return struct.unpack("<f", struct.pack("<f", x))[0]
    except OverflowError:
        return math.copysign(math.inf, x)


def parse_resp(resp):
    if resp.startswith("err") or resp == "bad-request":
        return resp
    out = {}
    for part in resp.split(" "):
        k, v = part.split("=", 1)
        if k == "shape":
            out[k] = [] if v == "s" else [int(s) for s in v.split("x")]
        elif v == "none":
            out[k] = None
        else:
            out[k] = [parse_float(x) for x in split_ne(v)]
    return out


def case_eps(case, names):
    return EPS32 if any(case["t"][n]["dtype"] == "float32" for n in names if n in case["t"]) else EPS64


def tiny_of(eps):
    return 1e-36 if eps == EPS32 else 1e-290


# ---------------------------------------------------------------------------- envelopes (numpy, entry-wise)
def env_normal(eps, q, logs, c):
    """0.5*z*z + log(s) + c : z has relative error <= 2 eps, z*z <= 5 eps, log(s) <= 2 ulp, two additions."""
    np = env()["np"]
    return K * eps * (np.abs(q) + np.abs(logs) + abs(c)) + tiny_of(eps)


def env_bern(eps, lp, l1p):
    """logits = log(p) - log1p(-p) then (1-y)*l + softplus(-l): absolute error ~ eps*(|log p| + |log(1-p)| + 1)."""
    np = env()["np"]
    return K * eps * (np.abs(lp) + np.abs(l1p) + 1.0) + tiny_of(eps)


def env_weib(eps, rho, xi, sr, tr, nur, ls, lh):
    """First-order propagation through nu' = nu*exp(-(xi + s/rho)), u = t'/nu', u**rho, (rho/nu')*u**(rho-1), log, sum.
    Returns (envelope of log-survival, of log-hazard, of nll)."""
    np = env()["np"]
    a = np.abs(xi + sr)
    e_nu = eps * (4.0 + 2.0 * np.abs(sr) + a)               # relative error of nu'
    e_u = e_nu + 2.0 * eps                                  # relative error of u
    with np.errstate(all="ignore"):
        logu = np.where(tr > 0, np.log(np.where(tr > 0, tr, 1.0)) - np.log(nur), 0.0)
    e_ls = np.abs(ls) * (np.abs(rho) * e_u + 4.0 * eps)
    lhf = np.where(np.isfinite(lh), np.abs(lh), 0.0)
    e_lh = e_nu + np.abs(rho - 1.0) * (e_u + eps * np.abs(logu)) + 6.0 * eps + 2.0 * eps * lhf
    e_lh = np.where(np.abs(lh) >= 1e300, 0.0, e_lh)         # the constant branch is exact
    e_lh = np.where(lh == 0.0, 0.0, e_lh)                   # censored / zero branch is exact
    e_nll = e_ls + e_lh + 2.0 * eps * (np.abs(ls) + lhf)
    t = tiny_of(eps)
    return K * e_ls + t, K * e_lh + t, K * e_nll + t


def close(a, b, envl):
    """entry-wise |a-b| <= envl, NaN == NaN, inf == inf (same sign)."""
    np = env()["np"]
    a = np.asarray(a, dtype=np.float64)
    b = np.asarray(b, dtype=np.float64)
    with np.errstate(all="ignore"):
        ok = np.abs(a - b) <= envl
    ok |= (np.isnan(a) & np.isnan(b))
    ok |= (np.isinf(a) & np.isinf(b) & (np.sign(a) == np.sign(b)))
    return ok


def first_bad(ok):
    np = env()["np"]
    idx = np.argwhere(~ok)
    return tuple(int(i) for i in idx[0]) if len(idx) else None


def reldev_tag(chk, name, a, b):
    """float64 inputs: record max |impl - model| / (|model| + 1) (expected a few 1e-16 .. 1e-13)."""
    np = env()["np"]
    a = np.asarray(a, dtype=np.float64)
    b = np.asarray(b, dtype=np.float64)
    with np.errstate(all="ignore"):
        r = np.abs(a - b) / (np.abs(b) + 1.0)
    r = r[np.isfinite(r)]
    if r.size:
        m = float(r.max())
        chk.tag(name, "<=1e-15" if m <= 1e-15 else "<=1e-14" if m <= 1e-14 else "<=1e-13" if m <= 1e-13 else "<=1e-12" if m <= 1e-12 else ">1e-12")


def ratio_tag(chk, name, a, b, envl):
    np = env()["np"]
    with np.errstate(all="ignore"):
        r = np.abs(np.asarray(a, dtype=np.float64) - np.asarray(b, dtype=np.float64)) / envl
    r = r[np.isfinite(r)]
    if r.size:
        m = float(r.max())
        b_ = "<=1e-3" if m <= 1e-3 else "<=1e-2" if m <= 1e-2 else "<=0.1" if m <= 0.1 else "<=0.5" if m <= 0.5 else "<=1" if m <= 1 else ">1"
        chk.tag(name, b_)


# ---------------------------------------------------------------------------- implementation calls
def named(case):
    return {k: to_torch(v) for k, v in case["t"].items()}


_OBJS = {}


def objs():
    """ONE symbolic distribution and ONE function object per (family, api) for the whole run: whatever a function object
    remembers between calls (a memo keyed by shape, by tensor identity ...) is exercised by every later case."""
    if not _OBJS:
        D = env()["D"]
        _OBJS["normal"] = D.Normal("loc", "scale")
        _OBJS["bern"] = D.Bernoulli("p")
        _OBJS["weib"] = D.WeibullRightCensored("nu", "rho", "xi", "tau")
        _OBJS["weib_s"] = D.WeibullRightCensoredWithSources("nu", "rho", "xi", "tau", "s")
        _OBJS["f"] = {}
    return _OBJS


def func(fam, api, value_name):
    o = objs()
    key = (fam, api, value_name)
    if key not in o["f"]:
        o["f"][key] = getattr(o[fam], api)(value_name)
    return o["f"][key]


def decoy_of(name, t):
    """another admissible value of the same shape / dtype (written into the very tensor objects before the real values)"""
    torch = env()["torch"]
    if t.dtype == torch.bool:
        return ~t
    if name in ("mask", "ev"):
        return 1 - t
    if name == "p":
        return 0.5 * t + 0.25
    if name == "y":
        return 1.0 - t
    if name in ("scale", "nu", "rho"):
        return (t.abs() * 1.5 + 0.25).to(t.dtype)
    return (t * 0.5 + 1.0).to(t.dtype)


def same_bits(a, b):
    torch = env()["torch"]
    if a.dtype != b.dtype or a.shape != b.shape:
        return False
    if a.dtype.is_floating_point:
        it = torch.int32 if a.dtype == torch.float32 else torch.int64
        return bool(torch.equal(a.contiguous().view(it), b.contiguous().view(it)))
    return bool(torch.equal(a, b))


def as_weight(mask, wkind):
    """the weights of a WeightedTensor in every form the class accepts: bool mask, 0/1 float or integer weights, nested list"""
    torch = env()["torch"]
    if mask is None or wkind in (None, "bool"):
        return mask
    if wkind == "f32":
        return mask.to(torch.float32)
    if wkind == "i64":
        return mask.to(torch.int64)
    if wkind == "list":
        return mask.tolist()
    return mask


def relayout(t):
    """same values, another memory layout (non-contiguous strides)"""
    torch = env()["torch"]
    if t.dim() >= 2:
        return t.transpose(0, -1).contiguous().transpose(0, -1)
    if t.dim() == 1 and t.numel() >= 1:
        return torch.stack([t, t], dim=1)[:, 0]
    return t


class Ambient:
    """process state around the call: torch default dtype float64, autograd switched off, inputs that require grad"""

    def __init__(self, kind):
        self.kind = kind

    def __enter__(self):
        torch = env()["torch"]
        self.prev = torch.get_default_dtype()
        self.ng = None
        if self.kind == "f64default":
            torch.set_default_dtype(torch.float64)
        elif self.kind == "no_grad":
            self.ng = torch.no_grad()
            self.ng.__enter__()
        return self

    def __exit__(self, *a):
        torch = env()["torch"]
        torch.set_default_dtype(self.prev)
        if self.ng is not None:
            self.ng.__exit__(*a)
        return False


def _calls(case, T, out, real):
    """all the calls of one case on the tensors T (real=False: decoy pass, results dropped)"""
    e = env()
    D, WT, torch = e["D"], e["WT"], e["torch"]
    from leaspy.utils.weighted_tensor import sum_dim
    fam = case["family"]
    entry = case.get("entry", "symbolic")
    wk = case.get("wkind")
    if fam == "normal":
        mask = T.get("mask")
        w = as_weight(mask, wk)
        if case["api"] == "get_func_regularization":
            xin = WT(T["x"], w) if case.get("xw") else T["x"]
            if entry == "family":
                r = D.NormalFamily.regularization(xin, T["loc"], T["scale"])
            else:
                r = func("normal", "get_func_regularization", "x")(x=xin, loc=T["loc"], scale=T["scale"])
        elif entry == "family":
            r = D.NormalFamily.nll(WT(T["x"], w), T["loc"], T["scale"])
        else:
            r = func("normal", "get_func_nll", "x")(x=WT(T["x"], w), loc=T["loc"], scale=T["scale"])
        if not real:
            return
        out["dtype"] = str(r.value.dtype)
        out["v"] = r.value.detach().double().numpy()
        expect_w = mask is not None and (case["api"] == "get_func_nll" or case.get("xw"))
        if r.weight is not None:
            out["w_kept"] = bool(expect_w and torch.equal(r.weight != 0, mask) and (isinstance(w, list) or r.weight.dtype == w.dtype))
        elif expect_w:
            out["w_kept"] = False
        xw = WT(T["x"], w if expect_w else None)
        j1 = D.NormalFamily._nll_jacobian(xw, T["loc"], T["scale"])
        v2, j2 = D.NormalFamily._nll_and_jacobian(xw, T["loc"], T["scale"])
        out["jac"] = j1.value.detach().double().numpy()
        out["jacz"] = j2.value.detach().double().numpy()
        out["v2"] = v2.value.detach().double().numpy()
        # the public wrappers and the symbolic factories of the same two functions
        j3 = func("normal", "get_func_nll_jacobian", "x")(x=xw, loc=T["loc"], scale=T["scale"])
        v4, j4 = func("normal", "get_func_nll_and_jacobian", "x")(x=xw, loc=T["loc"], scale=T["scale"])
        j5 = D.NormalFamily.nll_jacobian(xw, T["loc"], T["scale"])
        v6, j6 = D.NormalFamily.nll_and_jacobian(xw, T["loc"], T["scale"])
        out["pub"] = {"jac:get_func_nll_jacobian": j3.value.detach().double().numpy(), "jac:get_func_nll_and_jacobian": j4.value.detach().double().numpy(),
                      "v:get_func_nll_and_jacobian": v4.value.detach().double().numpy(), "jac:nll_jacobian": j5.value.detach().double().numpy(),
                      "jac:nll_and_jacobian": j6.value.detach().double().numpy(), "v:nll_and_jacobian": v6.value.detach().double().numpy()}
        if expect_w:
            out["pub_w"] = all(t_.weight is not None and bool(torch.equal(t_.weight != 0, mask)) for t_ in (j1, j2, v2, j3, j4, v4, j5, j6, v6))
        if expect_w and T["x"].dim() >= 1:
            out["sum"] = sum_dim(r, but_dim=0).detach().double().numpy()
    elif fam == "bern":
        mask = T.get("mask")
        w = as_weight(mask, wk)
        if entry == "family":
            r = D.BernoulliFamily.nll(WT(T["y"], w), T["p"])
        else:
            r = func("bern", "get_func_nll", "y")(y=WT(T["y"], w), p=T["p"])
        if not real:
            return
        out["dtype"] = str(r.value.dtype)
        out["v"] = r.value.detach().double().numpy()
        if mask is not None:
            out["w_kept"] = r.weight is not None and bool(torch.equal(r.weight != 0, mask))
            out["sum"] = sum_dim(r, but_dim=0).detach().double().numpy()
    else:
        x = WT(T["t"], as_weight(T["ev"], wk))
        if "s" in T:
            key, famcls = "weib_s", D.WeibullRightCensoredWithSourcesFamily
            args = dict(nu=T["nu"], rho=T["rho"], xi=T["xi"], tau=T["tau"], s=T["s"])
            pos = (T["nu"], T["rho"], T["xi"], T["tau"], T["s"])
        else:
            key, famcls = "weib", D.WeibullRightCensoredFamily
            args = dict(nu=T["nu"], rho=T["rho"], xi=T["xi"], tau=T["tau"])
            pos = (T["nu"], T["rho"], T["xi"], T["tau"])
        if entry == "family":
            r = famcls.nll(x, *pos)
        else:
            r = func(key, "get_func_nll", "event")(event=x, **args)
        if not real:
            return
        out["dtype"] = str(r.value.dtype)
        out["v"] = r.value.detach().double().numpy()
        out["ls"] = famcls.compute_log_survival(x, *pos).detach().double().numpy()
        out["lh"] = famcls.compute_log_likelihood_hazard(x, *pos).detach().double().numpy()
        out["hz"] = famcls.compute_hazard(x, *pos).detach().double().numpy()
        if r.value.dim() >= 1:
            out["sum"] = sum_dim(r, but_dim=0).detach().double().numpy()


def run_impl(case):
    """Run the real code for one family-level case. Returns dict of float64 numpy arrays or {'err': class}.
    The tensors handed to the code first hold OTHER admissible values (a dropped call is made on them), then the case's values
    are written into the very same tensor objects: a result remembered by object identity or by shape shows up as a wrong value.
    After the calls the inputs must still hold the case's values bit for bit."""
    e = env()
    torch = e["torch"]
    truth = named(case)
    amb = case.get("ambient")
    out = {}
    try:
        with core.quiet(), Ambient(amb):
            T = {k: decoy_of(k, v).clone() for k, v in truth.items()}
            if amb == "noncontig":
                T = {k: relayout(v) for k, v in T.items()}
            try:
                _calls(case, T, {}, real=False)
            except Exception:  # noqa  (the decoy values need not be accepted)
                pass
            for k, v in truth.items():
                T[k].copy_(v)
            if amb == "requires_grad":
                for k in ("x", "t"):
                    if k in T and T[k].dtype.is_floating_point:
                        T[k] = T[k].clone().requires_grad_(True)
            _calls(case, T, out, real=True)
            changed = [k for k, v in truth.items() if not same_bits(T[k].detach(), v)]
            if changed:
                out["inputs_changed"] = changed
    except Exception as ex:  # noqa
        return {"err": err_class(ex), "msg": str(ex)[:200]}
    return out


# ---------------------------------------------------------------------------- references + predicate + model compare
def bcast(*arrs):
    np = env()["np"]
    return np.broadcast_arrays(*arrs)


def eval_normal(chk, case, impl, model):
    e = env()
    np, sst, D = e["np"], e["sst"], e["D"]
    cj = case_json(case)
    c_impl = float(D.NormalFamily.nll_constant_standard)
    if "err" in impl:
        try:
            bcast(to_np(case["t"]["x"]), to_np(case["t"]["loc"]), to_np(case["t"]["scale"]))
            chk.impl_failure(cj, f"Normal nll raised {impl['err']} on broadcastable shapes: {impl.get('msg')}")
        except ValueError:
            pass
        if model != impl["err"]:
            chk.disagree(cj, impl["err"], model if isinstance(model, str) else "ok", "Normal nll: error outcome")
        return
    if isinstance(model, str):
        chk.disagree(cj, "ok", model, "Normal nll: error outcome")
        return
    x, loc, s = bcast(to_np(case["t"]["x"]), to_np(case["t"]["loc"]), to_np(case["t"]["scale"]))
    eps = case_eps(case, ["x", "loc", "scale"])
    with np.errstate(all="ignore"):
        z = (x - loc) / s
        q = 0.5 * z * z
        logs = np.log(s)
    envl = env_normal(eps, q, logs, c_impl)
    v = impl["v"]
    in_domain = bool((s > 0).all()) and bool(np.isfinite(x).all() and np.isfinite(loc).all() and np.isfinite(s).all())
    # --- property predicate (implementation alone)
    if in_domain:
        ref = -sst.norm.logpdf(x, loc=loc, scale=s)
        ok = close(v, ref, envl + 2 * EPS32 * c_impl)       # the constant is a float32 tensor in the code
        bad = first_bad(ok)
        if bad is not None:
            chk.impl_failure(cj, f"Normal nll entry {bad}: {float(v[bad])!r} but -log N(x={float(x[bad])!r}; loc={float(loc[bad])!r}, scale={float(s[bad])!r}) = {float(ref[bad])!r} (envelope {float(np.broadcast_to(envl, v.shape)[bad]):.3g})")
        ratio_tag(chk, "normal_ref_dev/envelope", v, ref, envl + 2 * EPS32 * c_impl)
        with np.errstate(all="ignore"):
            jref = (x - loc) / (s * s)
        jenv = K * eps * np.abs(jref) + tiny_of(eps)
        for key in ("jac", "jacz"):
            bad = first_bad(close(impl[key], jref, jenv))
            if bad is not None:
                chk.impl_failure(cj, f"Normal nll jacobian ({key}) entry {bad}: {float(impl[key][bad])!r} but d/dx(-log pdf) = {float(jref[bad])!r}")
        bad = first_bad(close(impl["v2"], v, envl))
        if bad is not None:
            chk.impl_failure(cj, f"_nll_and_jacobian value differs from _nll at {bad}: {float(impl['v2'][bad])!r} vs {float(v[bad])!r}")
        if impl.get("w_kept") is False:
            chk.impl_failure(cj, "Normal nll does not carry the weights (mask) of the value")
        if impl.get("pub_w") is False:
            chk.impl_failure(cj, "a Normal nll / jacobian entry point does not carry the weights (mask) of the value")
        for key, arr in impl.get("pub", {}).items():
            what, entry_name = key.split(":")
            if what == "jac":
                bad = first_bad(close(arr, jref, jenv))
                if bad is not None:
                    chk.impl_failure(cj, f"Normal nll jacobian through {entry_name}, entry {bad}: {float(arr[bad])!r} but d/dx(-log pdf) = {float(jref[bad])!r}")
            else:
                bad = first_bad(close(arr, ref, envl + 2 * EPS32 * c_impl))
                if bad is not None:
                    chk.impl_failure(cj, f"Normal nll through {entry_name}, entry {bad}: {float(arr[bad])!r} but -log pdf = {float(ref[bad])!r}")
    if impl.get("inputs_changed"):
        chk.impl_failure(cj, f"Normal nll functions modified their inputs in place: {impl['inputs_changed']}")
    # --- model comparison
    mv = np.array(model["v"], dtype=np.float64).reshape(model["shape"])
    if list(v.shape) != model["shape"]:
        chk.disagree(cj, list(v.shape), model["shape"], "Normal nll: result shape")
        return
    bad = first_bad(close(v, mv, envl))
    if bad is not None:
        chk.disagree(cj, float(v[bad]), float(mv[bad]), f"Normal nll entry {bad} (eps={eps:.3g}, envelope {float(np.broadcast_to(envl, v.shape)[bad]):.3g})")
    ratio_tag(chk, "normal_model_dev/envelope", v, mv, envl)
    if eps == EPS64:
        reldev_tag(chk, "float64_reldev_vs_model:normal", v, mv)
    with np.errstate(all="ignore"):
        jref = np.array(model["jac"], dtype=np.float64).reshape(model["shape"])
    jenv = K * eps * np.abs(jref) + tiny_of(eps)
    for key in ("jac", "jacz"):
        mj = np.array(model[key], dtype=np.float64).reshape(model["shape"])
        bad = first_bad(close(impl[key], mj, jenv))
        if bad is not None:
            chk.disagree(cj, float(impl[key][bad]), float(mj[bad]), f"Normal nll jacobian {key} entry {bad}")
    if "sum" in impl and model.get("sum") is not None:
        compare_sums(chk, cj, impl["sum"], model["sum"], mv, envl, to_np(case["t"]["mask"]) if "mask" in case["t"] else None, eps, "Normal nll per-individual sum")
    return np.broadcast_to(envl, mv.shape)


def compare_sums(chk, cj, isum, msum, mv, envl, mask, eps, what):
    np = env()["np"]
    n = mv.shape[0]
    w = np.ones_like(mv) if mask is None else (mask != 0)
    a = np.abs(np.where(w, mv, 0.0)).reshape(n, -1)
    m = a.shape[1]
    envs = (np.broadcast_to(envl, mv.shape) * w).reshape(n, -1).sum(axis=1) + (m + 1) * eps * a.sum(axis=1) + tiny_of(eps)
    ms = np.array(msum, dtype=np.float64)
    isum = np.asarray(isum, dtype=np.float64).reshape(-1)
    if isum.shape != ms.shape:
        chk.disagree(cj, list(isum.shape), list(ms.shape), what + ": shape")
        return
    bad = first_bad(close(isum, ms, envs))
    if bad is not None:
        chk.disagree(cj, float(isum[bad]), float(ms[bad]), f"{what} [{bad[0]}]")


def eval_bern(chk, case, impl, model):
    e = env()
    np, sst, torch = e["np"], e["sst"], e["torch"]
    cj = case_json(case)
    if "err" in impl:
        chk.impl_failure(cj, f"Bernoulli nll raised {impl['err']} on valid input: {impl.get('msg')}")
        return
    if isinstance(model, str):
        chk.disagree(cj, "ok", model, "Bernoulli nll: error outcome")
        return
    p, y = bcast(to_np(case["t"]["p"]), to_np(case["t"]["y"]))
    peps = float(torch.finfo(torch.float32 if case["t"]["p"]["dtype"] == "float32" else torch.float64).eps)
    eps = case_eps(case, ["p", "y"])
    pc = np.clip(p, peps, 1.0 - peps)
    with np.errstate(all="ignore"):
        lp, l1p = np.log(pc), np.log1p(-pc)
    envl = env_bern(eps, lp, l1p)
    v = impl["v"]
    # predicate: -log of the Bernoulli mass at the clamped probability (documented clamp of torch), scipy as reference
    ref = -sst.bernoulli.logpmf(y, pc)
    ref2 = -(y * lp + (1 - y) * l1p)
    # entries under the mask carry weight 0: what is computed there is nobody's business (after F31 a value of the support is
    # substituted before torch's log_prob); only observed entries are compared
    obs = np.ones(v.shape, dtype=bool)
    if case["t"].get("mask") is not None:
        try:
            obs = np.broadcast_to(to_np(case["t"]["mask"]).astype(bool), v.shape)
        except Exception:  # noqa
            obs = np.ones(v.shape, dtype=bool)
    bad = first_bad(close(v, ref, envl) | close(v, ref2, envl) | ~obs)
    if bad is not None:
        chk.impl_failure(cj, f"Bernoulli nll entry {bad}: {float(v[bad])!r} but -log(p^y (1-p)^(1-y)) = {float(ref2[bad])!r} for p={float(p[bad])!r}, y={float(y[bad])!r}")
    if not np.isfinite(v).all():
        chk.impl_failure(cj, "Bernoulli nll not finite for p in [0,1], y in {0,1}")
    if impl.get("w_kept") is False:
        chk.impl_failure(cj, "Bernoulli nll does not carry the weights (mask) of the value")
    if impl.get("inputs_changed"):
        chk.impl_failure(cj, f"Bernoulli nll modified its inputs in place: {impl['inputs_changed']}")
    ratio_tag(chk, "bern_ref_dev/envelope", v, ref2, envl)
    mv = np.array(model["v"], dtype=np.float64).reshape(model["shape"])
    if list(v.shape) != model["shape"]:
        chk.disagree(cj, list(v.shape), model["shape"], "Bernoulli nll: result shape")
        return
    bad = first_bad(close(v, mv, envl) | ~obs)
    if bad is not None:
        chk.disagree(cj, float(v[bad]), float(mv[bad]), f"Bernoulli nll entry {bad} (p={float(p[bad])!r}, y={float(y[bad])!r})")
    ratio_tag(chk, "bern_model_dev/envelope", v, mv, envl)
    if eps == EPS64:
        reldev_tag(chk, "float64_reldev_vs_model:bernoulli", v, mv)
    if "sum" in impl and model.get("sum") is not None:
        compare_sums(chk, cj, impl["sum"], model["sum"], mv, envl, to_np(case["t"]["mask"]) if "mask" in case["t"] else None, eps, "Bernoulli nll per-individual sum")
    return np.broadcast_to(envl, mv.shape)


def weib_reference(case):
    """Independent float64 reference (scipy weibull_min): returns dict of broadcast arrays."""
    e = env()
    np, sst = e["np"], e["sst"]
    t = case["t"]
    arrs = [to_np(t[k]) for k in ("t", "ev", "nu", "rho", "xi", "tau")]
    if "s" in t:
        arrs.append(to_np(t["s"]))
    B = bcast(*arrs)
    tt, ev, nu, rho, xi, tau = B[:6]
    sr = (B[6] / rho) if "s" in t else np.zeros_like(tt)
    with np.errstate(all="ignore"):
        nur = nu * np.exp(-(xi + sr))
        tr = tt - tau
        pos = tr > 0
        trp = np.where(pos, tr, 1.0)
        logsf = np.where(pos, sst.weibull_min.logsf(trp, c=rho, scale=nur), 0.0)
        logpdf = np.where(pos, sst.weibull_min.logpdf(trp, c=rho, scale=nur), -np.inf)
        loghaz = np.where(pos, np.log(rho) - np.log(nur) + (rho - 1.0) * (np.log(trp) - np.log(nur)), -np.inf)
    obs = ev != 0
    ref = np.where(obs, -logpdf, -logsf)
    return dict(t=tt, ev=ev, nu=nu, rho=rho, xi=xi, tau=tau, sr=sr, nur=nur, tr=tr, pos=pos, obs=obs,
                ls=logsf, lh=np.where(obs, loghaz, 0.0), loghaz=loghaz, ref=ref)


def in_finding_region(R, idx):
    """F08a: observed event after the reference time whose hazard underflows (log-hazard below the log of the
    smallest normal double): the where-ladder then uses log-hazard 0."""
    return bool(R["obs"][idx] and R["pos"][idx] and R["loghaz"][idx] < -708.0)


def eval_weib(chk, case, impl, model):
    e = env()
    np = e["np"]
    cj = case_json(case)
    if "err" in impl:
        chk.impl_failure(cj, f"Weibull nll raised {impl['err']} on valid (float64 event time) input: {impl.get('msg')}")
        return
    if isinstance(model, str):
        chk.disagree(cj, "ok", model, "Weibull nll: error outcome")
        return
    R = weib_reference(case)
    eps = case_eps(case, ["nu", "rho", "xi", "tau", "s"])
    v = impl["v"]
    if list(v.shape) != list(R["ref"].shape) or list(v.shape) != model["shape"]:
        chk.disagree(cj, list(v.shape), model["shape"], "Weibull nll: result shape")
        return
    ambiguous = R["obs"] & R["pos"] & (R["loghaz"] < -700.0) & (R["loghaz"] > -760.0)
    if ambiguous.any():
        chk.tag("ambiguous_hazard_underflow_entries", "skipped", int(ambiguous.sum()))
    # ---- property predicate on the implementation
    e_ls, e_lh, e_nll = env_weib(eps, R["rho"], R["xi"], R["sr"], R["tr"], R["nur"], R["ls"], R["lh"])
    pen = R["obs"] & ~R["pos"]
    cens = ~R["obs"]
    n_known = 0
    for idx in np.ndindex(v.shape):
        val = float(v[idx])
        if ambiguous[idx]:
            continue
        desc = (f"t={float(R['t'][idx])!r}, tau={float(R['tau'][idx])!r}, nu={float(R['nu'][idx])!r}, rho={float(R['rho'][idx])!r}, "
                f"xi={float(R['xi'][idx])!r}, s/rho={float(R['sr'][idx])!r}, observed={bool(R['obs'][idx])}")
        if pen[idx]:
            if not math.isfinite(val):
                chk.impl_failure(cj, f"penalty branch entry {idx} is not finite: {val!r} ({desc})")
            elif val < 1e300:
                chk.impl_failure(cj, f"observed event before the reference time gets no prohibitive penalty: {val!r} ({desc})")
            continue
        ref = float(R["ref"][idx])
        if not close(val, ref, float(e_nll[idx])):
            if in_finding_region(R, idx) and close(val, -float(R["ls"][idx]), float(e_nll[idx])):
                n_known += 1
                continue
            kind = "censored: survival term only" if cens[idx] else "observed: -log(hazard*survival)"
            chk.impl_failure(cj, f"Weibull nll entry {idx}: {val!r} but reference {ref!r} ({kind}; {desc}; envelope {float(e_nll[idx]):.3g})")
            break
    if n_known:
        chk.impl_failure(cj, f"{n_known} observed event(s) with t'>0 whose hazard underflows: log-hazard taken as 0, nll = survival term only "
                             f"instead of -log(h*S)", finding=FID)
        chk.tag("finding_region_entries", FID, n_known)
    if impl.get("inputs_changed"):
        chk.impl_failure(cj, f"Weibull nll functions modified their inputs in place: {impl['inputs_changed']}")
    # the hazard itself (every entry, censored or not): h(t') = (rho/nu')(t'/nu')^(rho-1) for t' > 0, exactly 0 otherwise
    if "hz" in impl:
        hz = np.broadcast_to(np.asarray(impl["hz"], dtype=np.float64), v.shape)
        with np.errstate(all="ignore"):
            _, e_h, _ = env_weib(eps, R["rho"], R["xi"], R["sr"], R["tr"], R["nur"], R["ls"], np.where(R["pos"], np.where(R["loghaz"] == 0.0, 1e-300, R["loghaz"]), 1.0))
            href = np.exp(R["loghaz"])
            sane = R["pos"] & (R["loghaz"] > -700.0) & (R["loghaz"] < 700.0)
            okh = np.where(sane, np.abs(hz - href) <= href * np.expm1(np.minimum(e_h, 1.0)) * 2.0 + 1e-300, True)
            okh &= np.where(~R["pos"], hz == 0.0, True)
        bad = first_bad(okh)
        if bad is not None:
            chk.impl_failure(cj, f"Weibull hazard entry {bad}: {float(hz[bad])!r} but (rho/nu')(t'/nu')^(rho-1) = {float(href[bad])!r} for t' = {float(R['tr'][bad])!r} "
                                 f"(nu' = {float(R['nur'][bad])!r}, rho = {float(R['rho'][bad])!r}; 0 expected when t' <= 0)")
    ok_mask = ~(ambiguous | pen | (R["obs"] & R["pos"] & (R["loghaz"] < -700.0)))
    if ok_mask.any():
        ratio_tag(chk, "weib_ref_dev/envelope", v[ok_mask], R["ref"][ok_mask], e_nll[ok_mask])
    # ---- model comparison (value, log-survival, log-hazard), exact on the constant branches
    mv = np.array(model["v"], dtype=np.float64).reshape(model["shape"])
    mls = np.array(model["ls"], dtype=np.float64).reshape(model["shape"])
    mlh = np.array(model["lh"], dtype=np.float64).reshape(model["shape"])
    mtr = np.array(model["tr"], dtype=np.float64).reshape(model["shape"])
    mnur = np.array(model["nur"], dtype=np.float64).reshape(model["shape"])
    m_ls, m_lh, m_nll = env_weib(eps, R["rho"], R["xi"], R["sr"], mtr, mnur, mls, mlh)
    keep = ~ambiguous
    for name, a, b, en in (("nll", v, mv, m_nll), ("log-survival", impl["ls"], mls, m_ls), ("log-hazard", impl["lh"], mlh, m_lh)):
        a = np.broadcast_to(np.asarray(a, dtype=np.float64), v.shape)
        ok = close(a, b, en) | ~keep
        bad = first_bad(ok)
        if bad is not None:
            chk.disagree(cj, float(a[bad]), float(b[bad]), f"Weibull {name} entry {bad} (eps={eps:.3g}, envelope {float(en[bad]):.3g})")
            break
    exact = pen & keep
    if exact.any():
        if not (v[exact] == mv[exact]).all():
            bad = first_bad(~exact | (v == mv))
            chk.disagree(cj, float(v[bad]), float(mv[bad]), f"Weibull penalty branch entry {bad}: not bit-equal")
        chk.tag("penalty_entries", "exact-compared", int(exact.sum()))
    if keep.all() and (~pen).any():
        ratio_tag(chk, "weib_model_dev/envelope", v[~pen], mv[~pen], m_nll[~pen])
        if eps == EPS64:
            reldev_tag(chk, "float64_reldev_vs_model:weibull", v[~pen], mv[~pen])
    if "sum" in impl and model.get("sum") is not None and keep.all() and not pen.any():
        compare_sums(chk, cj, impl["sum"], model["sum"], mv, m_nll, None, EPS64, "Weibull nll per-individual sum")
    return np.broadcast_to(m_nll, mv.shape)


def case_json(case):
    return case


def request_line(case, c_impl):
    t = case["t"]
    fam = case["family"]
    mask = ""
    if "mask" in t:
        mask = " mask=" + ",".join("1" if x != 0 else "0" for x in tvals(t["mask"]))
    if fam == "normal":
        return f"normal c={fmt_float(c_impl)} x={treq(t['x'])} loc={treq(t['loc'])} scale={treq(t['scale'])}{mask}"
    if fam == "bern":
        e = env()["torch"]
        peps = float(e.finfo(e.float32 if t["p"]["dtype"] == "float32" else e.float64).eps)
        return f"bern eps={fmt_float(peps)} p={treq(t['p'])} y={treq(t['y'])}{mask}"
    line = f"weib t={treq(t['t'])} ev={treq(t['ev'])} nu={treq(t['nu'])} rho={treq(t['rho'])} xi={treq(t['xi'])} tau={treq(t['tau'])}"
    if "s" in t:
        line += f" s={treq(t['s'])}"
    return line


EVAL = {"normal": eval_normal, "bern": eval_bern, "weib": eval_weib}


def run_cases(chk, cases):
    e = env()
    c_impl = float(e["D"].NormalFamily.nll_constant_standard)
    impls = [run_impl(c) for c in cases]
    lines = ["const"] + [request_line(c, c_impl) for c in cases]
    out = chk.model(lines)
    check_constants(chk, out[0], c_impl)
    for c, impl, resp in zip(cases, impls, out[1:]):
        try:
            model = parse_resp(resp)
        except Exception:
            chk.disagree(case_json(c), "?", resp[:200], "unparsable model response")
            continue
        if model == "bad-request" or model == "err:driver":
            chk.disagree(case_json(c), "?", model, "model refused the request")
            continue
        EVAL[c["family"]](chk, c, impl, model)
        nontrivial, key, tags = classify(c)
        chk.case(key, nontrivial=nontrivial, sample=c if c.get("sample") else None, tags=tags)


def check_constants(chk, resp, c_impl):
    e = env()
    parts = dict(p.split("=") for p in resp.split(" ")) if "=" in resp else {}
    case = {"kind": "constants"}
    true_c = 0.5 * math.log(2 * math.pi)
    if abs(c_impl - true_c) > 2 * EPS32 * true_c:
        chk.impl_failure(case, f"NormalFamily.nll_constant_standard = {c_impl!r} is not 0.5*log(2*pi) = {true_c!r} to float32 accuracy")
    inf_impl = e["constants"].INFINITY
    if not (isinstance(inf_impl, float) and math.isfinite(inf_impl) and inf_impl >= 1e300):
        chk.impl_failure(case, f"constants.INFINITY = {inf_impl!r} is not a finite prohibitive constant")
    try:
        mc, minf = parse_float(parts["c"]), parse_float(parts["inf"])
    except Exception:
        chk.disagree(case, "?", resp, "unparsable constants response")
        return
    if abs(c_impl - mc) > 2 * EPS32 * true_c:
        chk.disagree(case, c_impl, mc, "nll_constant_standard (float32 accuracy)")
    if fmt_float(inf_impl) != fmt_float(minf):
        chk.disagree(case, inf_impl, minf, "constants.INFINITY (bitwise)")
    chk.case(("constants",), nontrivial=True, tags={"family": "constants"})


def classify(c):
    t = c["t"]
    fam = c["family"]
    tags = {"family": fam, "layout": c.get("layout", "?"), "dtypes": c.get("dt", "?"), "api": c.get("api", "get_func_nll")}
    key = (fam, c.get("layout"), c.get("dt"), c.get("entry"), c.get("wkind"), c.get("ambient"),
           tuple((k, tuple(v["v"])) for k, v in sorted(t.items())))
    for k in ("entry", "wkind", "ambient"):
        if c.get(k):
            tags[k] = c[k]
    nontrivial = True
    if fam == "weib":
        R = weib_reference(c)
        np = env()["np"]
        tags["rho_set"] = ",".join(sorted({("0.3" if abs(r - 0.3) < 1e-6 else "1" if r == 1 else "5" if r == 5 else "other") for r in R["rho"].reshape(-1).tolist()}))
        br = {"penalty": int((R["obs"] & ~R["pos"]).sum()), "observed": int((R["obs"] & R["pos"]).sum()),
              "censored_pos": int((~R["obs"] & R["pos"]).sum()), "censored_nonpos": int((~R["obs"] & ~R["pos"]).sum())}
        for k, n in br.items():
            if n:
                tags_n = ("branch_" + k)
                tags[tags_n] = "entries"
        c["_branches"] = br
        nontrivial = (br["observed"] + br["penalty"] > 0) and (br["censored_pos"] + br["censored_nonpos"] > 0 or R["t"].size == 1)
        with np.errstate(all="ignore"):
            tiny = (R["tr"] != 0) & (np.abs(R["tr"]) <= 1e-9 * np.maximum(np.abs(R["tau"]), 1e-300))
        if tiny.any():
            tags["t_near_tau"] = "yes"
    return nontrivial, key, tags


# ---------------------------------------------------------------------------- generators (all from chk.rng)
def mk(vals, shape, dtype):
    if dtype == "float32":
        vals = [rnd32(v) for v in vals]
    return tjson(vals, shape, dtype)


def numel(shape):
    n = 1
    for s in shape:
        n *= s
    return n


NORMAL_LAYOUTS = [
    # name, x shape, loc shape, scale shape, api, mask?
    ("attach_diag", "nTF", "nTF", "F", "get_func_nll", True),
    ("attach_scalar", "nTF", "nTF", "1", "get_func_nll", True),
    ("attach_0d", "nTF", "nTF", "", "get_func_nll", True),
    ("pop_vec", "K", "K", "", "get_func_regularization", False),
    ("pop_mat", "KM", "KM", "", "get_func_regularization", False),
    ("ind_xi", "n1", "", "1", "get_func_regularization", False),
    ("ind_tau", "n1", "1", "1", "get_func_regularization", False),
    ("ind_sources", "nS", "S", "", "get_func_regularization", False),
    ("ind_sources_0d", "nS", "", "", "get_func_regularization", False),
]
# layouts at the edge of what the models build: one individual with one visit of one outcome, a 0-dim value, a single
# population scalar, more than ten components, weighted values handed to the regularity function
NORMAL_EDGE_LAYOUTS = [
    ("attach_111", "111", "111", "1", "get_func_nll", True),
    ("all_0d", "", "", "", "get_func_regularization", False),
    ("pop_scalar", "1", "1", "", "get_func_regularization", False),
    ("pop_vec_wide", "W", "W", "", "get_func_regularization", False),
    ("attach_wide", "nTW", "nTW", "W", "get_func_nll", True),
    ("ind_sources_weighted", "nS", "S", "", "get_func_regularization", True),
]
WKINDS = ["bool", "bool", "f32", "i64", "list"]
ENTRIES = ["symbolic", "symbolic", "family"]
AMBIENTS = [None, None, None, "f64default", "noncontig", "no_grad", "requires_grad"]


def gen_normal(rng, dt, layout=None, extreme=None, variants=False):
    name, xs, ls, ss, api, has_mask = layout or rng.choice(NORMAL_LAYOUTS)
    dims = {"n": rng.randrange(1, 5), "T": rng.randrange(1, 4), "F": rng.randrange(1, 4), "K": rng.randrange(1, 5),
            "M": rng.randrange(1, 3), "S": rng.randrange(1, 4), "1": 1, "W": rng.randrange(11, 14)}
    shp = lambda code: tuple(dims[ch] for ch in code)  # noqa: E731
    x_shape, l_shape, s_shape = shp(xs), shp(ls), shp(ss)
    if dt == "f32":
        dts = ("float32", "float32", "float32")
    elif dt == "f64":
        dts = ("float64", "float64", "float64")
    else:  # the joint models' layout: float32 data, float64 model / parameters; values float32-representable
        dts = ("float32", "float64", "float64")
    extreme = extreme if extreme is not None else rng.choice(["no", "no", "no", "tiny", "huge", "small", "large"])
    if extreme == "tiny":
        smag = 1e-6 if dt != "f64" else 10.0 ** rng.uniform(-100, -20)
    elif extreme == "huge":
        smag = 1e6 if dt != "f64" else 10.0 ** rng.uniform(20, 100)
    elif extreme == "small":   # every decade between the smallest std-dev the M-step accepts (3e-3) and far below it
        smag = 10.0 ** rng.uniform(-12, -2)
    elif extreme == "large":
        smag = 10.0 ** rng.uniform(1, 12)
    else:
        smag = 10.0 ** rng.uniform(-2, 1)
    lmag = rng.choice([0.0, 1.0, 80.0, 1e4]) if extreme == "no" else 0.0
    scale = [smag * rng.uniform(0.5, 2.0) for _ in range(numel(s_shape))]
    loc = [lmag * rng.uniform(0.9, 1.1) + rng.uniform(-1, 1) * smag for _ in range(numel(l_shape))]
    f32 = dt != "f64"
    if f32:
        scale = [rnd32(v) for v in scale]
        loc = [rnd32(v) for v in loc]
    tj = {"loc": tjson(loc, l_shape, dts[1]), "scale": tjson(scale, s_shape, dts[2])}
    np = env()["np"]
    L = np.broadcast_to(np.array(loc).reshape(l_shape), x_shape).reshape(-1)
    S = np.broadcast_to(np.array(scale).reshape(s_shape), x_shape).reshape(-1)
    x = []
    for i in range(numel(x_shape)):
        # standardised residual: the bulk, exact 0, tiny, and the far tails (a value 1e2 .. 1e4 std-devs away, as a first
        # iteration or a mis-specified unit produces)
        z = rng.choice([0.0, rng.uniform(-6, 6), rng.uniform(-1, 1), rng.choice([-1, 1]) * 10.0 ** rng.uniform(-8, 1.5),
                        rng.choice([-1, 1]) * 10.0 ** rng.uniform(1.5, 4)])
        x.append(float(L[i] + z * S[i]))
    tj["x"] = mk(x, x_shape, dts[0])
    case = {"kind": "family", "family": "normal", "layout": name, "dt": dt, "api": api, "extreme": extreme, "t": tj}
    if has_mask and rng.random() < 0.8:
        m = [float(rng.random() < 0.75) for _ in range(numel(x_shape))]
        if x_shape and rng.random() < 0.2:      # an individual without any observed value / nothing observed at all
            k = numel(x_shape) // x_shape[0]
            i0 = rng.randrange(x_shape[0])
            m = [0.0 if (j // k == i0 or rng.random() < 0.1) else v for j, v in enumerate(m)]
        tj["mask"] = tjson(m, x_shape, "bool")
        if api == "get_func_regularization":
            case["xw"] = True
    if variants:
        case["entry"] = rng.choice(ENTRIES)
        case["ambient"] = rng.choice(AMBIENTS)
        if "mask" in tj:
            case["wkind"] = rng.choice(WKINDS)
    return case


def gen_normal_special(rng):
    out = []
    # shapes that do not broadcast
    out.append({"kind": "family", "family": "normal", "layout": "bad_shape", "dt": "f64", "api": "get_func_nll", "t": {
        "x": tjson([0.0] * 6, (2, 3), "float64"), "loc": tjson([0.0], (1,), "float64"), "scale": tjson([1.0, 2.0], (2,), "float64")}})
    # out of the domain (scale <= 0): compared with the model only
    out.append({"kind": "family", "family": "normal", "layout": "scale_nonpos", "dt": "f64", "api": "get_func_nll", "t": {
        "x": tjson([0.0, 1.0, 2.0, 0.5], (4,), "float64"), "loc": tjson([0.0, 0.0, 0.0, 0.5], (4,), "float64"),
        "scale": tjson([-2.0, 0.0, 1.0, 0.0], (4,), "float64")}})
    # non-finite values, locations and scales (compared with the model only: IEEE propagation, nothing raised)
    inf, nan = math.inf, math.nan
    for dtn, dtl in (("float64", "f64"), ("float32", "f32")):
        out.append({"kind": "family", "family": "normal", "layout": "nonfinite", "dt": dtl, "api": "get_func_nll", "t": {
            "x": tjson([inf, -inf, nan, 0.0, 1.0, 2.0, inf, 0.5], (8,), dtn), "loc": tjson([0.0, 0.0, 0.0, inf, nan, 0.0, inf, 0.5], (8,), dtn),
            "scale": tjson([1.0, 2.0, 1.0, 1.0, 1.0, inf, 1.0, nan], (8,), dtn)}})
    return out


def gen_bern(rng, dt, variants=False):
    n, T, F = rng.randrange(1, 5), rng.randrange(1, 4), rng.randrange(1, 4)
    if variants and rng.random() < 0.15:
        n, T, F = rng.choice([(1, 1, 1), (1, 1, 12), (2, 1, 11)])
    shape = (n, T, F)
    pd, yd = {"f32": ("float32", "float32"), "f64": ("float64", "float64"), "mixed": ("float64", "float32")}[dt]
    special = [0.0, 1.0, 1e-9, 1e-20, 0.5, 1 - 1e-9, 1.1920928955078125e-07, 2.220446049250313e-16, 1 - 1.1920928955078125e-07,
               0.3, 0.99, 1e-4, 1e-38, 1e-300, 1 - 2.0 ** -24, 1 - 2.0 ** -53, 5.9604644775390625e-08]
    p = [rng.choice(special) if rng.random() < 0.4 else rng.random() for _ in range(numel(shape))]
    if dt == "mixed":
        p = [rnd32(v) for v in p]
    y = [float(rng.random() < 0.5) for _ in range(numel(shape))]
    tj = {"p": mk(p, shape, pd)}
    case = {"kind": "family", "family": "bern", "layout": "nTF", "dt": dt, "api": "get_func_nll"}
    if rng.random() < 0.8:
        m = [float(rng.random() < 0.75) for _ in range(numel(shape))]
        if rng.random() < 0.2:                  # an individual without any observed value
            k = numel(shape) // n
            i0 = rng.randrange(n)
            m = [0.0 if j // k == i0 else v for j, v in enumerate(m)]
        tj["mask"] = tjson(m, shape, "bool")
        if variants and rng.random() < 0.5:
            # what sits under the mask is nobody's business: a placeholder outside {0, 1}, nan (F31)
            y = [v if mm else rng.choice([v, 0.5, -1.0, 2.0, math.nan]) for v, mm in zip(y, m)]
            case["garbage_under_mask"] = True
    tj["y"] = mk(y, shape, yd)
    case["t"] = tj
    if variants:
        case["entry"] = rng.choice(ENTRIES)
        case["ambient"] = rng.choice([a for a in AMBIENTS if a != "requires_grad"])
        if "mask" in tj:
            case["wkind"] = rng.choice(WKINDS)
    return case


def nextafter(x, direction):
    return math.nextafter(x, math.inf if direction > 0 else -math.inf)


def gen_weib(rng, dt, sources=None, rho_fixed=None, extreme=None, variants=False):
    """dt: f64 (everything float64), p32 (nu, rho, survival shifts float32; xi, tau float64 - the joint model's layout),
    a32 (all parameters float32). Event times are always float64.
    variants: wider ranges (shape 0.05 .. 30, |xi| up to 4.5, scales over seven decades, up to 12 individuals / 4 events),
    the layouts at the edge (one individual; every event censored / observed; the trajectory layout: T time points of ONE
    individual as rows, all censored), other entry points, weights in other dtypes, other process states."""
    n, E = rng.randrange(1, 7), rng.randrange(1, 4)
    lay = None
    if variants:
        lay = rng.choice([None, None, None, "one", "all_cens", "all_obs", "traj", "big"])
        if lay == "one":
            n = 1
        elif lay == "big":
            n, E = rng.randrange(8, 13), rng.randrange(2, 5)
    sources = (rng.random() < 0.5) if sources is None else sources
    pdt = {"f64": "float64", "p32": "float32", "a32": "float32"}[dt]
    idt = {"f64": "float64", "p32": "float64", "a32": "float32"}[dt]
    f32 = lambda v: rnd32(v) if dt != "f64" else v  # noqa: E731
    extreme = extreme if extreme is not None else (rng.choice(["no", "no", "no", "scales"]) if (dt == "f64" or variants) else "no")
    rho_pool = [0.3, 1.0, 5.0, 0.3, 1.0, 5.0, rng.uniform(0.2, 8.0)]
    if variants:
        rho_pool += [10.0 ** rng.uniform(-1.3, 1.48), 10.0 ** rng.uniform(-1.3, 1.48), nextafter(1.0, 1), nextafter(1.0, -1), 2.0]
    rho = [f32(rho_fixed if rho_fixed is not None else rng.choice(rho_pool)) for _ in range(E)]
    if extreme == "scales":
        span = 30 if dt == "f64" else 12
        nu = [f32(10.0 ** rng.uniform(-span, span)) for _ in range(E)]
        tau = [0.0 for _ in range(n)]
    else:
        nu = [f32(10.0 ** (rng.uniform(-3, 4) if variants else rng.uniform(-1, 2.5))) for _ in range(E)]
        tau = [f32(rng.choice([0.0, rng.uniform(50, 90), rng.uniform(-5, 5)])) for _ in range(n)]
    xr = 4.5 if variants else 2.0
    xi = [f32(rng.choice([0.0, rng.uniform(-xr, xr), rng.uniform(-0.3, 0.3)])) for _ in range(n)]
    if lay == "traj":
        tau = [tau[0]] * n
        xi = [xi[0]] * n
    tj = {}
    s = None
    if sources:
        s = [[f32(rng.uniform(-2, 2) * min(1.0, rho[e_])) for e_ in range(E)] for _ in range(n)]
        if lay == "traj":
            s = [s[0]] * n
        tj["s"] = tjson([v for row in s for v in row], (n, E), pdt)
    t, ev = [], []
    for i in range(n):
        for e_ in range(E):
            nur = nu[e_] * math.exp(-(xi[i] + (s[i][e_] / rho[e_] if sources else 0.0)))
            mode = rng.choice(["pos", "pos", "pos", "neg", "zero", "ulp+", "ulp-", "smallpos"])
            if mode == "pos":
                hi = 0.7 if rho[e_] > 2 else 1.5
                if rho[e_] > 8:
                    hi = 0.3
                tt = tau[i] + nur * 10.0 ** rng.uniform(-2, hi)
            elif mode == "smallpos":
                tt = tau[i] + nur * 10.0 ** rng.uniform(-12, -3)
            elif mode == "neg":
                tt = tau[i] - rng.choice([1e-9, 0.5, 3.0, 50.0]) * (nur if extreme == "scales" else 1.0)
            elif mode == "zero":
                tt = tau[i]
            elif mode == "ulp+":
                tt = nextafter(tau[i], +1) if tau[i] != 0 else 1e-30 * nur
            else:
                tt = nextafter(tau[i], -1) if tau[i] != 0 else -1e-30 * nur
            t.append(float(tt))
            ev.append(float(rng.random() < 0.6))
    if lay in ("all_cens", "traj"):
        ev = [0.0] * len(ev)
    elif lay == "all_obs":
        ev = [1.0] * len(ev)
    t_shape = (n, E)
    if lay == "traj":
        # JointModel.compute_individual_trajectory: the event variable is (time points) x 1, all censored, one individual
        t = [t[i * E] for i in range(n)]
        ev = [0.0] * n
        t_shape = (n, 1)
        tj["xi"], tj["tau"] = tjson(xi[:1], (1, 1), idt), tjson(tau[:1], (1, 1), idt)
        if sources:
            tj["s"] = tjson(s[0], (1, E), pdt)
    else:
        tj["xi"], tj["tau"] = tjson(xi, (n, 1), idt), tjson(tau, (n, 1), idt)
    tj.update({"t": tjson(t, t_shape, "float64"), "ev": tjson(ev, t_shape, "bool"),
               "nu": tjson(nu, (E,), pdt), "rho": tjson(rho, (E,), pdt)})
    case = {"kind": "family", "family": "weib", "layout": ("nE_src" if sources else "nE") + (":" + lay if lay else ""), "dt": dt,
            "api": "get_func_nll", "extreme": extreme, "t": tj}
    if variants:
        case["entry"] = rng.choice(ENTRIES)
        case["ambient"] = rng.choice([a for a in AMBIENTS if a != "requires_grad"])
        case["wkind"] = rng.choice(["bool", "bool", "f32", "i64"])
    return case


def finding_witnesses():
    """F08a witnesses: observed event just after the reference time with a large shape (hazard underflows in float64)."""
    w1 = {"kind": "family", "family": "weib", "layout": "nE", "dt": "f64", "api": "get_func_nll", "extreme": "underflow", "t": {
        "t": tjson([70.00000000000001], (1, 1), "float64"), "ev": tjson([1.0], (1, 1), "bool"),
        "nu": tjson([50.0], (1,), "float64"), "rho": tjson([23.0], (1,), "float64"),
        "xi": tjson([0.0], (1, 1), "float64"), "tau": tjson([70.0], (1, 1), "float64")}}
    w2 = {"kind": "family", "family": "weib", "layout": "nE", "dt": "f64", "api": "get_func_nll", "extreme": "underflow", "t": {
        "t": tjson([1e-100, 1e-100], (2, 1), "float64"), "ev": tjson([1.0, 0.0], (2, 1), "bool"),
        "nu": tjson([1.0], (1,), "float64"), "rho": tjson([5.0], (1,), "float64"),
        "xi": tjson([0.0, 0.0], (2, 1), "float64"), "tau": tjson([0.0, 0.0], (2, 1), "float64")}}
    return [w1, w2]


def family_cases(chk):
    rng = chk.rng
    thorough = chk.tier == "thorough"
    cases = []
    for dt in ("f32", "f64", "mixed"):
        for lay in NORMAL_LAYOUTS:
            for ex in ("no", "tiny", "huge"):
                cases.append(gen_normal(rng, dt, lay, ex))
        for _ in range(60 if thorough else 12):
            cases.append(gen_normal(rng, dt))
        for _ in range(40 if thorough else 10):
            cases.append(gen_bern(rng, dt))
        # edge layouts, every decade of the scale, other entry points / weight dtypes / process states
        for lay in NORMAL_EDGE_LAYOUTS:
            cases.append(gen_normal(rng, dt, lay, None, variants=True))
        for _ in range(80 if thorough else 14):
            cases.append(gen_normal(rng, dt, rng.choice(NORMAL_LAYOUTS + NORMAL_EDGE_LAYOUTS), rng.choice(["no", "small", "large", "small"]), variants=True))
        for _ in range(40 if thorough else 8):
            cases.append(gen_bern(rng, dt, variants=True))
    cases += gen_normal_special(rng)
    for dt in ("f64", "p32", "a32"):
        for src in (False, True):
            for rho in (0.3, 1.0, 5.0):
                for _ in range(6 if thorough else 2):
                    cases.append(gen_weib(rng, dt, src, rho))
            for _ in range(60 if thorough else 10):
                cases.append(gen_weib(rng, dt, src))
            for _ in range(60 if thorough else 10):
                cases.append(gen_weib(rng, dt, src, None, None, variants=True))
    for src in (False, True):
        for _ in range(40 if thorough else 8):
            cases.append(gen_weib(rng, "f64", src, None, "scales"))
    for i, c in enumerate(cases):
        if i % 97 == 0 and numel(c["t"][next(iter(c["t"]))]["shape"]) <= 6:
            c["sample"] = True
    return cases


# ---------------------------------------------------------------------------- real models: state['nll_*']
# (tests/_data/.../shared_speed_logistic_diag_noise_no_source.json is a stale file of a model kind that no longer exists: not listed)
MORE_STATE_MODELS = ["linear_diag_noise", "shared_speed_logistic_diag_noise", "shared_speed_logistic_scalar_noise",
                     "joint_no_sources", "univariate_logistic", "univariate_linear",
                     "logistic_diag_noise_fast_gibbs", "logistic_binary_for_test_api", "univariate_joint_for_test_api"]
STATE_MODELS = ["logistic_diag_noise", "logistic_scalar_noise", "logistic_binary", "linear_scalar_noise",
                "shared_speed_logistic_binary", "joint_diagonal", "joint_scalar", "univariate_joint"]


def punch(df, cols, seed):
    """some outcomes of existing visits go missing (never a whole visit)"""
    import random
    r = random.Random(seed)
    df = df.copy()
    for i in df.index:
        if len(cols) >= 2 and r.random() < 0.3:
            df.loc[i, r.choice(cols)] = float("nan")
    return df


def load_model(name, holes_seed=None, subset=None, events2=False):
    """stored model + mock cohort.  subset: None (whole cohort) | 'one' (ONE individual with ONE visit) | 'few' (three individuals);
    events2: the joint model with two competing events (EVENT_BOOL in {0, 1, 2} through the public reader)."""
    import copy
    import json
    import pandas as pd
    from leaspy.io.data import Data, Dataset
    from leaspy.models import BaseModel
    R = core.REPO / "tests/_data"
    path = R / f"model_parameters/from_fit/{name}.json"
    if events2:
        d = copy.deepcopy(json.loads(path.read_text()))
        d["nb_events"] = 2
        P = d["parameters"]
        P["log_rho_mean"] = [P["log_rho_mean"][0], 0.4]
        P["n_log_nu_mean"] = [P["n_log_nu_mean"][0], P["n_log_nu_mean"][0] - 0.75]
        if "zeta_mean" in P:
            P["zeta_mean"] = [[row[0], -2.0 * row[0] + 0.125] for row in P["zeta_mean"]]
        m = BaseModel.load(d)
    else:
        m = BaseModel.load(str(path))
    joint = "joint" in name
    if joint:
        df = pd.read_csv(R / "data_mock/data_tiny_joint.csv", dtype={"ID": str}, sep=";")
        if "univariate" in name:
            df = df.iloc[:, :5]
        if events2:
            for k, i in enumerate(df.ID.unique()):
                if k % 3 == 0:
                    df.loc[(df.ID == i) & (df.EVENT_BOOL == 1), "EVENT_BOOL"] = 2
    elif "binary" in name:
        df = pd.read_csv(R / "data_mock/binary_data.csv", dtype={"ID": str})
    else:
        df = pd.read_csv(R / "data_mock/data_tiny.csv", dtype={"ID": str})
        if "univariate" in name:
            df = df.iloc[:, :3]
    if subset is not None:
        ids = list(df.ID.unique())
        if joint:   # the reader infers the number of events from the largest indicator: keep an individual that has it
            top = df.EVENT_BOOL.max()
            ids = [i for i in ids if df[df.ID == i].EVENT_BOOL.iloc[0] == top] + [i for i in ids if df[df.ID == i].EVENT_BOOL.iloc[0] != top]
        if subset == "one":
            df = df[df.ID == ids[0]].iloc[:1]
        else:
            df = df[df.ID.isin(ids[:2] + ids[-1:])]
    if holes_seed is not None and not joint and subset != "one":
        df = punch(df, [c for c in df.columns if c not in ("ID", "TIME")], holes_seed)
    data = Data.from_dataframe(df, data_type="joint") if joint else Data.from_dataframe(df)
    return m, Dataset(data)


# documented parametrisation of every likelihood term (NOT read from the implementation's objects)
DOC_OBS = {
    "gaussian-diagonal": ("normal", ("model", "noise_std")),
    "gaussian-scalar": ("normal", ("model", "noise_std")),
    "bernoulli": ("bern", ("model",)),
    "weibull-right-censored": ("weib", ("nu", "rho", "xi", "tau")),
    "weibull-right-censored-with-sources": ("weib", ("nu", "rho", "xi", "tau", "survival_shifts")),
}


def _famname(fam):
    D = env()["D"]
    return {D.NormalFamily: "normal", D.BernoulliFamily: "bern", D.WeibullRightCensoredFamily: "weib",
            D.WeibullRightCensoredWithSourcesFamily: "weib"}.get(fam)


def state_case(chk, name, seed, tau_mode, variant=None):
    """Real model: draw individual latent variables, read state['nll_*'], rebuild every term from the state's own
    inputs with (a) the family-level evaluation above (predicate + Lean model) and (b) the sums kept in the state.
    Then the SAME state gets other parameters written in place (noise levels below 0.01, other prior widths and centres,
    individual values several prior std-devs out) and everything is evaluated again: the terms must follow the current values."""
    import random
    e = env()
    torch, np, WT, D = e["torch"], e["np"], e["WT"], e["D"]
    from leaspy.variables.specs import IndividualLatentVariable, LatentVariableInitType
    variant = dict(variant or {})
    case = {"kind": "state", "model": name, "seed": seed, "tau_mode": tau_mode}
    if variant:
        case["variant"] = variant
    if not (core.REPO / f"tests/_data/model_parameters/from_fit/{name}.json").exists():
        chk.note(f"stored model {name}.json not in {core.REPO}: state-level case skipped")
        return
    try:
        with core.quiet():
            m, ds = load_model(name, holes_seed=(seed if seed % 2 == 0 else None), subset=variant.get("subset"), events2=bool(variant.get("events2")))
            st = m.state
            m.put_data_variables(st, ds)
            torch.manual_seed(seed)
            with st.auto_fork(None):
                st.put_individual_latent_variables(LatentVariableInitType.PRIOR_SAMPLES, n_individuals=ds.n_individuals)
                if "joint" in name:
                    # the joint model keeps xi / tau as float64 (JointModel.put_individual_parameters builds them from a DataFrame);
                    # after a sampler step they are float32 again: both
                    idt = torch.float32 if variant.get("ind_dtype") == "f32" else torch.float64
                    xi = st["xi"].double()
                    tau = st["tau"].double()
                    et = ds.event_time[:, :1].double()
                    n = tau.shape[0]
                    if tau_mode == "before":
                        tau = torch.minimum(tau, et - 0.3)
                    elif tau_mode == "mixed":
                        g = torch.Generator().manual_seed(seed)
                        pick = torch.randint(0, 5, (n, 1), generator=g)
                        tau = torch.where(pick == 0, et, tau)                 # t' = 0
                        tau = torch.where(pick == 1, et + 1.5, tau)           # t' < 0
                        tau = torch.where(pick == 2, et - 1e-9, tau)          # t' = +tiny
                        tau = torch.where(pick == 3, torch.minimum(tau, et - 0.3), tau)
                    elif tau_mode == "after":                                 # every event before the reference time
                        tau = et + 1.5
                    st["xi"] = xi.to(idt)
                    st["tau"] = tau.to(idt)
    except Exception as ex:  # noqa
        chk.impl_failure(case, f"reading state['nll_*'] of stored model {name} failed: {type(ex).__name__}: {str(ex)[:200]}")
        chk.case(("state", name, seed, tau_mode, json_key(variant)), nontrivial=False, tags={"family": "state", "state_model": name})
        return
    if not _eval_state(chk, case, m, ds, st, name, seed, tau_mode, variant, "drawn"):
        return
    # ---- second pass on the very same state: other parameter values written in place
    r = random.Random(seed * 7919 + 13)
    case2 = dict(case, second_pass="hand-set parameters and far-tail individual values on the same state")
    try:
        with core.quiet(), st.auto_fork(None):
            if "noise_std" in st.dag:
                ns = st["noise_std"]
                k = torch.tensor([r.choice([0.03, 0.08, 0.5, 3.0]) for _ in range(max(ns.numel(), 1))]).reshape(ns.shape).to(ns.dtype)
                st["noise_std"] = ns * k
            st["xi_std"] = st["xi_std"] * r.choice([0.25, 3.0])
            st["tau_std"] = st["tau_std"] * r.choice([0.3, 2.5])
            st["tau_mean"] = st["tau_mean"] + r.choice([-4.0, 5.0])
            far = r.choice([3.0, 4.5])
            st["xi"] = (st["xi"] * far).to(st["xi"].dtype)
            if "joint" not in name:
                st["tau"] = (st["tau_mean"] + (st["tau"] - st["tau_mean"]) * far).to(st["tau"].dtype)
            if "sources" in st.dag:
                st["sources"] = (st["sources"] * far).to(st["sources"].dtype)
    except Exception as ex:  # noqa
        chk.impl_failure(case2, f"writing admissible parameter values into the state of {name} failed: {type(ex).__name__}: {str(ex)[:200]}")
        return
    _eval_state(chk, case2, m, ds, st, name, seed, tau_mode, variant, "handset")


def json_key(v):
    import json
    return json.dumps(v, sort_keys=True)


def _eval_state(chk, case, m, ds, st, name, seed, tau_mode, variant, label):
    e = env()
    torch, np, WT, D = e["torch"], e["np"], e["WT"], e["D"]
    from leaspy.variables.specs import IndividualLatentVariable, PopulationLatentVariable

    def plain(v):
        return (v.weighted_value if isinstance(v, WT) else v).detach().double()

    try:
        with core.quiet():
            terms = []
            if "y" in st.dag:
                # the observations enter the likelihood with the dataset's own mask: a missing outcome contributes nothing
                yv = st["y"]
                if not (isinstance(yv, WT) and yv.weight is not None and torch.equal(yv.weight != 0, ds.mask != 0)):
                    nmiss = int((ds.mask == 0).sum())
                    chk.impl_failure(case, f"state['y'] does not carry the dataset's mask ({nmiss} missing or padded entries): "
                                           "missing outcomes are evaluated as observed values")
                elif not torch.equal(torch.where(ds.mask != 0, yv.value.double(), torch.zeros_like(yv.value.double())),
                                     torch.where(ds.mask != 0, ds.values.double(), torch.zeros_like(ds.values.double()))):
                    chk.impl_failure(case, "state['y'] does not hold the dataset's observed values")
            if "event" in st.dag:
                evv = st["event"]
                if not (torch.equal(evv.value, ds.event_time) and evv.weight is not None
                        and torch.equal(evv.weight != 0, ds.event_bool != 0)):
                    chk.impl_failure(case, "state['event'] is not (dataset.event_time weighted by dataset.event_bool): censoring indicator lost")
            for om in m.obs_models:
                fam = om.dist.dist_family
                nm = f"nll_attach_{om.name}_ind" if f"nll_attach_{om.name}_ind" in st.dag else "nll_attach_ind"
                # the documented parametrisation, from the observation model's public name
                doc = DOC_OBS.get(om.to_string())
                if doc is None:
                    chk.tag("state_obs_model_not_documented_here", om.to_string())
                elif _famname(fam) != doc[0] or tuple(om.dist.parameters_names) != doc[1]:
                    chk.impl_failure(case, f"observation model '{om.to_string()}' evaluates {fam.__name__}{tuple(om.dist.parameters_names)}; "
                                           f"documented: {doc[0]} distribution of {doc[1]}")
                terms.append((om.name, fam, om.dist.parameters_names, nm, "ind", "get_func_nll"))
            for vn, var in st.dag.items():
                if isinstance(var, (IndividualLatentVariable, PopulationLatentVariable)):
                    if _famname(var.prior.dist_family) != "normal" or tuple(var.prior.parameters_names) != (f"{vn}_mean", f"{vn}_std"):
                        chk.impl_failure(case, f"prior of latent variable '{vn}' is {var.prior.dist_family.__name__}{tuple(var.prior.parameters_names)}; "
                                               f"documented: Gaussian({vn}_mean, {vn}_std)")
                if isinstance(var, IndividualLatentVariable):
                    terms.append((vn, var.prior.dist_family, var.prior.parameters_names, f"nll_regul_{vn}_ind", "ind", "get_func_regularization"))
                elif isinstance(var, PopulationLatentVariable):
                    terms.append((vn, var.prior.dist_family, var.prior.parameters_names, f"nll_regul_{vn}", "all", "get_func_regularization"))
            got = []
            for vn, fam, pnames, nllname, red, api in terms:
                val = st[vn]
                params = [st[p] for p in pnames]
                params = [p.weighted_value if isinstance(p, WT) else p for p in params]
                got.append((vn, fam, pnames, nllname, red, api, val, params, st[nllname]))
            # shape / scale of the Weibull and the survival shifts from the latent variables they are documented to derive from
            derived = []
            if "nu" in st.dag and "n_log_nu" in st.dag:
                derived.append(("nu = exp(-n_log_nu)", plain(st["nu"]), torch.exp(-plain(st["n_log_nu"])), None))
                derived.append(("rho = exp(log_rho)", plain(st["rho"]), torch.exp(plain(st["log_rho"])), None))
            if "survival_shifts" in st.dag:
                S_, Z_ = plain(st["sources"]), plain(st["zeta"])
                derived.append(("survival_shifts = sources @ zeta", plain(st["survival_shifts"]), S_ @ Z_, S_.abs() @ Z_.abs()))
            # totals the algorithms read (acceptance ratios, convergence metrics) against the per-term values of the same state
            totals = []
            names = set(st.dag)

            def tot(target, parts, how):
                if target in names and all(p_ in names for p_ in parts):
                    totals.append((target, how, plain(st[target]), [plain(st[p_]) for p_ in parts]))
            if "nll_attach_y_ind" in names:
                tot("nll_attach_ind", ["nll_attach_y_ind", "nll_attach_event_ind"], "sum of the parts")
                tot("nll_attach", ["nll_attach_y", "nll_attach_event"], "sum of the parts")
                tot("nll_attach_y", ["nll_attach_y_ind"], "sum over individuals")
                tot("nll_attach_event", ["nll_attach_event_ind"], "sum over individuals")
            tot("nll_attach", ["nll_attach_ind"], "sum over individuals")
            ind_vars = [vn for vn, var in st.dag.items() if isinstance(var, IndividualLatentVariable)]
            for vn in ind_vars:
                tot(f"nll_regul_{vn}", [f"nll_regul_{vn}_ind"], "sum over individuals")
            tot("nll_regul_ind_sum_ind", [f"nll_regul_{vn}_ind" for vn in ind_vars], "sum of the parts")
            tot("nll_regul_ind_sum", ["nll_regul_ind_sum_ind"], "sum over individuals")
    except Exception as ex:  # noqa
        chk.impl_failure(case, f"reading state['nll_*'] of stored model {name} failed ({label}): {type(ex).__name__}: {str(ex)[:200]}")
        chk.case(("state", name, seed, tau_mode, json_key(variant), label), nontrivial=False, tags={"family": "state", "state_model": name})
        return False
    for what, have, want, mag in derived:
        mag = want.abs() if mag is None else mag
        if have.shape != want.shape or not bool(((have - want).abs() <= 16 * EPS32 * (mag + have.abs()) + 1e-30).all()):
            chk.impl_failure(case, f"state: {what} does not hold: {have.reshape(-1)[:4].tolist()} vs {want.reshape(-1)[:4].tolist()}")
    for target, how, have, parts in totals:
        if how == "sum over individuals":
            want, mag, cnt = parts[0].sum(), parts[0].abs().sum(), parts[0].numel()
        else:
            want, mag, cnt = sum(parts), sum(p_.abs() for p_ in parts), len(parts)
        ok = (have - want).abs() <= (cnt + 2) * 4 * EPS32 * mag + 1e-30
        ok = ok | (torch.isnan(have) & torch.isnan(want)) | (torch.isinf(have) & (have == want))
        if have.shape != want.shape or not bool(ok.all()):
            chk.impl_failure(case, f"state['{target}'] = {have.reshape(-1)[:3].tolist()} is not the {how} ({want.reshape(-1)[:3].tolist()})")
        # a total is finite as long as fewer than 17 penalised events are summed (17 * 1e307 is still a double)
        if torch.isinf(have).any() and not any(torch.isinf(p_).any() for p_ in parts):
            chk.tag("penalty_total_overflow", target)
    sub = []
    for vn, fam, pnames, nllname, red, api, val, params, nll in got:
        famname = _famname(fam)
        if famname is None:
            chk.tag("state_family_not_covered", fam.__name__)
            continue
        if isinstance(val, WT):
            v, w = val.value, val.weight
        else:
            v, w = val, None
        tj = {}
        if famname == "normal":
            tj = {"x": from_torch(v), "loc": from_torch(params[0]), "scale": from_torch(params[1])}
            if w is not None:
                tj["mask"] = tjson((w != 0).double().reshape(-1).tolist(), tuple(w.shape), "bool")
            dtl = "f32" if all(tj[k]["dtype"] == "float32" for k in ("x", "loc", "scale")) else "mixed"
        elif famname == "bern":
            tj = {"y": from_torch(v), "p": from_torch(params[0])}
            if w is not None:
                tj["mask"] = tjson((w != 0).double().reshape(-1).tolist(), tuple(w.shape), "bool")
            dtl = "f32" if tj["p"]["dtype"] == "float32" else "mixed"
        else:
            tj = {"t": from_torch(v), "ev": tjson((w != 0).double().reshape(-1).tolist(), tuple(w.shape), "bool")}
            for k, p in zip(("nu", "rho", "xi", "tau", "s"), params):
                tj[k] = from_torch(p)
            dtl = "a32" if tj["xi"]["dtype"] == "float32" else "p32"
        c = {"kind": "family", "family": famname, "layout": f"state:{name}:{vn}", "dt": dtl, "api": api, "t": tj,
             "origin": case, "_nll": nll.detach().double().reshape(-1).numpy(), "_red": red}
        sub.append(c)
    # family-level evaluation on the state's own tensors (predicate + model), then the stored sums
    c_impl = float(D.NormalFamily.nll_constant_standard)
    impls = [run_impl(c) for c in sub]
    lines = [request_line(c, c_impl) for c in sub]
    out = chk.model(lines)
    for c, impl, resp in zip(sub, impls, out):
        nll, red = c.pop("_nll"), c.pop("_red")
        try:
            model = parse_resp(resp)
        except Exception:
            chk.disagree(c, "?", resp[:200], "unparsable model response")
            continue
        if isinstance(model, str) and model in ("bad-request", "err:driver"):
            chk.disagree(c, "?", model, "model refused the request")
            continue
        entry_env = EVAL[c["family"]](chk, c, impl, model)
        if "err" in impl or isinstance(model, str) or entry_env is None:
            continue
        # stored per-individual (or total) value vs the sum of the entry-wise values (mask-aware)
        mv = np.array(model["v"], dtype=np.float64).reshape(model["shape"])
        iv = impl["v"]
        mask = to_np(c["t"]["mask"]).astype(bool) if "mask" in c["t"] else np.ones(mv.shape, dtype=bool)
        if c["family"] == "weib":
            mask = np.ones(mv.shape, dtype=bool)
        eps = EPS32
        for label_, arr in (("implementation's entry-wise values", iv), ("model's entry-wise values", mv)):
            a = np.where(mask, arr, 0.0)
            big = np.abs(a) >= 1e300
            if red == "ind":
                tot_ = a.reshape(a.shape[0], -1).sum(axis=1)
                mag = np.abs(a).reshape(a.shape[0], -1).sum(axis=1)
                cnt = a.reshape(a.shape[0], -1).shape[1]
            else:
                tot_ = np.array([a.sum()])
                mag = np.array([np.abs(a).sum()])
                cnt = a.size
            ee = np.where(mask, entry_env, 0.0)
            esum = ee.reshape(ee.shape[0], -1).sum(axis=1) if red == "ind" else np.array([ee.sum()])
            envs = 2.0 * esum + (cnt + 2) * eps * mag + 1e-30   # entry envelopes (both sides) + float32 summation
            if tot_.shape != nll.shape:
                chk.disagree(c, list(nll.shape), list(tot_.shape), f"state['{_nllname(c)}'] shape")
                break
            ok = close(nll, tot_, envs)
            bad = first_bad(ok)
            if bad is not None:
                msg = f"state['{_nllname(c)}'][{bad[0]}] = {float(nll[bad])!r} but the sum of the {label_} over the unmasked entries is {float(tot_[bad])!r}"
                if label_.startswith("impl"):
                    chk.impl_failure(c, msg)
                else:
                    chk.disagree(c, float(nll[bad]), float(tot_[bad]), msg)
                break
            if big.any() and not np.isfinite(nll).all():
                chk.impl_failure(c, f"state['{_nllname(c)}'] not finite with a penalised event")
        nontrivial, key, tags = classify(c)
        tags["state_model"] = name
        tags["layout"] = "state:" + _nllname(c)
        tags["state_pass"] = label
        for k_, v_ in variant.items():
            tags["state_" + k_] = str(v_)
        chk.case(("state", name, seed, tau_mode, json_key(variant), label, c["layout"]), nontrivial=nontrivial, tags=tags)
    return True


def _nllname(c):
    vn = c["layout"].split(":")[-1]
    return {"get_func_nll": f"nll_attach_{vn}_ind"}.get(c["api"], f"nll_regul_{vn}[_ind]")


def probe_f32_event_time(chk):
    e = env()
    torch, WT, D = e["torch"], e["WT"], e["D"]
    try:
        D.WeibullRightCensoredFamily._nll(WT(torch.tensor([[1.0]]), torch.tensor([[True]])), torch.tensor([1.0]), torch.tensor([2.0]),
                                          torch.tensor([[0.0]]), torch.tensor([[0.0]]))
        chk.tag("f32_event_time", "accepted")
    except RuntimeError:
        chk.tag("f32_event_time", "RuntimeError (unreachable: Dataset event times are float64)")
    except Exception as ex:  # noqa
        chk.tag("f32_event_time", type(ex).__name__)
    # public path: Dataset builds float64 event times
    try:
        with core.quiet():
            _, ds = load_model("univariate_joint")
        if str(ds.event_time.dtype) != "torch.float64":
            chk.note(f"Dataset.event_time dtype is {ds.event_time.dtype}, the float32 RuntimeError would be reachable")
            chk.impl_failure({"kind": "dataset-dtype"}, f"Dataset.event_time is {ds.event_time.dtype}: Weibull nll raises RuntimeError on float32 event times")
    except Exception as ex:  # noqa
        chk.note(f"could not load joint dataset: {type(ex).__name__}")


def probe_finding(chk):
    ws = finding_witnesses()
    before = len(chk.impl_failures)
    run_cases(chk, ws)
    hits = [f for f in chk.impl_failures[before:] if f["finding"] == FID]
    others = [f for f in chk.impl_failures[before:] if f["finding"] != FID]
    if hits:
        chk.known_finding_reproduces(FID, "observed event with t'>0 and hazard underflowing to 0 (e.g. event_time=70.00000000000001, tau=70, nu=50, rho=23): "
                                          "log-hazard taken as 0, nll = survival term only")
    elif not others:
        chk.note(f"finding {FID} no longer reproduces")


def run(chk: core.Check):
    env()
    chk.rule = ("family level: SymbolicDistribution.get_func_nll / get_func_regularization and the family classes' methods on random tensors "
                "in every layout the models use (attachment (n,T,F) with per-feature / scalar / 0-dim noise; population priors; individual "
                "priors; events (n,E) with (E,) population and (n,1) individual parameters, with and without sources), dtypes float32 / float64 / "
                "mixed, rho in {0.3,1,5}+random, t' in {>0, tiny, 0, +-1 ulp, <0}, tiny/huge scales; state level: state['nll_*'] of 8 stored "
                "models after drawing individual variables (tau moved around the event time for joint models). A Weibull case is non-trivial "
                "when it holds at least one observed and one censored entry; distinct by exact input values. "
                "Hardened generation: ONE symbolic distribution / function object per family for the whole run; every call is preceded by a dropped "
                "call on other values held by the very same tensor objects (then overwritten in place) and followed by a bitwise check that the "
                "inputs are untouched; every public entry point (get_func_nll / _regularization / _nll_jacobian / _nll_and_jacobian, the family "
                "classmethods nll / regularization / nll_jacobian / nll_and_jacobian, regularization of a weighted value, compute_hazard); weights as "
                "bool / float / integer tensors and nested lists; process state (default dtype float64, no_grad, inputs requiring grad, non-contiguous "
                "inputs); Gaussian scales over every decade 1e-12 .. 1e12, residuals out to 1e4 std-devs, non-finite inputs (model only), 0-dim / single "
                "entry / > 10 component layouts, individuals without any observed entry; Bernoulli placeholders (nan, 0.5, -1, 2) under the mask; "
                "Weibull shape 0.05 .. 30, |xi| <= 4.5, scales 1e-3 .. 1e4 (and 1e+-12 in float32), up to 12 individuals x 4 events, one individual, all "
                "censored / all observed, the trajectory layout (time points x 1 against one individual). State level: documented parameter names and "
                "families checked against a table, nu / rho / survival_shifts recomputed from the latent variables, every total (nll_attach[_ind], "
                "nll_regul_*, nll_regul_ind_sum[_ind]) against its parts, then a SECOND evaluation of the same state after writing other noise levels "
                "(down to 3% of the fitted ones), prior widths / centres and far-tail individual values into it; 3 more stored models per run, cohorts "
                "of one individual with one visit / three individuals, two competing events through the public reader, float32 individual variables "
                "in the joint model, every event before the reference time.")
    corpus = [c for c in core.load_corpus(PROP) if c.get("kind") == "family"]
    probe_f32_event_time(chk)
    run_cases(chk, corpus + family_cases(chk))
    probe_finding(chk)
    seeds = range(4) if chk.tier == "thorough" else range(1)
    for name in STATE_MODELS:
        for sd in seeds:
            modes = ["mixed", "before"] if "joint" in name else ["prior"]
            for md in modes:
                state_case(chk, name, chk.rng.randrange(10 ** 6) if sd else chk.seed, md)
    # other stored models, cohorts at the edge (one individual with one visit, three individuals), two competing events through
    # the public reader, individual variables of the joint model in float32, every event before the reference time
    rng = chk.rng
    extra = []
    for name in (MORE_STATE_MODELS if chk.tier == "thorough" else rng.sample(MORE_STATE_MODELS, 3)):
        extra.append((name, "mixed" if "joint" in name else "prior", {"subset": rng.choice([None, "few", "one"])}))
    for name in ("joint_diagonal", "univariate_joint", "joint_scalar"):
        extra.append((name, rng.choice(["mixed", "before"]), {"events2": True, "ind_dtype": rng.choice(["f64", "f32"])}))
    extra.append((rng.choice(["joint_diagonal", "univariate_joint"]), "after", {"ind_dtype": "f32"}))
    extra.append((rng.choice(["joint_diagonal", "joint_scalar"]), "mixed", {"subset": "one", "events2": rng.random() < 0.5}))
    extra.append((rng.choice(["logistic_diag_noise", "logistic_binary", "linear_scalar_noise"]), "prior", {"subset": "one"}))
    for _ in range(3 if chk.tier == "thorough" else 1):
        for name, md, var in extra:
            state_case(chk, name, rng.randrange(10 ** 6), md, {k: v for k, v in var.items() if v not in (None, False)})
    chk.exhaustive = False


def replay(chk: core.Check, payload):
    env()
    case = payload.get("case") or (payload.get("disagreements") or [{}])[0].get("case")
    if not case:
        chk.note("replay file has no case")
        return
    if case.get("kind") == "state":
        state_case(chk, case["model"], case["seed"], case["tau_mode"], case.get("variant"))
    elif case.get("kind") == "family":
        case = {k: v for k, v in case.items() if not k.startswith("_")}
        run_cases(chk, [case])
    elif case.get("kind") == "constants":
        run_cases(chk, [])
    else:
        chk.note(f"cannot replay case of kind {case.get('kind')}")
