"""C08 — likelihood terms are the negative log-densities of the documented distributions.

Correspondence: `SymbolicDistribution.get_func_nll / get_func_regularization`, the family classes'
`_nll`, `_nll_jacobian`, `_nll_and_jacobian`, `compute_log_survival`, `compute_log_likelihood_hazard`
and `state['nll_*']` of real (stored) models, against `Model/Dist.lean` run on IEEE doubles through
`drivers/C08.lean`.

Two comparisons per case:
  * property predicate on the implementation alone: entry-wise value vs an independent float64
    reference (scipy.stats norm / bernoulli / weibull_min log-densities and log-survival);
  * implementation vs Lean model (same inputs, exact double values of the float32/float64 entries).
Both use the same envelope, derived per formula from the dtype (unit round-off of the least precise
tensor taking part) and the operations of the formula (see `env_*`).  The penalty branch
(observed event, t <= tau) is compared exactly and checked for finiteness.
"""
from __future__ import annotations

import math
import warnings

from . import core
from .core import fmt_float, parse_float, split_ne

PROP = "C08"
FID = "F08a"
LEAN = dict(
    props="LeaspyVerif.Props.C08",
    driver="drivers/C08.lean",
    harness="c08_dist.py",
    extra_modules=["LeaspyVerif.Model.Dist"],
    theorems=["normalNll_eq_neg_log_pdf", "normalNll_density_normalised", "normalNllJac_hasDerivAt",
              "normalNllJac_forms_agree", "bernoulliNll_eq", "bernoulliNll_clamped", "infinity_eq",
              "weibull_censored", "weibull_censored_eq_neg_log_survival", "weibull_observed",
              "weibull_reparam", "weibull_reparam_sources", "weibull_sources_proportional_hazards",
              "weibull_penalty", "weibull_penalty_nll", "weibull_censored_before_reference",
              "weibull_density_is_neg_deriv_survival", "penalty_float_finite", "penalty_float_value"],
    trusted_extra=[
        "theorems are over the reals (Real.exp/log/rpow, Mathlib gaussianPDFReal); the executable instance is IEEE double "
        "(C libm exp/log/pow) while torch uses its own vectorised kernels: compared through a per-formula envelope, never bitwise",
        "torch.distributions.Bernoulli.log_prob is modelled by its documented composition (clamp_probs, probs_to_logits, "
        "binary_cross_entropy_with_logits)",
        "independent reference for the property predicate: scipy.stats.norm/bernoulli/weibull_min in float64",
    ],
    assumptions=[
        "event times are float64 (Dataset builds them so); with float32 event times torch.where(..., -1e307) raises RuntimeError "
        "(probed on every run, recorded in input_distribution.f32_event_time) - unreachable through the public API, not a finding",
        "NormalFamily.nll_constant_standard is a float32 0-dim tensor whatever the input dtype: its stored value is compared with "
        "0.5*log(2*pi) to float32 accuracy and handed to the model for the entry-wise comparison",
        "domains: scale > 0, 0 <= p <= 1, y in {0,1}, nu > 0, rho > 0; a few out-of-domain inputs (scale <= 0) are compared with the model only",
    ],
)

EPS32 = 2.0 ** -24   # unit round-off
EPS64 = 2.0 ** -53
K = 16.0             # safety factor on the first-order bounds below (covers both sides' worst-case roundings)
INF_CONST = float(10 ** 307)

_ENV = None


def env():
    global _ENV
    if _ENV is None:
        warnings.filterwarnings("ignore")
        import leaspy.models  # noqa: F401  (must precede leaspy.variables)
        import numpy as np
        import scipy.stats as sst
        import torch
        from leaspy.constants import constants
        from leaspy.utils.weighted_tensor import WeightedTensor
        from leaspy.variables import distributions as D
        _ENV = dict(np=np, sst=sst, torch=torch, constants=constants, WT=WeightedTensor, D=D)
    return _ENV


def err_class(e):
    n = type(e).__name__
    if isinstance(e, RuntimeError):
        return "err:shape" if "must match" in str(e) or "broadcast" in str(e) else f"err:other:{n}"
    if n.startswith("Leaspy") and "Input" in n:
        return "err:input"
    return f"err:other:{n}"


# ---------------------------------------------------------------------------- tensors <-> json / protocol
def tjson(vals, shape, dtype):
    """JSON form of a tensor: exact values as python floats (already rounded to dtype)."""
    return {"dtype": dtype, "shape": list(shape), "v": [float(x).hex() for x in vals]}


def tvals(tj):
    return [float.fromhex(h) for h in tj["v"]]


def to_torch(tj):
    e = env()
    torch = e["torch"]
    dt = {"float32": torch.float32, "float64": torch.float64, "bool": torch.bool}[tj["dtype"]]
    if tj["dtype"] == "bool":
        return torch.tensor([bool(x) for x in tvals(tj)], dtype=dt).reshape(tj["shape"])
    return torch.tensor(tvals(tj), dtype=torch.float64).to(dt).reshape(tj["shape"])


def from_torch(t):
    dt = str(t.dtype).replace("torch.", "")
    return tjson(t.detach().double().reshape(-1).tolist(), tuple(t.shape), dt)


def to_np(tj):
    np = env()["np"]
    return np.array(tvals(tj), dtype=np.float64).reshape(tj["shape"])


def treq(tj):
    sh = "x".join(str(s) for s in tj["shape"]) if tj["shape"] else "s"
    return sh + "|" + ",".join(fmt_float(x) for x in tvals(tj))


def rnd32(x):
    import struct
    try:
        return struct.unpack("<f", struct.pack("<f", x))[0]
    except OverflowError:
        return math.copysign(math.inf, x)


def parse_resp(resp):
    if resp.startswith("err") or resp == "bad-request":
        return resp
    out = {}
    for part in resp.split(" "):
        k, v = part.split("=", 1)
        if k == "shape":
            out[k] = [] if v == "s" else [int(s) for s in v.split("x")]
        elif v == "none":
            out[k] = None
        else:
            out[k] = [parse_float(x) for x in split_ne(v)]
    return out


def case_eps(case, names):
    return EPS32 if any(case["t"][n]["dtype"] == "float32" for n in names if n in case["t"]) else EPS64


def tiny_of(eps):
    return 1e-36 if eps == EPS32 else 1e-290


# ---------------------------------------------------------------------------- envelopes (numpy, entry-wise)
def env_normal(eps, q, logs, c):
    """0.5*z*z + log(s) + c : z has relative error <= 2 eps, z*z <= 5 eps, log(s) <= 2 ulp, two additions."""
    np = env()["np"]
    return K * eps * (np.abs(q) + np.abs(logs) + abs(c)) + tiny_of(eps)


def env_bern(eps, lp, l1p):
    """logits = log(p) - log1p(-p) then (1-y)*l + softplus(-l): absolute error ~ eps*(|log p| + |log(1-p)| + 1)."""
    np = env()["np"]
    return K * eps * (np.abs(lp) + np.abs(l1p) + 1.0) + tiny_of(eps)


def env_weib(eps, rho, xi, sr, tr, nur, ls, lh):
    """First-order propagation through nu' = nu*exp(-(xi + s/rho)), u = t'/nu', u**rho, (rho/nu')*u**(rho-1), log, sum.
    Returns (envelope of log-survival, of log-hazard, of nll)."""
    np = env()["np"]
    a = np.abs(xi + sr)
    e_nu = eps * (4.0 + 2.0 * np.abs(sr) + a)               # relative error of nu'
    e_u = e_nu + 2.0 * eps                                  # relative error of u
    with np.errstate(all="ignore"):
        logu = np.where(tr > 0, np.log(np.where(tr > 0, tr, 1.0)) - np.log(nur), 0.0)
    e_ls = np.abs(ls) * (np.abs(rho) * e_u + 4.0 * eps)
    lhf = np.where(np.isfinite(lh), np.abs(lh), 0.0)
    e_lh = e_nu + np.abs(rho - 1.0) * (e_u + eps * np.abs(logu)) + 6.0 * eps + 2.0 * eps * lhf
    e_lh = np.where(np.abs(lh) >= 1e300, 0.0, e_lh)         # the constant branch is exact
    e_lh = np.where(lh == 0.0, 0.0, e_lh)                   # censored / zero branch is exact
    e_nll = e_ls + e_lh + 2.0 * eps * (np.abs(ls) + lhf)
    t = tiny_of(eps)
    return K * e_ls + t, K * e_lh + t, K * e_nll + t


def close(a, b, envl):
    """entry-wise |a-b| <= envl, NaN == NaN, inf == inf (same sign)."""
    np = env()["np"]
    a = np.asarray(a, dtype=np.float64)
    b = np.asarray(b, dtype=np.float64)
    with np.errstate(all="ignore"):
        ok = np.abs(a - b) <= envl
    ok |= (np.isnan(a) & np.isnan(b))
    ok |= (np.isinf(a) & np.isinf(b) & (np.sign(a) == np.sign(b)))
    return ok


def first_bad(ok):
    np = env()["np"]
    idx = np.argwhere(~ok)
    return tuple(int(i) for i in idx[0]) if len(idx) else None


def reldev_tag(chk, name, a, b):
    """float64 inputs: record max |impl - model| / (|model| + 1) (expected a few 1e-16 .. 1e-13)."""
    np = env()["np"]
    a = np.asarray(a, dtype=np.float64)
    b = np.asarray(b, dtype=np.float64)
    with np.errstate(all="ignore"):
        r = np.abs(a - b) / (np.abs(b) + 1.0)
    r = r[np.isfinite(r)]
    if r.size:
        m = float(r.max())
        chk.tag(name, "<=1e-15" if m <= 1e-15 else "<=1e-14" if m <= 1e-14 else "<=1e-13" if m <= 1e-13 else "<=1e-12" if m <= 1e-12 else ">1e-12")


def ratio_tag(chk, name, a, b, envl):
    np = env()["np"]
    with np.errstate(all="ignore"):
        r = np.abs(np.asarray(a, dtype=np.float64) - np.asarray(b, dtype=np.float64)) / envl
    r = r[np.isfinite(r)]
    if r.size:
        m = float(r.max())
        b_ = "<=1e-3" if m <= 1e-3 else "<=1e-2" if m <= 1e-2 else "<=0.1" if m <= 0.1 else "<=0.5" if m <= 0.5 else "<=1" if m <= 1 else ">1"
        chk.tag(name, b_)


# ---------------------------------------------------------------------------- implementation calls
def named(case):
    return {k: to_torch(v) for k, v in case["t"].items()}


def run_impl(case):
    """Run the real code for one family-level case. Returns dict of float64 numpy arrays or {'err': class}."""
    e = env()
    D, WT, torch, np = e["D"], e["WT"], e["torch"], e["np"]
    T = named(case)
    fam = case["family"]
    out = {}
    try:
        with core.quiet():
            if fam == "normal":
                mask = T.get("mask")
                dist = D.Normal("loc", "scale")
                if case["api"] == "get_func_regularization":
                    r = dist.get_func_regularization("x")(x=T["x"], loc=T["loc"], scale=T["scale"])
                else:
                    r = dist.get_func_nll("x")(x=WT(T["x"], mask), loc=T["loc"], scale=T["scale"])
                out["dtype"] = str(r.value.dtype)
                out["v"] = r.value.double().numpy()
                if r.weight is not None:
                    out["w_kept"] = bool(torch.equal(r.weight, mask))
                elif mask is not None:
                    out["w_kept"] = False
                xw = WT(T["x"], mask)
                j1 = D.NormalFamily._nll_jacobian(xw, T["loc"], T["scale"])
                v2, j2 = D.NormalFamily._nll_and_jacobian(xw, T["loc"], T["scale"])
                out["jac"] = j1.value.double().numpy()
                out["jacz"] = j2.value.double().numpy()
                out["v2"] = v2.value.double().numpy()
                if mask is not None and case["api"] == "get_func_nll" and T["x"].dim() >= 1:
                    from leaspy.utils.weighted_tensor import sum_dim
                    out["sum"] = sum_dim(r, but_dim=0).double().numpy()
            elif fam == "bern":
                mask = T.get("mask")
                r = D.Bernoulli("p").get_func_nll("y")(y=WT(T["y"], mask), p=T["p"])
                out["dtype"] = str(r.value.dtype)
                out["v"] = r.value.double().numpy()
                if mask is not None:
                    out["w_kept"] = r.weight is not None and bool(torch.equal(r.weight, mask))
                    from leaspy.utils.weighted_tensor import sum_dim
                    out["sum"] = sum_dim(r, but_dim=0).double().numpy()
            else:
                x = WT(T["t"], T["ev"])
                if "s" in T:
                    dist = D.WeibullRightCensoredWithSources("nu", "rho", "xi", "tau", "s")
                    args = dict(nu=T["nu"], rho=T["rho"], xi=T["xi"], tau=T["tau"], s=T["s"])
                    pos = (T["nu"], T["rho"], T["xi"], T["tau"], T["s"])
                else:
                    dist = D.WeibullRightCensored("nu", "rho", "xi", "tau")
                    args = dict(nu=T["nu"], rho=T["rho"], xi=T["xi"], tau=T["tau"])
                    pos = (T["nu"], T["rho"], T["xi"], T["tau"])
                f = dist.get_func_nll("event")
                r = f(event=x, **args)
                out["dtype"] = str(r.value.dtype)
                out["v"] = r.value.double().numpy()
                out["ls"] = dist.dist_family.compute_log_survival(x, *pos).double().numpy()
                out["lh"] = dist.dist_family.compute_log_likelihood_hazard(x, *pos).double().numpy()
                from leaspy.utils.weighted_tensor import sum_dim
                out["sum"] = sum_dim(r, but_dim=0).double().numpy()
    except Exception as ex:  # noqa
        return {"err": err_class(ex), "msg": str(ex)[:200]}
    return out


# ---------------------------------------------------------------------------- references + predicate + model compare
def bcast(*arrs):
    np = env()["np"]
    return np.broadcast_arrays(*arrs)


def eval_normal(chk, case, impl, model):
    e = env()
    np, sst, D = e["np"], e["sst"], e["D"]
    cj = case_json(case)
    c_impl = float(D.NormalFamily.nll_constant_standard)
    if "err" in impl:
        try:
            bcast(to_np(case["t"]["x"]), to_np(case["t"]["loc"]), to_np(case["t"]["scale"]))
            chk.impl_failure(cj, f"Normal nll raised {impl['err']} on broadcastable shapes: {impl.get('msg')}")
        except ValueError:
            pass
        if model != impl["err"]:
            chk.disagree(cj, impl["err"], model if isinstance(model, str) else "ok", "Normal nll: error outcome")
        return
    if isinstance(model, str):
        chk.disagree(cj, "ok", model, "Normal nll: error outcome")
        return
    x, loc, s = bcast(to_np(case["t"]["x"]), to_np(case["t"]["loc"]), to_np(case["t"]["scale"]))
    eps = case_eps(case, ["x", "loc", "scale"])
    with np.errstate(all="ignore"):
        z = (x - loc) / s
        q = 0.5 * z * z
        logs = np.log(s)
    envl = env_normal(eps, q, logs, c_impl)
    v = impl["v"]
    in_domain = bool((s > 0).all())
    # --- property predicate (implementation alone)
    if in_domain:
        ref = -sst.norm.logpdf(x, loc=loc, scale=s)
        ok = close(v, ref, envl + 2 * EPS32 * c_impl)       # the constant is a float32 tensor in the code
        bad = first_bad(ok)
        if bad is not None:
            chk.impl_failure(cj, f"Normal nll entry {bad}: {float(v[bad])!r} but -log N(x={float(x[bad])!r}; loc={float(loc[bad])!r}, scale={float(s[bad])!r}) = {float(ref[bad])!r} (envelope {float(np.broadcast_to(envl, v.shape)[bad]):.3g})")
        ratio_tag(chk, "normal_ref_dev/envelope", v, ref, envl + 2 * EPS32 * c_impl)
        with np.errstate(all="ignore"):
            jref = (x - loc) / (s * s)
        jenv = K * eps * np.abs(jref) + tiny_of(eps)
        for key in ("jac", "jacz"):
            bad = first_bad(close(impl[key], jref, jenv))
            if bad is not None:
                chk.impl_failure(cj, f"Normal nll jacobian ({key}) entry {bad}: {float(impl[key][bad])!r} but d/dx(-log pdf) = {float(jref[bad])!r}")
        bad = first_bad(close(impl["v2"], v, envl))
        if bad is not None:
            chk.impl_failure(cj, f"_nll_and_jacobian value differs from _nll at {bad}: {float(impl['v2'][bad])!r} vs {float(v[bad])!r}")
        if impl.get("w_kept") is False:
            chk.impl_failure(cj, "Normal nll does not carry the weights (mask) of the value")
    # --- model comparison
    mv = np.array(model["v"], dtype=np.float64).reshape(model["shape"])
    if list(v.shape) != model["shape"]:
        chk.disagree(cj, list(v.shape), model["shape"], "Normal nll: result shape")
        return
    bad = first_bad(close(v, mv, envl))
    if bad is not None:
        chk.disagree(cj, float(v[bad]), float(mv[bad]), f"Normal nll entry {bad} (eps={eps:.3g}, envelope {float(np.broadcast_to(envl, v.shape)[bad]):.3g})")
    ratio_tag(chk, "normal_model_dev/envelope", v, mv, envl)
    if eps == EPS64:
        reldev_tag(chk, "float64_reldev_vs_model:normal", v, mv)
    with np.errstate(all="ignore"):
        jref = np.array(model["jac"], dtype=np.float64).reshape(model["shape"])
    jenv = K * eps * np.abs(jref) + tiny_of(eps)
    for key in ("jac", "jacz"):
        mj = np.array(model[key], dtype=np.float64).reshape(model["shape"])
        bad = first_bad(close(impl[key], mj, jenv))
        if bad is not None:
            chk.disagree(cj, float(impl[key][bad]), float(mj[bad]), f"Normal nll jacobian {key} entry {bad}")
    if "sum" in impl and model.get("sum") is not None:
        compare_sums(chk, cj, impl["sum"], model["sum"], mv, envl, to_np(case["t"]["mask"]) if "mask" in case["t"] else None, eps, "Normal nll per-individual sum")
    return np.broadcast_to(envl, mv.shape)


def compare_sums(chk, cj, isum, msum, mv, envl, mask, eps, what):
    np = env()["np"]
    n = mv.shape[0]
    w = np.ones_like(mv) if mask is None else (mask != 0)
    a = np.abs(np.where(w, mv, 0.0)).reshape(n, -1)
    m = a.shape[1]
    envs = (np.broadcast_to(envl, mv.shape) * w).reshape(n, -1).sum(axis=1) + (m + 1) * eps * a.sum(axis=1) + tiny_of(eps)
    ms = np.array(msum, dtype=np.float64)
    isum = np.asarray(isum, dtype=np.float64).reshape(-1)
    if isum.shape != ms.shape:
        chk.disagree(cj, list(isum.shape), list(ms.shape), what + ": shape")
        return
    bad = first_bad(close(isum, ms, envs))
    if bad is not None:
        chk.disagree(cj, float(isum[bad]), float(ms[bad]), f"{what} [{bad[0]}]")


def eval_bern(chk, case, impl, model):
    e = env()
    np, sst, torch = e["np"], e["sst"], e["torch"]
    cj = case_json(case)
    if "err" in impl:
        chk.impl_failure(cj, f"Bernoulli nll raised {impl['err']} on valid input: {impl.get('msg')}")
        return
    if isinstance(model, str):
        chk.disagree(cj, "ok", model, "Bernoulli nll: error outcome")
        return
    p, y = bcast(to_np(case["t"]["p"]), to_np(case["t"]["y"]))
    peps = float(torch.finfo(torch.float32 if case["t"]["p"]["dtype"] == "float32" else torch.float64).eps)
    eps = case_eps(case, ["p", "y"])
    pc = np.clip(p, peps, 1.0 - peps)
    with np.errstate(all="ignore"):
        lp, l1p = np.log(pc), np.log1p(-pc)
    envl = env_bern(eps, lp, l1p)
    v = impl["v"]
    # predicate: -log of the Bernoulli mass at the clamped probability (documented clamp of torch), scipy as reference
    ref = -sst.bernoulli.logpmf(y, pc)
    ref2 = -(y * lp + (1 - y) * l1p)
    # entries under the mask carry weight 0: what is computed there is nobody's business (after F31 a value of the support is
    # substituted before torch's log_prob); only observed entries are compared
    obs = np.ones(v.shape, dtype=bool)
    if case["t"].get("mask") is not None:
        try:
            obs = np.broadcast_to(to_np(case["t"]["mask"]).astype(bool), v.shape)
        except Exception:  # noqa
            obs = np.ones(v.shape, dtype=bool)
    bad = first_bad(close(v, ref, envl) | close(v, ref2, envl) | ~obs)
    if bad is not None:
        chk.impl_failure(cj, f"Bernoulli nll entry {bad}: {float(v[bad])!r} but -log(p^y (1-p)^(1-y)) = {float(ref2[bad])!r} for p={float(p[bad])!r}, y={float(y[bad])!r}")
    if not np.isfinite(v).all():
        chk.impl_failure(cj, "Bernoulli nll not finite for p in [0,1], y in {0,1}")
    if impl.get("w_kept") is False:
        chk.impl_failure(cj, "Bernoulli nll does not carry the weights (mask) of the value")
    ratio_tag(chk, "bern_ref_dev/envelope", v, ref2, envl)
    mv = np.array(model["v"], dtype=np.float64).reshape(model["shape"])
    if list(v.shape) != model["shape"]:
        chk.disagree(cj, list(v.shape), model["shape"], "Bernoulli nll: result shape")
        return
    bad = first_bad(close(v, mv, envl) | ~obs)
    if bad is not None:
        chk.disagree(cj, float(v[bad]), float(mv[bad]), f"Bernoulli nll entry {bad} (p={float(p[bad])!r}, y={float(y[bad])!r})")
    ratio_tag(chk, "bern_model_dev/envelope", v, mv, envl)
    if eps == EPS64:
        reldev_tag(chk, "float64_reldev_vs_model:bernoulli", v, mv)
    if "sum" in impl and model.get("sum") is not None:
        compare_sums(chk, cj, impl["sum"], model["sum"], mv, envl, to_np(case["t"]["mask"]) if "mask" in case["t"] else None, eps, "Bernoulli nll per-individual sum")
    return np.broadcast_to(envl, mv.shape)


def weib_reference(case):
    """Independent float64 reference (scipy weibull_min): returns dict of broadcast arrays."""
    e = env()
    np, sst = e["np"], e["sst"]
    t = case["t"]
    arrs = [to_np(t[k]) for k in ("t", "ev", "nu", "rho", "xi", "tau")]
    if "s" in t:
        arrs.append(to_np(t["s"]))
    B = bcast(*arrs)
    tt, ev, nu, rho, xi, tau = B[:6]
    sr = (B[6] / rho) if "s" in t else np.zeros_like(tt)
    with np.errstate(all="ignore"):
        nur = nu * np.exp(-(xi + sr))
        tr = tt - tau
        pos = tr > 0
        trp = np.where(pos, tr, 1.0)
        logsf = np.where(pos, sst.weibull_min.logsf(trp, c=rho, scale=nur), 0.0)
        logpdf = np.where(pos, sst.weibull_min.logpdf(trp, c=rho, scale=nur), -np.inf)
        loghaz = np.where(pos, np.log(rho) - np.log(nur) + (rho - 1.0) * (np.log(trp) - np.log(nur)), -np.inf)
    obs = ev != 0
    ref = np.where(obs, -logpdf, -logsf)
    return dict(t=tt, ev=ev, nu=nu, rho=rho, xi=xi, tau=tau, sr=sr, nur=nur, tr=tr, pos=pos, obs=obs,
                ls=logsf, lh=np.where(obs, loghaz, 0.0), loghaz=loghaz, ref=ref)


def in_finding_region(R, idx):
    """F08a: observed event after the reference time whose hazard underflows (log-hazard below the log of the
    smallest normal double): the where-ladder then uses log-hazard 0."""
    return bool(R["obs"][idx] and R["pos"][idx] and R["loghaz"][idx] < -708.0)


def eval_weib(chk, case, impl, model):
    e = env()
    np = e["np"]
    cj = case_json(case)
    if "err" in impl:
        chk.impl_failure(cj, f"Weibull nll raised {impl['err']} on valid (float64 event time) input: {impl.get('msg')}")
        return
    if isinstance(model, str):
        chk.disagree(cj, "ok", model, "Weibull nll: error outcome")
        return
    R = weib_reference(case)
    eps = case_eps(case, ["nu", "rho", "xi", "tau", "s"])
    v = impl["v"]
    if list(v.shape) != list(R["ref"].shape) or list(v.shape) != model["shape"]:
        chk.disagree(cj, list(v.shape), model["shape"], "Weibull nll: result shape")
        return
    ambiguous = R["obs"] & R["pos"] & (R["loghaz"] < -700.0) & (R["loghaz"] > -760.0)
    if ambiguous.any():
        chk.tag("ambiguous_hazard_underflow_entries", "skipped", int(ambiguous.sum()))
    # ---- property predicate on the implementation
    e_ls, e_lh, e_nll = env_weib(eps, R["rho"], R["xi"], R["sr"], R["tr"], R["nur"], R["ls"], R["lh"])
    pen = R["obs"] & ~R["pos"]
    cens = ~R["obs"]
    n_known = 0
    for idx in np.ndindex(v.shape):
        val = float(v[idx])
        if ambiguous[idx]:
            continue
        desc = (f"t={float(R['t'][idx])!r}, tau={float(R['tau'][idx])!r}, nu={float(R['nu'][idx])!r}, rho={float(R['rho'][idx])!r}, "
                f"xi={float(R['xi'][idx])!r}, s/rho={float(R['sr'][idx])!r}, observed={bool(R['obs'][idx])}")
        if pen[idx]:
            if not math.isfinite(val):
                chk.impl_failure(cj, f"penalty branch entry {idx} is not finite: {val!r} ({desc})")
            elif val < 1e300:
                chk.impl_failure(cj, f"observed event before the reference time gets no prohibitive penalty: {val!r} ({desc})")
            continue
        ref = float(R["ref"][idx])
        if not close(val, ref, float(e_nll[idx])):
            if in_finding_region(R, idx) and close(val, -float(R["ls"][idx]), float(e_nll[idx])):
                n_known += 1
                continue
            kind = "censored: survival term only" if cens[idx] else "observed: -log(hazard*survival)"
            chk.impl_failure(cj, f"Weibull nll entry {idx}: {val!r} but reference {ref!r} ({kind}; {desc}; envelope {float(e_nll[idx]):.3g})")
            break
    if n_known:
        chk.impl_failure(cj, f"{n_known} observed event(s) with t'>0 whose hazard underflows: log-hazard taken as 0, nll = survival term only "
                             f"instead of -log(h*S)", finding=FID)
        chk.tag("finding_region_entries", FID, n_known)
    ok_mask = ~(ambiguous | pen | (R["obs"] & R["pos"] & (R["loghaz"] < -700.0)))
    if ok_mask.any():
        ratio_tag(chk, "weib_ref_dev/envelope", v[ok_mask], R["ref"][ok_mask], e_nll[ok_mask])
    # ---- model comparison (value, log-survival, log-hazard), exact on the constant branches
    mv = np.array(model["v"], dtype=np.float64).reshape(model["shape"])
    mls = np.array(model["ls"], dtype=np.float64).reshape(model["shape"])
    mlh = np.array(model["lh"], dtype=np.float64).reshape(model["shape"])
    mtr = np.array(model["tr"], dtype=np.float64).reshape(model["shape"])
    mnur = np.array(model["nur"], dtype=np.float64).reshape(model["shape"])
    m_ls, m_lh, m_nll = env_weib(eps, R["rho"], R["xi"], R["sr"], mtr, mnur, mls, mlh)
    keep = ~ambiguous
    for name, a, b, en in (("nll", v, mv, m_nll), ("log-survival", impl["ls"], mls, m_ls), ("log-hazard", impl["lh"], mlh, m_lh)):
        a = np.broadcast_to(np.asarray(a, dtype=np.float64), v.shape)
        ok = close(a, b, en) | ~keep
        bad = first_bad(ok)
        if bad is not None:
            chk.disagree(cj, float(a[bad]), float(b[bad]), f"Weibull {name} entry {bad} (eps={eps:.3g}, envelope {float(en[bad]):.3g})")
            break
    exact = pen & keep
    if exact.any():
        if not (v[exact] == mv[exact]).all():
            bad = first_bad(~exact | (v == mv))
            chk.disagree(cj, float(v[bad]), float(mv[bad]), f"Weibull penalty branch entry {bad}: not bit-equal")
        chk.tag("penalty_entries", "exact-compared", int(exact.sum()))
    if keep.all() and (~pen).any():
        ratio_tag(chk, "weib_model_dev/envelope", v[~pen], mv[~pen], m_nll[~pen])
        if eps == EPS64:
            reldev_tag(chk, "float64_reldev_vs_model:weibull", v[~pen], mv[~pen])
    if "sum" in impl and model.get("sum") is not None and keep.all() and not pen.any():
        compare_sums(chk, cj, impl["sum"], model["sum"], mv, m_nll, None, EPS64, "Weibull nll per-individual sum")
    return np.broadcast_to(m_nll, mv.shape)


def case_json(case):
    return case


def request_line(case, c_impl):
    t = case["t"]
    fam = case["family"]
    mask = ""
    if "mask" in t:
        mask = " mask=" + ",".join("1" if x != 0 else "0" for x in tvals(t["mask"]))
    if fam == "normal":
        return f"normal c={fmt_float(c_impl)} x={treq(t['x'])} loc={treq(t['loc'])} scale={treq(t['scale'])}{mask}"
    if fam == "bern":
        e = env()["torch"]
        peps = float(e.finfo(e.float32 if t["p"]["dtype"] == "float32" else e.float64).eps)
        return f"bern eps={fmt_float(peps)} p={treq(t['p'])} y={treq(t['y'])}{mask}"
    line = f"weib t={treq(t['t'])} ev={treq(t['ev'])} nu={treq(t['nu'])} rho={treq(t['rho'])} xi={treq(t['xi'])} tau={treq(t['tau'])}"
    if "s" in t:
        line += f" s={treq(t['s'])}"
    return line


EVAL = {"normal": eval_normal, "bern": eval_bern, "weib": eval_weib}


def run_cases(chk, cases):
    e = env()
    c_impl = float(e["D"].NormalFamily.nll_constant_standard)
    impls = [run_impl(c) for c in cases]
    lines = ["const"] + [request_line(c, c_impl) for c in cases]
    out = chk.model(lines)
    check_constants(chk, out[0], c_impl)
    for c, impl, resp in zip(cases, impls, out[1:]):
        try:
            model = parse_resp(resp)
        except Exception:
            chk.disagree(case_json(c), "?", resp[:200], "unparsable model response")
            continue
        if model == "bad-request" or model == "err:driver":
            chk.disagree(case_json(c), "?", model, "model refused the request")
            continue
        EVAL[c["family"]](chk, c, impl, model)
        nontrivial, key, tags = classify(c)
        chk.case(key, nontrivial=nontrivial, sample=c if c.get("sample") else None, tags=tags)


def check_constants(chk, resp, c_impl):
    e = env()
    parts = dict(p.split("=") for p in resp.split(" ")) if "=" in resp else {}
    case = {"kind": "constants"}
    true_c = 0.5 * math.log(2 * math.pi)
    if abs(c_impl - true_c) > 2 * EPS32 * true_c:
        chk.impl_failure(case, f"NormalFamily.nll_constant_standard = {c_impl!r} is not 0.5*log(2*pi) = {true_c!r} to float32 accuracy")
    inf_impl = e["constants"].INFINITY
    if not (isinstance(inf_impl, float) and math.isfinite(inf_impl) and inf_impl >= 1e300):
        chk.impl_failure(case, f"constants.INFINITY = {inf_impl!r} is not a finite prohibitive constant")
    try:
        mc, minf = parse_float(parts["c"]), parse_float(parts["inf"])
    except Exception:
        chk.disagree(case, "?", resp, "unparsable constants response")
        return
    if abs(c_impl - mc) > 2 * EPS32 * true_c:
        chk.disagree(case, c_impl, mc, "nll_constant_standard (float32 accuracy)")
    if fmt_float(inf_impl) != fmt_float(minf):
        chk.disagree(case, inf_impl, minf, "constants.INFINITY (bitwise)")
    chk.case(("constants",), nontrivial=True, tags={"family": "constants"})


def classify(c):
    t = c["t"]
    fam = c["family"]
    tags = {"family": fam, "layout": c.get("layout", "?"), "dtypes": c.get("dt", "?"), "api": c.get("api", "get_func_nll")}
    key = (fam, c.get("layout"), c.get("dt"), tuple((k, tuple(v["v"])) for k, v in sorted(t.items())))
    nontrivial = True
    if fam == "weib":
        R = weib_reference(c)
        np = env()["np"]
        tags["rho_set"] = ",".join(sorted({("0.3" if abs(r - 0.3) < 1e-6 else "1" if r == 1 else "5" if r == 5 else "other") for r in R["rho"].reshape(-1).tolist()}))
        br = {"penalty": int((R["obs"] & ~R["pos"]).sum()), "observed": int((R["obs"] & R["pos"]).sum()),
              "censored_pos": int((~R["obs"] & R["pos"]).sum()), "censored_nonpos": int((~R["obs"] & ~R["pos"]).sum())}
        for k, n in br.items():
            if n:
                tags_n = ("branch_" + k)
                tags[tags_n] = "entries"
        c["_branches"] = br
        nontrivial = (br["observed"] + br["penalty"] > 0) and (br["censored_pos"] + br["censored_nonpos"] > 0 or R["t"].size == 1)
        with np.errstate(all="ignore"):
            tiny = (R["tr"] != 0) & (np.abs(R["tr"]) <= 1e-9 * np.maximum(np.abs(R["tau"]), 1e-300))
        if tiny.any():
            tags["t_near_tau"] = "yes"
    return nontrivial, key, tags


# ---------------------------------------------------------------------------- generators (all from chk.rng)
def mk(vals, shape, dtype):
    if dtype == "float32":
        vals = [rnd32(v) for v in vals]
    return tjson(vals, shape, dtype)


def numel(shape):
    n = 1
    for s in shape:
        n *= s
    return n


NORMAL_LAYOUTS = [
    # name, x shape, loc shape, scale shape, api, mask?
    ("attach_diag", "nTF", "nTF", "F", "get_func_nll", True),
    ("attach_scalar", "nTF", "nTF", "1", "get_func_nll", True),
    ("attach_0d", "nTF", "nTF", "", "get_func_nll", True),
    ("pop_vec", "K", "K", "", "get_func_regularization", False),
    ("pop_mat", "KM", "KM", "", "get_func_regularization", False),
    ("ind_xi", "n1", "", "1", "get_func_regularization", False),
    ("ind_tau", "n1", "1", "1", "get_func_regularization", False),
    ("ind_sources", "nS", "S", "", "get_func_regularization", False),
    ("ind_sources_0d", "nS", "", "", "get_func_regularization", False),
]


def gen_normal(rng, dt, layout=None, extreme=None):
    name, xs, ls, ss, api, has_mask = layout or rng.choice(NORMAL_LAYOUTS)
    dims = {"n": rng.randrange(1, 5), "T": rng.randrange(1, 4), "F": rng.randrange(1, 4), "K": rng.randrange(1, 5),
            "M": rng.randrange(1, 3), "S": rng.randrange(1, 4), "1": 1}
    shp = lambda code: tuple(dims[ch] for ch in code)  # noqa: E731
    x_shape, l_shape, s_shape = shp(xs), shp(ls), shp(ss)
    if dt == "f32":
        dts = ("float32", "float32", "float32")
    elif dt == "f64":
        dts = ("float64", "float64", "float64")
    else:  # the joint models' layout: float32 data, float64 model / parameters; values float32-representable
        dts = ("float32", "float64", "float64")
    extreme = extreme if extreme is not None else rng.choice(["no", "no", "no", "tiny", "huge"])
    if extreme == "tiny":
        smag = 1e-6 if dt != "f64" else 10.0 ** rng.uniform(-100, -20)
    elif extreme == "huge":
        smag = 1e6 if dt != "f64" else 10.0 ** rng.uniform(20, 100)
    else:
        smag = 10.0 ** rng.uniform(-2, 1)
    lmag = rng.choice([0.0, 1.0, 80.0, 1e4]) if extreme == "no" else 0.0
    scale = [smag * rng.uniform(0.5, 2.0) for _ in range(numel(s_shape))]
    loc = [lmag * rng.uniform(0.9, 1.1) + rng.uniform(-1, 1) * smag for _ in range(numel(l_shape))]
    f32 = dt != "f64"
    if f32:
        scale = [rnd32(v) for v in scale]
        loc = [rnd32(v) for v in loc]
    tj = {"loc": tjson(loc, l_shape, dts[1]), "scale": tjson(scale, s_shape, dts[2])}
    np = env()["np"]
    L = np.broadcast_to(np.array(loc).reshape(l_shape), x_shape).reshape(-1)
    S = np.broadcast_to(np.array(scale).reshape(s_shape), x_shape).reshape(-1)
    x = []
    for i in range(numel(x_shape)):
        z = rng.choice([0.0, rng.uniform(-6, 6), rng.uniform(-1, 1), rng.choice([-1, 1]) * 10.0 ** rng.uniform(-8, 1.5)])
        x.append(float(L[i] + z * S[i]))
    tj["x"] = mk(x, x_shape, dts[0])
    if has_mask and rng.random() < 0.8:
        tj["mask"] = tjson([float(rng.random() < 0.75) for _ in range(numel(x_shape))], x_shape, "bool")
    return {"kind": "family", "family": "normal", "layout": name, "dt": dt, "api": api, "extreme": extreme, "t": tj}


def gen_normal_special(rng):
    out = []
    # shapes that do not broadcast
    out.append({"kind": "family", "family": "normal", "layout": "bad_shape", "dt": "f64", "api": "get_func_nll", "t": {
        "x": tjson([0.0] * 6, (2, 3), "float64"), "loc": tjson([0.0], (1,), "float64"), "scale": tjson([1.0, 2.0], (2,), "float64")}})
    # out of the domain (scale <= 0): compared with the model only
    out.append({"kind": "family", "family": "normal", "layout": "scale_nonpos", "dt": "f64", "api": "get_func_nll", "t": {
        "x": tjson([0.0, 1.0, 2.0, 0.5], (4,), "float64"), "loc": tjson([0.0, 0.0, 0.0, 0.5], (4,), "float64"),
        "scale": tjson([-2.0, 0.0, 1.0, 0.0], (4,), "float64")}})
    return out


def gen_bern(rng, dt):
    n, T, F = rng.randrange(1, 5), rng.randrange(1, 4), rng.randrange(1, 4)
    shape = (n, T, F)
    pd, yd = {"f32": ("float32", "float32"), "f64": ("float64", "float64"), "mixed": ("float64", "float32")}[dt]
    special = [0.0, 1.0, 1e-9, 1e-20, 0.5, 1 - 1e-9, 1.1920928955078125e-07, 2.220446049250313e-16, 1 - 1.1920928955078125e-07,
               0.3, 0.99, 1e-4]
    p = [rng.choice(special) if rng.random() < 0.4 else rng.random() for _ in range(numel(shape))]
    if dt == "mixed":
        p = [rnd32(v) for v in p]
    y = [float(rng.random() < 0.5) for _ in range(numel(shape))]
    tj = {"p": mk(p, shape, pd), "y": mk(y, shape, yd)}
    if rng.random() < 0.8:
        tj["mask"] = tjson([float(rng.random() < 0.75) for _ in range(numel(shape))], shape, "bool")
    return {"kind": "family", "family": "bern", "layout": "nTF", "dt": dt, "api": "get_func_nll", "t": tj}


def nextafter(x, direction):
    return math.nextafter(x, math.inf if direction > 0 else -math.inf)


def gen_weib(rng, dt, sources=None, rho_fixed=None, extreme=None):
    """dt: f64 (everything float64), p32 (nu, rho, survival shifts float32; xi, tau float64 - the joint model's layout),
    a32 (all parameters float32). Event times are always float64."""
    n, E = rng.randrange(1, 7), rng.randrange(1, 4)
    sources = (rng.random() < 0.5) if sources is None else sources
    pdt = {"f64": "float64", "p32": "float32", "a32": "float32"}[dt]
    idt = {"f64": "float64", "p32": "float64", "a32": "float32"}[dt]
    f32 = lambda v: rnd32(v) if dt != "f64" else v  # noqa: E731
    extreme = extreme if extreme is not None else (rng.choice(["no", "no", "no", "scales"]) if dt == "f64" else "no")
    rho = [f32(rho_fixed if rho_fixed is not None else rng.choice([0.3, 1.0, 5.0, 0.3, 1.0, 5.0, rng.uniform(0.2, 8.0)])) for _ in range(E)]
    if extreme == "scales":
        nu = [10.0 ** rng.uniform(-30, 30) for _ in range(E)]
        tau = [0.0 for _ in range(n)]
    else:
        nu = [f32(10.0 ** rng.uniform(-1, 2.5)) for _ in range(E)]
        tau = [f32(rng.choice([0.0, rng.uniform(50, 90), rng.uniform(-5, 5)])) for _ in range(n)]
    xi = [f32(rng.choice([0.0, rng.uniform(-2, 2), rng.uniform(-0.3, 0.3)])) for _ in range(n)]
    tj = {}
    s = None
    if sources:
        s = [[f32(rng.uniform(-2, 2) * min(1.0, rho[e_])) for e_ in range(E)] for _ in range(n)]
        tj["s"] = tjson([v for row in s for v in row], (n, E), pdt)
    t, ev = [], []
    for i in range(n):
        for e_ in range(E):
            nur = nu[e_] * math.exp(-(xi[i] + (s[i][e_] / rho[e_] if sources else 0.0)))
            mode = rng.choice(["pos", "pos", "pos", "neg", "zero", "ulp+", "ulp-", "smallpos"])
            if mode == "pos":
                tt = tau[i] + nur * 10.0 ** rng.uniform(-2, 0.7 if rho[e_] > 2 else 1.5)
            elif mode == "smallpos":
                tt = tau[i] + nur * 10.0 ** rng.uniform(-12, -3)
            elif mode == "neg":
                tt = tau[i] - rng.choice([1e-9, 0.5, 3.0, 50.0]) * (nur if extreme == "scales" else 1.0)
            elif mode == "zero":
                tt = tau[i]
            elif mode == "ulp+":
                tt = nextafter(tau[i], +1) if tau[i] != 0 else 1e-30 * nur
            else:
                tt = nextafter(tau[i], -1) if tau[i] != 0 else -1e-30 * nur
            t.append(float(tt))
            ev.append(float(rng.random() < 0.6))
    tj.update({"t": tjson(t, (n, E), "float64"), "ev": tjson(ev, (n, E), "bool"),
               "nu": tjson(nu, (E,), pdt), "rho": tjson(rho, (E,), pdt),
               "xi": tjson(xi, (n, 1), idt), "tau": tjson(tau, (n, 1), idt)})
    return {"kind": "family", "family": "weib", "layout": "nE_src" if sources else "nE", "dt": dt, "api": "get_func_nll",
            "extreme": extreme, "t": tj}


def finding_witnesses():
    """F08a witnesses: observed event just after the reference time with a large shape (hazard underflows in float64)."""
    w1 = {"kind": "family", "family": "weib", "layout": "nE", "dt": "f64", "api": "get_func_nll", "extreme": "underflow", "t": {
        "t": tjson([70.00000000000001], (1, 1), "float64"), "ev": tjson([1.0], (1, 1), "bool"),
        "nu": tjson([50.0], (1,), "float64"), "rho": tjson([23.0], (1,), "float64"),
        "xi": tjson([0.0], (1, 1), "float64"), "tau": tjson([70.0], (1, 1), "float64")}}
    w2 = {"kind": "family", "family": "weib", "layout": "nE", "dt": "f64", "api": "get_func_nll", "extreme": "underflow", "t": {
        "t": tjson([1e-100, 1e-100], (2, 1), "float64"), "ev": tjson([1.0, 0.0], (2, 1), "bool"),
        "nu": tjson([1.0], (1,), "float64"), "rho": tjson([5.0], (1,), "float64"),
        "xi": tjson([0.0, 0.0], (2, 1), "float64"), "tau": tjson([0.0, 0.0], (2, 1), "float64")}}
    return [w1, w2]


def family_cases(chk):
    rng = chk.rng
    thorough = chk.tier == "thorough"
    cases = []
    for dt in ("f32", "f64", "mixed"):
        for lay in NORMAL_LAYOUTS:
            for ex in ("no", "tiny", "huge"):
                cases.append(gen_normal(rng, dt, lay, ex))
        for _ in range(60 if thorough else 12):
            cases.append(gen_normal(rng, dt))
        for _ in range(40 if thorough else 10):
            cases.append(gen_bern(rng, dt))
    cases += gen_normal_special(rng)
    for dt in ("f64", "p32", "a32"):
        for src in (False, True):
            for rho in (0.3, 1.0, 5.0):
                for _ in range(6 if thorough else 2):
                    cases.append(gen_weib(rng, dt, src, rho))
            for _ in range(60 if thorough else 10):
                cases.append(gen_weib(rng, dt, src))
    for src in (False, True):
        for _ in range(40 if thorough else 8):
            cases.append(gen_weib(rng, "f64", src, None, "scales"))
    for i, c in enumerate(cases):
        if i % 97 == 0 and numel(c["t"][next(iter(c["t"]))]["shape"]) <= 6:
            c["sample"] = True
    return cases


# ---------------------------------------------------------------------------- real models: state['nll_*']
STATE_MODELS = ["logistic_diag_noise", "logistic_scalar_noise", "logistic_binary", "linear_scalar_noise",
                "shared_speed_logistic_binary", "joint_diagonal", "joint_scalar", "univariate_joint"]


def punch(df, cols, seed):
    """some outcomes of existing visits go missing (never a whole visit)"""
    import random
    r = random.Random(seed)
    df = df.copy()
    for i in df.index:
        if len(cols) >= 2 and r.random() < 0.3:
            df.loc[i, r.choice(cols)] = float("nan")
    return df


def load_model(name, holes_seed=None):
    import pandas as pd
    from leaspy.io.data import Data, Dataset
    from leaspy.models import BaseModel
    R = core.REPO / "tests/_data"
    m = BaseModel.load(str(R / f"model_parameters/from_fit/{name}.json"))
    if "joint" in name:
        df = pd.read_csv(R / "data_mock/data_tiny_joint.csv", dtype={"ID": str}, sep=";")
        if "univariate" in name:
            df = df.iloc[:, :5]
        data = Data.from_dataframe(df, data_type="joint")
    elif "binary" in name:
        df = pd.read_csv(R / "data_mock/binary_data.csv", dtype={"ID": str})
        if holes_seed is not None:
            df = punch(df, [c for c in df.columns if c not in ("ID", "TIME")], holes_seed)
        data = Data.from_dataframe(df)
    else:
        df = pd.read_csv(R / "data_mock/data_tiny.csv", dtype={"ID": str})
        if holes_seed is not None:
            df = punch(df, [c for c in df.columns if c not in ("ID", "TIME")], holes_seed)
        data = Data.from_dataframe(df)
    return m, Dataset(data)


def state_case(chk, name, seed, tau_mode):
    """Real model: draw individual latent variables, read state['nll_*'], rebuild every term from the state's own
    inputs with (a) the family-level evaluation above (predicate + Lean model) and (b) the sums kept in the state."""
    e = env()
    torch, np, WT, D = e["torch"], e["np"], e["WT"], e["D"]
    from leaspy.variables.specs import IndividualLatentVariable, LatentVariableInitType, PopulationLatentVariable
    case = {"kind": "state", "model": name, "seed": seed, "tau_mode": tau_mode}
    if not (core.REPO / f"tests/_data/model_parameters/from_fit/{name}.json").exists():
        chk.note(f"stored model {name}.json not in {core.REPO}: state-level case skipped")
        return
    try:
        with core.quiet():
            m, ds = load_model(name, holes_seed=(seed if seed % 2 == 0 else None))
            st = m.state
            m.put_data_variables(st, ds)
            torch.manual_seed(seed)
            with st.auto_fork(None):
                st.put_individual_latent_variables(LatentVariableInitType.PRIOR_SAMPLES, n_individuals=ds.n_individuals)
                if "joint" in name:
                    # the joint model keeps xi / tau as float64 (JointModel.put_individual_parameters builds them from a DataFrame)
                    xi = st["xi"].double()
                    tau = st["tau"].double()
                    et = ds.event_time[:, :1].double()
                    n = tau.shape[0]
                    if tau_mode == "before":
                        tau = torch.minimum(tau, et - 0.3)
                    elif tau_mode == "mixed":
                        g = torch.Generator().manual_seed(seed)
                        pick = torch.randint(0, 5, (n, 1), generator=g)
                        tau = torch.where(pick == 0, et, tau)                 # t' = 0
                        tau = torch.where(pick == 1, et + 1.5, tau)           # t' < 0
                        tau = torch.where(pick == 2, et - 1e-9, tau)          # t' = +tiny
                        tau = torch.where(pick == 3, torch.minimum(tau, et - 0.3), tau)
                    st["xi"] = xi
                    st["tau"] = tau
            terms = []
            if "y" in st.dag:
                # the observations enter the likelihood with the dataset's own mask: a missing outcome contributes nothing
                yv = st["y"]
                if not (isinstance(yv, WT) and yv.weight is not None and torch.equal(yv.weight != 0, ds.mask != 0)):
                    nmiss = int((ds.mask == 0).sum())
                    chk.impl_failure(case, f"state['y'] does not carry the dataset's mask ({nmiss} missing or padded entries): "
                                           "missing outcomes are evaluated as observed values")
                elif not torch.equal(torch.where(ds.mask != 0, yv.value.double(), torch.zeros_like(yv.value.double())),
                                     torch.where(ds.mask != 0, ds.values.double(), torch.zeros_like(ds.values.double()))):
                    chk.impl_failure(case, "state['y'] does not hold the dataset's observed values")
            if "event" in st.dag:
                evv = st["event"]
                if not (torch.equal(evv.value, ds.event_time) and evv.weight is not None
                        and torch.equal(evv.weight != 0, ds.event_bool != 0)):
                    chk.impl_failure(case, "state['event'] is not (dataset.event_time weighted by dataset.event_bool): censoring indicator lost")
            for om in m.obs_models:
                fam = om.dist.dist_family
                nm = f"nll_attach_{om.name}_ind" if f"nll_attach_{om.name}_ind" in st.dag else "nll_attach_ind"
                terms.append((om.name, fam, om.dist.parameters_names, nm, "ind", "get_func_nll"))
            for vn, var in st.dag.items():
                if isinstance(var, IndividualLatentVariable):
                    terms.append((vn, var.prior.dist_family, var.prior.parameters_names, f"nll_regul_{vn}_ind", "ind", "get_func_regularization"))
                elif isinstance(var, PopulationLatentVariable):
                    terms.append((vn, var.prior.dist_family, var.prior.parameters_names, f"nll_regul_{vn}", "all", "get_func_regularization"))
            got = []
            for vn, fam, pnames, nllname, red, api in terms:
                val = st[vn]
                params = [st[p] for p in pnames]
                params = [p.weighted_value if isinstance(p, WT) else p for p in params]
                got.append((vn, fam, pnames, nllname, red, api, val, params, st[nllname]))
    except Exception as ex:  # noqa
        chk.impl_failure(case, f"reading state['nll_*'] of stored model {name} failed: {type(ex).__name__}: {str(ex)[:200]}")
        chk.case(("state", name, seed, tau_mode), nontrivial=False, tags={"family": "state", "state_model": name})
        return
    sub = []
    for vn, fam, pnames, nllname, red, api, val, params, nll in got:
        famname = {D.NormalFamily: "normal", D.BernoulliFamily: "bern", D.WeibullRightCensoredFamily: "weib",
                   D.WeibullRightCensoredWithSourcesFamily: "weib"}.get(fam)
        if famname is None:
            chk.tag("state_family_not_covered", fam.__name__)
            continue
        if isinstance(val, WT):
            v, w = val.value, val.weight
        else:
            v, w = val, None
        tj = {}
        if famname == "normal":
            tj = {"x": from_torch(v), "loc": from_torch(params[0]), "scale": from_torch(params[1])}
            if w is not None:
                tj["mask"] = tjson((w != 0).double().reshape(-1).tolist(), tuple(w.shape), "bool")
            dtl = "f32" if all(tj[k]["dtype"] == "float32" for k in ("x", "loc", "scale")) else "mixed"
        elif famname == "bern":
            tj = {"y": from_torch(v), "p": from_torch(params[0])}
            if w is not None:
                tj["mask"] = tjson((w != 0).double().reshape(-1).tolist(), tuple(w.shape), "bool")
            dtl = "f32" if tj["p"]["dtype"] == "float32" else "mixed"
        else:
            tj = {"t": from_torch(v), "ev": tjson((w != 0).double().reshape(-1).tolist(), tuple(w.shape), "bool")}
            for k, p in zip(("nu", "rho", "xi", "tau", "s"), params):
                tj[k] = from_torch(p)
            dtl = "p32"
        c = {"kind": "family", "family": famname, "layout": f"state:{name}:{vn}", "dt": dtl, "api": api, "t": tj,
             "origin": case, "_nll": nll.detach().double().reshape(-1).numpy(), "_red": red}
        sub.append(c)
    # family-level evaluation on the state's own tensors (predicate + model), then the stored sums
    c_impl = float(D.NormalFamily.nll_constant_standard)
    impls = [run_impl(c) for c in sub]
    lines = [request_line(c, c_impl) for c in sub]
    out = chk.model(lines)
    for c, impl, resp in zip(sub, impls, out):
        nll, red = c.pop("_nll"), c.pop("_red")
        try:
            model = parse_resp(resp)
        except Exception:
            chk.disagree(c, "?", resp[:200], "unparsable model response")
            continue
        if isinstance(model, str) and model in ("bad-request", "err:driver"):
            chk.disagree(c, "?", model, "model refused the request")
            continue
        entry_env = EVAL[c["family"]](chk, c, impl, model)
        if "err" in impl or isinstance(model, str) or entry_env is None:
            continue
        # stored per-individual (or total) value vs the sum of the entry-wise values (mask-aware)
        mv = np.array(model["v"], dtype=np.float64).reshape(model["shape"])
        iv = impl["v"]
        mask = to_np(c["t"]["mask"]).astype(bool) if "mask" in c["t"] else np.ones(mv.shape, dtype=bool)
        if c["family"] == "weib":
            mask = np.ones(mv.shape, dtype=bool)
        eps = EPS32
        for label, arr in (("implementation's entry-wise values", iv), ("model's entry-wise values", mv)):
            a = np.where(mask, arr, 0.0)
            big = np.abs(a) >= 1e300
            if red == "ind":
                tot = a.reshape(a.shape[0], -1).sum(axis=1)
                mag = np.abs(a).reshape(a.shape[0], -1).sum(axis=1)
                cnt = a.reshape(a.shape[0], -1).shape[1]
            else:
                tot = np.array([a.sum()])
                mag = np.array([np.abs(a).sum()])
                cnt = a.size
            ee = np.where(mask, entry_env, 0.0)
            esum = ee.reshape(ee.shape[0], -1).sum(axis=1) if red == "ind" else np.array([ee.sum()])
            envs = 2.0 * esum + (cnt + 2) * eps * mag + 1e-30   # entry envelopes (both sides) + float32 summation
            if tot.shape != nll.shape:
                chk.disagree(c, list(nll.shape), list(tot.shape), f"state['{_nllname(c)}'] shape")
                break
            ok = close(nll, tot, envs)
            bad = first_bad(ok)
            if bad is not None:
                msg = f"state['{_nllname(c)}'][{bad[0]}] = {float(nll[bad])!r} but the sum of the {label} over the unmasked entries is {float(tot[bad])!r}"
                if label.startswith("impl"):
                    chk.impl_failure(c, msg)
                else:
                    chk.disagree(c, float(nll[bad]), float(tot[bad]), msg)
                break
            if big.any() and not np.isfinite(nll).all():
                chk.impl_failure(c, f"state['{_nllname(c)}'] not finite with a penalised event")
        nontrivial, key, tags = classify(c)
        tags["state_model"] = name
        tags["layout"] = "state:" + _nllname(c)
        chk.case(("state", name, seed, tau_mode, c["layout"]), nontrivial=nontrivial, tags=tags)


def _nllname(c):
    vn = c["layout"].split(":")[-1]
    return {"get_func_nll": f"nll_attach_{vn}_ind"}.get(c["api"], f"nll_regul_{vn}[_ind]")


def probe_f32_event_time(chk):
    e = env()
    torch, WT, D = e["torch"], e["WT"], e["D"]
    try:
        D.WeibullRightCensoredFamily._nll(WT(torch.tensor([[1.0]]), torch.tensor([[True]])), torch.tensor([1.0]), torch.tensor([2.0]),
                                          torch.tensor([[0.0]]), torch.tensor([[0.0]]))
        chk.tag("f32_event_time", "accepted")
    except RuntimeError:
        chk.tag("f32_event_time", "RuntimeError (unreachable: Dataset event times are float64)")
    except Exception as ex:  # noqa
        chk.tag("f32_event_time", type(ex).__name__)
    # public path: Dataset builds float64 event times
    try:
        with core.quiet():
            _, ds = load_model("univariate_joint")
        if str(ds.event_time.dtype) != "torch.float64":
            chk.note(f"Dataset.event_time dtype is {ds.event_time.dtype}, the float32 RuntimeError would be reachable")
            chk.impl_failure({"kind": "dataset-dtype"}, f"Dataset.event_time is {ds.event_time.dtype}: Weibull nll raises RuntimeError on float32 event times")
    except Exception as ex:  # noqa
        chk.note(f"could not load joint dataset: {type(ex).__name__}")


def probe_finding(chk):
    ws = finding_witnesses()
    before = len(chk.impl_failures)
    run_cases(chk, ws)
    hits = [f for f in chk.impl_failures[before:] if f["finding"] == FID]
    others = [f for f in chk.impl_failures[before:] if f["finding"] != FID]
    if hits:
        chk.known_finding_reproduces(FID, "observed event with t'>0 and hazard underflowing to 0 (e.g. event_time=70.00000000000001, tau=70, nu=50, rho=23): "
                                          "log-hazard taken as 0, nll = survival term only")
    elif not others:
        chk.note(f"finding {FID} no longer reproduces")


def run(chk: core.Check):
    env()
    chk.rule = ("family level: SymbolicDistribution.get_func_nll / get_func_regularization and the family classes' methods on random tensors "
                "in every layout the models use (attachment (n,T,F) with per-feature / scalar / 0-dim noise; population priors; individual "
                "priors; events (n,E) with (E,) population and (n,1) individual parameters, with and without sources), dtypes float32 / float64 / "
                "mixed, rho in {0.3,1,5}+random, t' in {>0, tiny, 0, +-1 ulp, <0}, tiny/huge scales; state level: state['nll_*'] of 8 stored "
                "models after drawing individual variables (tau moved around the event time for joint models). A Weibull case is non-trivial "
                "when it holds at least one observed and one censored entry; distinct by exact input values.")
    corpus = [c for c in core.load_corpus(PROP) if c.get("kind") == "family"]
    probe_f32_event_time(chk)
    run_cases(chk, corpus + family_cases(chk))
    probe_finding(chk)
    seeds = range(4) if chk.tier == "thorough" else range(1)
    for name in STATE_MODELS:
        for sd in seeds:
            modes = ["mixed", "before"] if "joint" in name else ["prior"]
            for md in modes:
                state_case(chk, name, chk.rng.randrange(10 ** 6) if sd else chk.seed, md)
    chk.exhaustive = False


def replay(chk: core.Check, payload):
    env()
    case = payload.get("case") or (payload.get("disagreements") or [{}])[0].get("case")
    if not case:
        chk.note("replay file has no case")
        return
    if case.get("kind") == "state":
        state_case(chk, case["model"], case["seed"], case["tau_mode"])
    elif case.get("kind") == "family":
        case = {k: v for k, v in case.items() if not k.startswith("_")}
        run_cases(chk, [case])
    elif case.get("kind") == "constants":
        run_cases(chk, [])
    else:
        chk.note(f"cannot replay case of kind {case.get('kind')}")
