"""Helpers shared by the three API-level checks (C11 reproducibility, C12 save/load, C13 purity):
cohorts, model construction, deep snapshots, canonical forms.  Not a check by itself."""
from __future__ import annotations

import copy
import hashlib
import io
import os
import pickle
import warnings
from fractions import Fraction

from . import core

_ENV = None


class Env:
    pass


def env() -> Env:
    """Import leaspy once (`leaspy.models` first, see AGENT_GUIDE)."""
    global _ENV
    if _ENV is None:
        warnings.filterwarnings("ignore")
        import leaspy.models  # noqa: F401
        import numpy as np
        import pandas as pd
        import torch
        from leaspy.algo import AlgorithmSettings
        from leaspy.exceptions import (LeaspyAlgoInputError, LeaspyDataInputError, LeaspyInputError,
                                       LeaspyModelInputError)
        from leaspy.io.data import Data
        from leaspy.io.outputs import IndividualParameters
        from leaspy.models import BaseModel, model_factory
        from leaspy.variables.specs import (Hyperparameter, IndividualLatentVariable, ModelParameter,
                                            PopulationLatentVariable, DataVariable)
        from leaspy.utils.weighted_tensor import WeightedTensor
        e = Env()
        e.np, e.pd, e.torch = np, pd, torch
        e.AlgorithmSettings, e.Data, e.IndividualParameters = AlgorithmSettings, Data, IndividualParameters
        e.BaseModel, e.model_factory = BaseModel, model_factory
        e.ModelParameter, e.PopulationLatentVariable = ModelParameter, PopulationLatentVariable
        e.Hyperparameter, e.IndividualLatentVariable, e.DataVariable = Hyperparameter, IndividualLatentVariable, DataVariable
        e.WeightedTensor = WeightedTensor
        e.errs = dict(algo=LeaspyAlgoInputError, data=LeaspyDataInputError, model=LeaspyModelInputError,
                      input=LeaspyInputError)
        _ENV = e
    return _ENV


def err_class(e: BaseException) -> str:
    E = env().errs
    if isinstance(e, E["algo"]):
        return "err:algo"
    if isinstance(e, E["data"]):
        return "err:data"
    if isinstance(e, E["model"]):
        return "err:model"
    if isinstance(e, E["input"]):
        return "err:input"
    return f"err:other:{type(e).__name__}"


DATA_DIR = core.REPO / "tests/_data/data_mock"
KINDS = ["joint", "logistic", "linear", "shared_speed_logistic", "lme", "constant", "mixture_logistic"]


def cohort(which: str, *, n_ind: int | None = None, columns=None, rename: dict | None = None):
    """(dataframe indexed by ID/TIME, Data) from the mock csv files.
    which: multi (3 features, 5 ind.), uni (1 feature, 7 ind.), tiny (4 features), joint (4 features + event)."""
    E = env()
    pd = E.pd
    if which == "multi":
        df = pd.read_csv(DATA_DIR / "multivariate_data.csv", dtype={"ID": str})
    elif which == "uni":
        df = pd.read_csv(DATA_DIR / "univariate_data.csv", dtype={"ID": str})
    elif which == "tiny":
        df = pd.read_csv(DATA_DIR / "data_tiny.csv", dtype={"ID": str})
    elif which == "joint":
        df = pd.read_csv(DATA_DIR / "data_tiny_joint.csv", sep=";", dtype={"ID": str})
    elif which == "joint_uni":
        df = pd.read_csv(DATA_DIR / "event_univariate_data.csv", sep=";", dtype={"ID": str})
    else:
        raise ValueError(which)
    if n_ind is not None:
        ids = list(dict.fromkeys(df["ID"]))[:n_ind]
        df = df[df["ID"].isin(ids)]
    if columns is not None:
        keep = ["ID", "TIME"] + [c for c in df.columns if c in ("EVENT_TIME", "EVENT_BOOL")] + list(columns)
        df = df[keep]
    if rename:
        df = df.rename(columns=rename)
    df = df.set_index(["ID", "TIME"])
    if which.startswith("joint"):
        data = E.Data.from_dataframe(df, data_type="joint")
    else:
        data = E.Data.from_dataframe(df)
    return df, data


def feature_columns(df):
    return [c for c in df.columns if c not in ("EVENT_TIME", "EVENT_BOOL")]


# ---------------------------------------------------------------------------- snapshots
def value_digest(v):
    """Deep, exact fingerprint of a state value (tensor / weighted tensor / scalar / None)."""
    E = env()
    torch = E.torch
    if v is None:
        return None
    if isinstance(v, E.WeightedTensor):
        w = v.weight
        return ("W", value_digest(v.value), value_digest(w))
    if isinstance(v, torch.Tensor):
        t = v.detach().cpu().contiguous()
        return ("T", str(t.dtype), tuple(t.shape), hashlib.sha1(t.numpy().tobytes()).hexdigest())
    if isinstance(v, (int, float, str, bool)):
        return ("S", repr(v))
    return ("O", hashlib.sha1(pickle.dumps(v)).hexdigest())


def variable_classes(model):
    """names of the DAG nodes by role"""
    E = env()
    by = model.dag.sorted_variables_by_type
    return dict(
        params=list(by[E.ModelParameter]),
        hyper=list(by[E.Hyperparameter]),
        pop=list(by[E.PopulationLatentVariable]),
        ind=list(by[E.IndividualLatentVariable]),
        data=list(by[E.DataVariable]),
    )


def state_snapshot(model):
    """digest of every entry of model.state._values (no read through the state: reading fills caches)"""
    if getattr(model, "_state", None) is None:
        return None
    return {k: value_digest(v) for k, v in model.state._values.items()}


def snapshot_diff(before: dict, after: dict, model) -> dict:
    """What changed, by role. Derived values that went from None to a value (lazy cache fill) are listed apart."""
    cl = variable_classes(model)
    role = {}
    for r, names in cl.items():
        for n in names:
            role[n] = r
    out = {"core": [], "ind": [], "data": [], "derived_changed": [], "derived_filled": [], "derived_dropped": []}
    for k in before:
        if before[k] == after.get(k):
            continue
        r = role.get(k, "derived")
        if r in ("params", "hyper", "pop"):
            out["core"].append(k)
        elif r == "ind":
            out["ind"].append(k)
        elif r == "data":
            out["data"].append(k)
        elif before[k] is None:
            out["derived_filled"].append(k)
        elif after.get(k) is None:
            out["derived_dropped"].append(k)
        else:
            out["derived_changed"].append(k)
    return out


def has_residual(model) -> bool:
    """some data variable or individual latent variable holds a value in model.state"""
    cl = variable_classes(model)
    vals = model.state._values
    return any(vals.get(n) is not None for n in cl["ind"] + cl["data"])


def _cell(x):
    E = env()
    if isinstance(x, E.torch.Tensor):
        return ("t", str(x.dtype), x.detach().cpu().tolist())
    if isinstance(x, E.np.generic):
        return x.item()
    return x


def df_digest(df):
    """exact fingerprint of a table: column names, dtypes, index names, every cell (tensors by value)"""
    rows = [[_cell(x) for x in row] for row in df.reset_index().to_numpy().tolist()]
    return hashlib.sha1(pickle.dumps((list(df.columns), [str(t) for t in df.dtypes], list(df.index.names), rows))).hexdigest()


def data_digest(data):
    E = env()
    df = data.to_dataframe()
    return df_digest(df)


def obj_digest(o):
    return hashlib.sha1(pickle.dumps(o)).hexdigest()


def tensor_canon(t):
    """(shape tuple, [Fraction,…]) of a tensor, exact"""
    t = t.detach().cpu()
    return tuple(t.shape), [Fraction(float(x)) for x in t.reshape(-1).tolist()]


def nested_canon(x):
    """(shape, flat data as Fractions) of a json value (number or nested lists of numbers)"""
    if isinstance(x, (int, float)):
        return (), [Fraction(x)]
    shape = []
    y = x
    while isinstance(y, list):
        shape.append(len(y))
        y = y[0] if y else None
        if y is None:
            break
    flat = []

    def rec(z):
        if isinstance(z, list):
            for w in z:
                rec(w)
        else:
            flat.append(Fraction(z))
    rec(x)
    return tuple(shape), flat


def fmt_shape(sh):
    return "s" if len(sh) == 0 else "x".join(str(n) for n in sh)


def ip_digest(ips):
    """exact fingerprint of an IndividualParameters object (ids in order + values)"""
    return obj_digest((list(ips._indices), {k: ips._individual_parameters[k] for k in ips._indices}))


def random_ips(rng, model, ids):
    """IndividualParameters for the given ids with plausible random values"""
    E = env()
    ips = E.IndividualParameters()
    src = getattr(model, "source_dimension", 0) or 0
    for i in ids:
        d = {"xi": rng.uniform(-0.5, 0.5), "tau": rng.uniform(65, 80)}
        if src > 0:
            d["sources"] = [rng.uniform(-1, 1) for _ in range(src)]
        ips.add_individual_parameters(str(i), d)
    return ips
