"""C09 — individual trajectories follow the documented closed form.

Correspondence: real `compute_individual_trajectory` and `BaseModel.estimate` (dict / MultiIndex input,
dict / data-frame output) of logistic, linear and shared-speed-logistic models of every dimension, with
and without sources, against `Model/Traj.lean` (+ `Model/Gauge.lean` for the space shifts) through
`drivers/C09.lean`.

The property's own predicate (closed form in float64 numpy, range, monotonicity, anchor, layout) is
evaluated on the implementation's outputs independently of the Lean model.
"""
from __future__ import annotations

import glob
import json
import math
import warnings

from . import core
from .core import fmt_float, parse_float, fmt_list, fmt_list2, split_ne

PROP = "C09"
LEAN = dict(
    props="LeaspyVerif.Props.C09",
    driver="drivers/C09.lean",
    harness="c09_traj.py",
    extra_modules=["LeaspyVerif.Model.Traj", "LeaspyVerif.Model.Gauge", "LeaspyVerif.Lemmas.TrajReal"],
    theorems=["logistic_range", "logistic_range_closed", "logistic_metric_pos", "logistic_mono_age",
              "logistic_strict_mono_age", "logistic_mono_age_params", "logistic_at_tau", "logistic_closed_form",
              "linear_affine", "linear_at_tau_and_mono", "sharedSpeed_form", "sharedSpeed_range_mono_anchor",
              "logisticTraj_rows_range", "estimate_dict_layout", "estimate_dict_missing", "estimate_frame_layout",
              "estimate_index_dict_layout", "estimate_index_layout", "estimate_index_nodedup_counterexample"],
    trusted_extra=[
        "theorems are over the reals (Mathlib Real.exp / Real.log); the executable instance is IEEE double "
        "(Lean Float.exp/log = C libm), the implementation is torch float32: compared inside a derived envelope",
        "pandas group-by / concat / join are modelled as list operations (Model/Traj.lean `groupById`, `toFrame`, "
        "`dropDupKeys`, `joinOn`); their agreement with pandas is established only by this differential check",
    ],
    assumptions=[
        "parameters, individual parameters and ages are generated float32-representable, so both sides start from identical numbers",
        "envelope: |impl - model| <= s'(logit) * (16*eps32*(|m*v0*rt|+|m*w|+|log g|) + m*dw) + 4*eps32*|y| + 1e-37 "
        "(logistic / shared speed; typically < 2e-6 absolute), linear: 16*eps32*(|g|+|v0*rt|+|w|) + dw; "
        "dw = 64*eps32*sum|sources|*sum|betas| (Householder + two matmuls in float32); eps32 = 2^-24",
        "monotonicity on the implementation's floats is asserted up to 4 float32 ulps",
        "model.estimate() is modelled as repaired by fix F17 / F18 (fixes/F17.patch, fixes/F18.patch)",
    ],
)

EPS32 = 2.0 ** -24
TINY32 = 1e-37   # float32: exp(-x) overflows for x < -88.7, sigmoid flushes to 0 below ~3e-39
KINDS = ["logistic", "linear", "shared_speed_logistic"]
DRIVER_KIND = {"logistic": "logistic", "linear": "linear", "shared_speed_logistic": "shared"}


# ----------------------------------------------------------------------------------------------
def _imports():
    warnings.filterwarnings("ignore")
    import leaspy.models  # noqa: F401  (must precede leaspy.variables)
    import numpy as np
    import pandas as pd
    import torch
    from leaspy.models import BaseModel
    from leaspy.io.outputs import IndividualParameters
    from leaspy import exceptions as lex
    return dict(np=np, pd=pd, torch=torch, BaseModel=BaseModel, IndividualParameters=IndividualParameters, lex=lex)


def err_class(e, env):
    lex = env["lex"]
    table = [("LeaspyIndividualParamsInputError", "err:input"), ("LeaspyDataInputError", "err:data"),
             ("LeaspyAlgoInputError", "err:algo"), ("LeaspyModelInputError", "err:model"), ("LeaspyInputError", "err:input")]
    for name, cls in table:
        c = getattr(lex, name, None)
        if c is not None and isinstance(e, c):
            return cls
    return f"err:other:{type(e).__name__}"


def f32(x):
    import numpy as np
    return float(np.float32(x))


# ----------------------------------------------------------------------------------------------
# model construction
def random_settings(rng, kind, d, ns):
    P = {}
    if kind == "logistic":
        P["log_g_mean"] = [f32(rng.uniform(-1.5, 3.5)) for _ in range(d)]
        P["log_v0_mean"] = [f32(rng.uniform(-6, -1.5)) for _ in range(d)]
    elif kind == "linear":
        P["g_mean"] = [f32(rng.uniform(-0.5, 1.5)) for _ in range(d)]
        P["log_v0_mean"] = [f32(rng.uniform(-6, -1.5)) for _ in range(d)]
    else:
        P["log_g_mean"] = [f32(rng.uniform(-1.5, 3.5))]
        P["deltas_mean"] = [f32(rng.uniform(-1.5, 1.5)) for _ in range(d - 1)]
        P["xi_mean"] = [f32(rng.uniform(-4, -1))]
    if ns > 0:
        P["betas_mean"] = [[f32(rng.uniform(-0.3, 0.3)) for _ in range(ns)] for _ in range(d - 1)]
    P["tau_mean"] = [f32(rng.uniform(55, 85))]
    P["tau_std"] = [f32(rng.uniform(3, 10))]
    P["xi_std"] = [f32(rng.uniform(.2, 1))]
    P["noise_std"] = [f32(rng.uniform(.02, .2)) for _ in range(d)] if d > 1 else f32(0.1)
    return {"leaspy_version": "2.0.0-dev", "name": kind, "features": [f"Y{k}" for k in range(d)], "dimension": d,
            "obs_models": {"y": "gaussian-diagonal" if d > 1 else "gaussian-scalar"}, "parameters": P,
            "source_dimension": ns}


def pop_of_model(model):
    """Population values as the model's state holds them (float32 -> python floats)."""
    st = model.state
    cls = type(model).__name__
    kind = {"LogisticModel": "logistic", "LinearModel": "linear", "SharedSpeedLogisticModel": "shared_speed_logistic"}.get(cls)
    if kind is None:
        return None
    pop = {"kind": kind, "d": int(model.dimension), "ns": int(model.source_dimension or 0), "features": list(model.features)}
    if kind == "logistic":
        pop["log_g"] = [float(x) for x in st["log_g"].reshape(-1)]
        pop["log_v0"] = [float(x) for x in st["log_v0"].reshape(-1)]
    elif kind == "linear":
        pop["g"] = [float(x) for x in st["g"].reshape(-1)]
        pop["log_v0"] = [float(x) for x in st["log_v0"].reshape(-1)]
    else:
        pop["log_g"] = float(st["log_g"].reshape(-1)[0])
        pop["deltas"] = [float(x) for x in st["deltas"].reshape(-1)]
    if pop["ns"] > 0:
        pop["betas"] = [[float(x) for x in row] for row in st["betas"]]
        pop["mixing"] = [[float(x) for x in row] for row in st["mixing_matrix"]]
    return pop


def random_ip(rng, pop, zero_sources=False):
    # mostly ordinary progressors, sometimes a very fast or very slow one (several prior standard deviations out): legitimate
    r = rng.random()
    xi = rng.uniform(-1.5, 1.5) if r < 0.7 else (rng.uniform(1.5, 4.5) if r < 0.85 else rng.uniform(-4.5, -1.5))
    ip = {"xi": f32(xi), "tau": f32(rng.uniform(40, 100))}
    if pop["ns"] > 0:
        ip["sources"] = [0.0 if zero_sources else f32(rng.uniform(-2, 2)) for _ in range(pop["ns"])]
    return ip


def random_ages(rng, tau):
    """unsorted / repeated / single / far extrapolation; all exactly representable in float32."""
    style = rng.choice(["single", "sorted", "unsorted", "repeated", "far", "mixed", "at_tau"])
    def near():
        return round((tau + rng.uniform(-30, 30)) * 16) / 16
    if style == "single":
        ages = [near()]
    elif style == "sorted":
        ages = sorted(near() for _ in range(rng.randrange(2, 7)))
    elif style == "unsorted":
        ages = [near() for _ in range(rng.randrange(2, 7))]
    elif style == "repeated":
        base = [near() for _ in range(rng.randrange(1, 4))]
        ages = [rng.choice(base) for _ in range(rng.randrange(2, 7))]
    elif style == "far":
        ages = [near(), 70.0 + 200.0, 70.0 - 200.0, near()]
        rng.shuffle(ages)
    elif style == "at_tau":
        ages = [f32(tau), near(), f32(tau)]
    else:
        ages = [near() for _ in range(rng.randrange(1, 5))] + [270.0, -130.0, f32(tau)]
        ages += [rng.choice(ages)]
        rng.shuffle(ages)
    if rng.random() < 0.2:
        # "time since baseline" cohorts: the age 0 itself (and small negative ages) are ordinary requests
        ages = ages + [0.0] + ([-1.5] if rng.random() < 0.5 else [])
        rng.shuffle(ages)
    return [f32(a) for a in ages], style


# ----------------------------------------------------------------------------------------------
# the documented closed form, in float64 python (independent of the Lean model); returns values + envelope
def reference(pop, ip, ages, w=None):
    kind, d = pop["kind"], pop["d"]
    src = ip.get("sources")
    if w is None:
        if pop["ns"] > 0:
            M = pop["mixing"]  # observable state['mixing_matrix'] (ns x d)
            w = [sum(src[s] * M[s][k] for s in range(pop["ns"])) for k in range(d)]
        else:
            w = [0.0] * d
    if pop["ns"] > 0:
        dw = 64 * EPS32 * sum(abs(x) for x in src) * max(sum(abs(b) for b in row) for row in zip(*pop["betas"]))
        dw = max(dw, 64 * EPS32 * max(abs(x) for x in w))
    else:
        dw = 0.0
    alpha = math.exp(ip["xi"])
    vals, tols = [], []
    for t in ages:
        r = alpha * (t - ip["tau"])
        row, trow = [], []
        for k in range(d):
            if kind == "linear":
                g, v0 = pop["g"][k], math.exp(pop["log_v0"][k])
                y = g + v0 * r + w[k]
                tol = 16 * EPS32 * (abs(g) + abs(v0 * r) + abs(w[k])) + dw + 1e-44
            else:
                if kind == "logistic":
                    g = math.exp(pop["log_g"][k])
                    m = (g + 1) ** 2 / g
                    v0 = math.exp(pop["log_v0"][k])
                    terms = (m * v0 * r, m * w[k], -math.log(g))
                else:
                    delta = 0.0 if k == 0 else pop["deltas"][k - 1]
                    gde = math.exp(pop["log_g"]) * math.exp(-delta)
                    m = (gde + 1) ** 2 / gde
                    terms = (m * w[k], r, delta, -pop["log_g"])
                L = sum(terms)
                if L >= 0:
                    y = 1.0 / (1.0 + math.exp(-L))
                else:
                    e = math.exp(L)
                    y = e / (1.0 + e)
                dL = 16 * EPS32 * sum(abs(x) for x in terms) + m * dw
                # |dy| <= max s' over the logit interval * dL, s' = y(1-y) <= s'(L) e^dL  (+ rounding of the sigmoid itself)
                tol = y * (1 - y) * dL * math.exp(min(dL, 50.0)) + 4 * EPS32 * y + TINY32
            row.append(y)
            trow.append(tol)
        vals.append(row)
        tols.append(trow)
    return vals, tols, w


def anchor_value(pop, k):
    if pop["kind"] == "linear":
        return pop["g"][k]
    if pop["kind"] == "logistic":
        return 1.0 / (1.0 + math.exp(pop["log_g"][k]))
    delta = 0.0 if k == 0 else pop["deltas"][k - 1]
    return 1.0 / (1.0 + math.exp(pop["log_g"]) * math.exp(-delta))


# ----------------------------------------------------------------------------------------------
def traj_line(pop, ip, ages):
    k = DRIVER_KIND[pop["kind"]]
    parts = [f"traj kind={k}"]
    if pop["kind"] == "logistic":
        parts += [f"logg={fmt_list(pop['log_g'], fmt_float)}", f"logv0={fmt_list(pop['log_v0'], fmt_float)}"]
    elif pop["kind"] == "linear":
        parts += [f"g={fmt_list(pop['g'], fmt_float)}", f"logv0={fmt_list(pop['log_v0'], fmt_float)}"]
    else:
        parts += [f"logg={fmt_float(pop['log_g'])}", f"deltas={fmt_list(pop['deltas'], fmt_float)}"]
    parts += [f"xi={fmt_float(ip['xi'])}", f"tau={fmt_float(ip['tau'])}", f"ages={fmt_list(ages, fmt_float)}"]
    if pop["ns"] > 0:
        parts += [f"src={fmt_list(ip['sources'], fmt_float)}", f"betas={fmt_list2(pop['betas'], fmt_float)}"]
    else:
        parts += ["src=none", "betas=none"]
    return " ".join(parts)


def parse_traj(resp):
    if not resp.startswith("rows="):
        return None
    parts = dict(p.split("=", 1) for p in resp.split(" "))
    rows = [[parse_float(x) for x in split_ne(r)] for r in split_ne(parts["rows"], ";")]
    return rows, [parse_float(x) for x in split_ne(parts["w"])]


def age_tok(a):
    return fmt_float(float(a))


# ----------------------------------------------------------------------------------------------
class Cohort:
    """One model + a few individuals + what is asked of them."""

    def __init__(self, env, model, pop, tag):
        self.env, self.model, self.pop, self.tag = env, model, pop, tag
        self.ips = {}      # id -> ip dict
        self.ages = {}     # id -> list of ages

    def case_json(self, extra=None):
        c = {"pop": {k: v for k, v in self.pop.items() if k != "mixing"}, "ips": self.ips, "ages": self.ages, "tag": self.tag}
        if getattr(self, "history", None):
            c["history"] = self.history
        if extra:
            c.update(extra)
        return c


def run_traj(chk, co, sid, lines, pending):
    """compute_individual_trajectory for one individual: predicate on the implementation + queue the model line."""
    env, pop = co.env, co.pop
    ip, ages = co.ips[sid], co.ages[sid]
    case = co.case_json({"op": "compute_individual_trajectory", "id": sid})
    try:
        with core.quiet():
            y = co.model.compute_individual_trajectory(ages, ip)
        y = y.detach().cpu().double().numpy()
    except Exception as e:  # noqa
        chk.impl_failure(case, f"compute_individual_trajectory raised on an admissible input: {err_class(e, env)}: {e}")
        return None
    d = pop["d"]
    if y.shape != (1, len(ages), d):
        chk.impl_failure(case, f"shape {y.shape} instead of (1, {len(ages)}, {d})")
        return None
    y = y[0]
    ref, tol, w = reference(pop, ip, ages)
    fails = []
    worst = 0.0
    for i, t in enumerate(ages):
        for k in range(d):
            v = float(y[i][k])
            if not math.isfinite(v):
                fails.append(f"non-finite value {v} at age {t}, feature {k}")
                continue
            err = abs(v - ref[i][k])
            worst = max(worst, err)
            if err > tol[i][k]:
                fails.append(f"age {t} feature {k}: value {v!r} differs from the closed form {ref[i][k]!r} by {err:.3g} (envelope {tol[i][k]:.3g})")
            if pop["kind"] != "linear" and not (0.0 <= v <= 1.0):
                fails.append(f"age {t} feature {k}: value {v!r} outside [0,1]")
    # monotone in age (logistic kinds always; linear too since v0 > 0), equal ages -> equal values
    order = sorted(range(len(ages)), key=lambda i: ages[i])
    for a, b in zip(order, order[1:]):
        for k in range(d):
            ya, yb = float(y[a][k]), float(y[b][k])
            ulps = 4 * EPS32 * max(abs(ya), abs(yb)) + 1e-44
            if ages[a] == ages[b]:
                # (vectorised float32 kernels may differ by an ulp between positions of the same tensor)
                if abs(ya - yb) > ulps:
                    fails.append(f"same age {ages[a]} requested twice gives {ya!r} and {yb!r} (feature {k})")
            elif yb < ya - ulps:
                fails.append(f"not non-decreasing in age: y({ages[a]})={ya!r} > y({ages[b]})={yb!r} (feature {k})")
    for f in fails[:3]:
        chk.impl_failure(case, f)
    key = "max_abs_err_vs_closed_form_linear" if pop["kind"] == "linear" else "max_abs_err_vs_closed_form_logistic_kinds"
    chk.extra_cov[key] = max(chk.extra_cov.get(key, 0.0), worst)
    lines.append(traj_line(pop, ip, ages))
    pending.append(("traj", case, y, tol))
    return y


def run_anchor(chk, co, rng, lines, pending):
    """value at t = tau with zero space shift: 1/(1+g) (logistic), g (linear), 1/(1+g e^-delta) (shared)."""
    env, pop = co.env, co.pop
    ip = random_ip(rng, pop, zero_sources=True)
    ages = [ip["tau"]]
    case = co.case_json({"op": "anchor", "ip": ip})
    try:
        with core.quiet():
            y = co.model.compute_individual_trajectory(ages, ip).detach().cpu().double().numpy()[0][0]
    except Exception as e:  # noqa
        chk.impl_failure(case, f"compute_individual_trajectory raised at t = tau: {err_class(e, env)}: {e}")
        return
    _, tol, _ = reference(pop, ip, ages, w=[0.0] * pop["d"])
    for k in range(pop["d"]):
        want = anchor_value(pop, k)
        if abs(float(y[k]) - want) > tol[0][k]:
            chk.impl_failure(case, f"value at t = tau without space shift is {float(y[k])!r}, documented anchor is {want!r} (feature {k})")
            break
    lines.append(traj_line(pop, ip, ages))
    pending.append(("traj", case, [list(map(float, y))], tol))


def canon_rows_to_tokens(env, co, keys, values, traj_by_id):
    """frame rows -> `id:age@id|age` tokens (value token from which (id, age) the row's numbers belong to)."""
    np = env["np"]
    out = []
    for (sid, t), row in zip(keys, values):
        tok = "?"
        if any(isinstance(x, float) and math.isnan(x) for x in row):
            tok = "!"
        else:
            y = traj_by_id.get(sid)
            if y is not None:
                for i, a in enumerate(co.ages[sid]):
                    if float(a) == float(t) and np.allclose(np.asarray(row, dtype=float), y[i], rtol=1e-5, atol=1e-7):
                        tok = f"{sid}|{age_tok(t)}"
                        break
        out.append(f"{sid}:{age_tok(t)}@{tok}")
    return out


def run_estimate(chk, co, rng, traj_by_id, lines, pending, ix_override=None, scalar_id=None, layout_override=None):
    """model.estimate in its four input/output layouts."""
    env, pop = co.env, co.pop
    pd, np = env["pd"], env["np"]
    ip_obj = env["IndividualParameters"]()
    for sid, ip in co.ips.items():
        ip_obj.add_individual_parameters(sid, dict(ip))
    ids = list(co.ips)
    req_ids = ids[:]
    rng.shuffle(req_ids)
    known = ",".join(ids)
    feats = pop["features"]

    def req_ages(sid):
        return co.ages[sid][:1] if sid == scalar_id else co.ages[sid]

    def dict_req():
        r = {}
        for sid in req_ids:
            r[sid] = list(co.ages[sid])
        if scalar_id is not None:
            r[scalar_id] = co.ages[scalar_id][0]   # documented: "a unique time-point or a list of time-points"
        return r

    def req_str():
        return fmt_list([f"{sid}:{fmt_list([age_tok(t) for t in req_ages(sid)])}" for sid in req_ids], sep=";")

    # interleaved, unsorted MultiIndex over the same (id, age) multiset (or a forced one)
    if ix_override is not None:
        ix_list = ix_override
    else:
        ix_list = [(sid, t) for sid in req_ids for t in co.ages[sid]]
        rng.shuffle(ix_list)
    ix_str = fmt_list([f"{sid}:{age_tok(t)}" for sid, t in ix_list], sep=";")
    has_dup_pair = len(set(ix_list)) < len(ix_list)

    calls = [("dict", False), ("frame", True), ("ixframe", None), ("ixdict", False)]
    # layout of the requested index: the levels ID and TIME in either order, possibly among extra levels
    # ("join so to handle multi-levels cases"): the result must come back on exactly the requested index
    layout = layout_override if layout_override is not None else rng.choice(
        [["ID", "TIME"], ["ID", "TIME"], ["TIME", "ID"], ["ID", "TIME", "VISIT"], ["VISIT", "TIME", "ID"], ["TIME", "VISIT", "ID"]])

    def make_index():
        cols = {"ID": [a for a, _ in ix_list], "TIME": [b for _, b in ix_list], "VISIT": list(range(100, 100 + len(ix_list)))}
        return pd.MultiIndex.from_arrays([cols[n] for n in layout], names=layout)

    for mode, to_df in calls:
        case = co.case_json({"op": "estimate", "mode": mode, "request_ids": req_ids, "ix": ix_list if mode.startswith("ix") else None,
                             "scalar_id": scalar_id, "layout": layout if mode.startswith("ix") else None})
        if mode.startswith("ix"):
            chk.tag("index_layout", "/".join(layout))
        finding = None
        if mode == "ixframe" and has_dup_pair:
            finding = "F17"
        if mode == "frame" and scalar_id is not None:
            finding = "F18"
        try:
            with core.quiet():
                if mode in ("dict", "frame"):
                    out = co.model.estimate(dict_req(), ip_obj, to_dataframe=to_df)
                elif mode == "ixframe":
                    out = co.model.estimate(make_index(), ip_obj)
                else:
                    out = co.model.estimate(make_index(), ip_obj, to_dataframe=False)
        except Exception as e:  # noqa
            # F18's region is narrow: the TypeError of the frame index built from a scalar time-point
            fid = finding if (finding == "F18" and isinstance(e, TypeError)) else None
            chk.impl_failure(case, f"estimate({mode}) raised on an admissible request: {err_class(e, env)}: {e}", finding=fid)
            continue
        # ---- the property's predicate on the implementation's output + canonical form for the model diff
        fails = []
        if mode in ("dict", "ixdict"):
            if not isinstance(out, dict):
                fails.append(f"estimate({mode}) returned {type(out).__name__}, expected dict")
                impl = "?"
            else:
                if mode == "dict":
                    want = [(sid, req_ages(sid)) for sid in req_ids]
                else:
                    want = [(sid, [t for s2, t in ix_list if s2 == sid]) for sid in sorted(set(s for s, _ in ix_list))]
                if list(out.keys()) != [sid for sid, _ in want]:
                    fails.append(f"estimate({mode}) keys {list(out.keys())} != requested {[sid for sid, _ in want]}")
                toks = []
                for sid, ts in want:
                    arr = out.get(sid)
                    if arr is None:
                        continue
                    arr = np.asarray(arr)
                    if arr.shape != (len(ts), pop["d"]):
                        fails.append(f"estimate({mode})[{sid}] has shape {arr.shape}, expected {(len(ts), pop['d'])}")
                        continue
                    rows = canon_rows_to_tokens(env, co, [(sid, t) for t in ts], arr.tolist(), traj_by_id)
                    bad = [r for r in rows if r.endswith("@?") or r.endswith("@!")]
                    if bad:
                        fails.append(f"estimate({mode})[{sid}]: rows do not carry the values of the requested ages in the requested order: {bad[:2]}")
                    toks.append(f"{sid}:{fmt_list([r.split(':', 1)[1] for r in rows])}")
                impl = "dict=" + fmt_list(toks, sep=";")
        else:
            if not isinstance(out, pd.DataFrame):
                fails.append(f"estimate({mode}) returned {type(out).__name__}, expected DataFrame")
                impl = "?"
            else:
                if mode == "frame":
                    want_keys = [(sid, t) for sid in req_ids for t in req_ages(sid)]
                else:
                    want_keys = list(ix_list)
                if mode == "ixframe":
                    if list(out.index.names) != layout:
                        fails.append(f"estimate({mode}) index levels {list(out.index.names)} != requested levels {layout}")
                    elif not out.index.equals(make_index()):
                        fails.append(f"estimate({mode}) does not come back on the requested index (levels {layout})")
                    try:
                        got_keys = list(zip(out.index.get_level_values("ID").tolist(), [float(b) for b in out.index.get_level_values("TIME")]))
                    except Exception:  # noqa
                        got_keys = []
                else:
                    got_keys = [(a, float(b)) for a, b in out.index.tolist()]
                if got_keys != [(a, float(b)) for a, b in want_keys]:
                    fails.append(f"estimate({mode}) returned {len(got_keys)} rows {got_keys[:6]}… for the {len(want_keys)} requested (id, age) pairs {want_keys[:6]}…"
                                 " (not exactly the requested pairs in the requested order)")
                if list(out.columns) != feats:
                    fails.append(f"estimate({mode}) columns {list(out.columns)} != features {feats}")
                if mode == "frame" and list(out.index.names) != ["ID", "TIME"]:
                    fails.append(f"estimate({mode}) index names {list(out.index.names)}")
                rows = canon_rows_to_tokens(env, co, got_keys, out.values.tolist(), traj_by_id)
                bad = [r for r in rows if r.endswith("@?") or r.endswith("@!")]
                if bad and not fails:
                    fails.append(f"estimate({mode}): rows do not carry the values of their (id, age): {bad[:2]}")
                impl = "rows=" + fmt_list(rows, sep=";")
        if finding == "F17":
            # F17's region is narrow: every requested pair is present, in order, only multiplied
            dedup_run = [k for i, k in enumerate(got_keys) if i == 0 or got_keys[i - 1] != k] if isinstance(out, pd.DataFrame) else None
            want_run = [k for i, k in enumerate(want_keys) if i == 0 or want_keys[i - 1] != k] if isinstance(out, pd.DataFrame) else None
            if not (fails and dedup_run == want_run and len(got_keys) > len(want_keys)):
                finding = None
        elif finding == "F18":
            finding = None   # it did not raise: anything wrong here is not F18
        for f in fails[:2]:
            chk.impl_failure(case, f, finding=finding)
        if fails and finding:
            continue   # known region, defect reproduced: reported through the finding, the model is the repaired behaviour
        if mode in ("dict", "frame"):
            lines.append(f"est mode={mode} known={known} req={req_str()}")
        else:
            lines.append(f"est mode={mode} known={known} ix={ix_str}")
        pending.append(("est", case, impl, None))
    # an identifier without individual parameters must be refused, not defaulted
    case = co.case_json({"op": "estimate-missing-id"})
    try:
        with core.quiet():
            co.model.estimate({"__nobody__": [70.0]}, ip_obj)
        chk.impl_failure(case, "estimate() for an identifier without individual parameters returned instead of failing")
        impl = "?"
    except Exception:  # noqa
        impl = "err:key"
    lines.append("est mode=dict known=" + known + " req=__nobody__:" + age_tok(70.0))
    pending.append(("est", case, impl, None))


def compare(chk, lines, pending):
    out = chk.model(lines)
    for (kind, case, impl, tol), resp in zip(pending, out):
        if kind == "est":
            if impl != resp:
                chk.disagree(case, impl, resp, "estimate layout")
            continue
        parsed = parse_traj(resp)
        if parsed is None:
            chk.disagree(case, "rows", resp, "model refused the trajectory request")
            continue
        rows, _w = parsed
        bad = None
        if len(rows) != len(impl):
            bad = f"{len(impl)} rows vs {len(rows)}"
        else:
            for i, (ri, rm) in enumerate(zip(impl, rows)):
                if len(ri) != len(rm):
                    bad = f"row {i}: {len(ri)} vs {len(rm)} entries"
                    break
                for k, (a, b) in enumerate(zip(ri, rm)):
                    if not abs(float(a) - b) <= tol[i][k]:
                        bad = f"row {i} feature {k}: impl {float(a)!r} vs model {b!r} (envelope {tol[i][k]:.3g})"
                        break
                if bad:
                    break
        if bad:
            chk.disagree(case, [list(map(float, r)) for r in impl], rows, "trajectory values: " + bad)


# ----------------------------------------------------------------------------------------------
def build_cohort(env, chk, rng, settings=None, path=None):
    BaseModel = env["BaseModel"]
    try:
        with core.quiet():
            model = BaseModel.load(settings if settings is not None else path)
    except Exception as e:  # noqa
        if settings is not None:
            chk.impl_failure({"settings": settings}, f"admissible model settings refused: {err_class(e, env)}: {e}")
        else:
            chk.tag("stored_model_skipped", type(e).__name__)
        return None
    pop = pop_of_model(model)
    if pop is None:
        chk.tag("stored_model_skipped", type(model).__name__)
        return None
    co = Cohort(env, model, pop, path or "random")
    n_ind = rng.randrange(1, 4)
    names = rng.sample(["S1", "b", "A", "sub-07", "Z9", "a1"], n_ind)
    for sid in names:
        co.ips[sid] = random_ip(rng, pop)
        co.ages[sid], _ = random_ages(rng, co.ips[sid]["tau"])
    return co


def process(chk, co, rng, lines, pending, ix_override=None, scalar=False, layout=None):
    pop = co.pop
    traj_by_id = {}
    for sid in co.ips:
        y = run_traj(chk, co, sid, lines, pending)
        if y is not None:
            traj_by_id[sid] = y
    run_anchor(chk, co, rng, lines, pending)
    scalar_id = None
    if scalar:
        scalar_id = next(iter(co.ips))
    run_estimate(chk, co, rng, traj_by_id, lines, pending, ix_override=ix_override, scalar_id=scalar_id, layout_override=layout)
    all_ages = [t for ts in co.ages.values() for t in ts]
    nontrivial = any(len(set(ts)) >= 2 for ts in co.ages.values())
    styles = []
    for ts in co.ages.values():
        if len(ts) == 1:
            styles.append("single")
        if len(set(ts)) < len(ts):
            styles.append("repeated")
        if ts != sorted(ts):
            styles.append("unsorted")
        if any(abs(t - 70) >= 199 for t in ts):
            styles.append("far")
    key = (pop["kind"], pop["d"], pop["ns"], json.dumps(co.ips, sort_keys=True), json.dumps(co.ages, sort_keys=True), co.tag)
    chk.case(key, nontrivial=nontrivial, sample=co.case_json() if pop["d"] <= 2 and len(all_ages) <= 6 else None,
             tags={"kind": pop["kind"], "dimension": pop["d"], "sources": pop["ns"], "n_individuals": len(co.ips)})
    for s in set(styles):
        chk.tag("age_styles", s)


def reuse_same_object(env, chk, co, rng, lines, pending):
    """History clause: the SAME model object after its parameters were replaced in place (`load_parameters`) must follow
    the new parameters. The expected population values are read off a fresh model loaded from the same settings, so a value
    left over from before the update (a cached working copy, a population variable not re-derived) is a closed-form mismatch."""
    st2 = random_settings(rng, co.pop["kind"], co.pop["d"], co.pop["ns"])
    try:
        with core.quiet():
            co.model.load_parameters(dict(st2["parameters"]))
            fresh = env["BaseModel"].load(st2)
    except Exception as e:  # noqa
        chk.impl_failure(co.case_json({"op": "load_parameters", "new_parameters": st2["parameters"]}),
                         f"replacing the parameters of a loaded model in place raised {err_class(e, env)}: {e}")
        return
    pop2 = pop_of_model(fresh)
    if pop2 is None:
        return
    # what is needed to replay: the object was first loaded with these settings and used, then its parameters were replaced
    co.history = {"first_pop": {k: v for k, v in co.pop.items() if k != "mixing"}, "first_ips": dict(co.ips), "first_ages": dict(co.ages),
                  "new_parameters": st2["parameters"]}
    co.pop = pop2
    co.tag = str(co.tag) + "+parameters-replaced-in-place"
    for sid in list(co.ips):
        co.ips[sid] = random_ip(rng, pop2)
        co.ages[sid], _ = random_ages(rng, co.ips[sid]["tau"])
    process(chk, co, rng, lines, pending)
    chk.tag("history", "estimate after in-place load_parameters")


def probe_findings(chk, env, rng, lines, pending):
    """Witnesses of F17 / F18 (status `fixed`: a reproduction is a regression and is reported as a violation)."""
    st = random_settings(rng, "logistic", 2, 1)
    co = build_cohort(env, chk, rng, settings=st)
    if co is None:
        return
    co.ips = {"B": {"xi": 0.125, "tau": 70.0, "sources": [0.5]}, "A": {"xi": -0.125, "tau": 75.0, "sources": [-0.25]}}
    co.ages = {"B": [80.0, 70.0, 70.0], "A": [60.0]}
    n0 = len(chk.impl_failures)
    process(chk, co, rng, lines, pending, ix_override=[("B", 80.0), ("A", 60.0), ("B", 70.0), ("B", 70.0)], scalar=False)
    co2 = build_cohort(env, chk, rng, settings=st)
    if co2 is None:
        return
    co2.ips = {"A": {"xi": -0.125, "tau": 75.0, "sources": [-0.25]}}
    co2.ages = {"A": [60.0]}
    process(chk, co2, rng, lines, pending, scalar=True)
    hit = {f["finding"] for f in chk.impl_failures[n0:] if f["finding"]}
    listed = {f["id"]: f for f in chk.findings}
    for fid in ("F17", "F18"):
        if fid in hit:
            if listed.get(fid, {}).get("status") == "finding":
                chk.known_finding_reproduces(fid, "witness reproduces")
        else:
            chk.note(f"finding {fid}: witness does not reproduce (repaired)")


def run(chk: core.Check):
    env = _imports()
    rng = chk.rng
    chk.rule = ("random float32-representable population parameters for every kind (logistic, linear, shared_speed_logistic) x "
                "dimension 1..6 x source dimension 0..dim-1, plus every loadable stored model of these kinds under tests/_data/model_parameters; "
                "1-3 individuals each with random (xi, tau, sources) and an age list that is single / sorted / unsorted / repeated / "
                "+-200 years / at tau; per cohort: compute_individual_trajectory per individual, the t=tau anchor, and estimate() in its "
                "4 input/output layouts (shuffled ids, interleaved unsorted MultiIndex). A case (= cohort) is non-trivial when some individual "
                "has >= 2 distinct ages; distinct by kind, dimension, parameters, individual parameters and ages.")
    lines, pending = [], []
    for c in core.load_corpus(PROP):
        co = build_cohort(env, chk, rng, settings=c.get("settings"))
        if co is not None:
            if "ips" in c:
                co.ips, co.ages = c["ips"], c["ages"]
            process(chk, co, rng, lines, pending, ix_override=[tuple(x) for x in c["ix"]] if c.get("ix") else None, scalar=bool(c.get("scalar")))
    probe_findings(chk, env, rng, lines, pending)
    combos = []
    for kind in KINDS:
        for d in (1, 2, 3, 4, 6):
            for ns in sorted({0, 1, d - 1}):
                if ns < d and (ns == 0 or d > 1):
                    combos.append((kind, d, ns))
    n_rounds = 3 if chk.tier == "quick" else 60
    for _ in range(n_rounds):
        for kind, d, ns in combos:
            co = build_cohort(env, chk, rng, settings=random_settings(rng, kind, d, ns))
            if co is not None:
                process(chk, co, rng, lines, pending, scalar=(rng.random() < 0.15))
                if rng.random() < 0.4:
                    reuse_same_object(env, chk, co, rng, lines, pending)
    stored = sorted(glob.glob(str(core.REPO / "tests/_data/model_parameters/**/*.json"), recursive=True))
    if chk.tier == "quick":
        stored = [p for p in stored if "_arm" not in p and "gpu" not in p]
    for p in stored:
        try:
            name = json.loads(open(p).read()).get("name")
        except Exception:  # noqa
            continue
        if name not in KINDS:
            chk.tag("stored_model_skipped", str(name))
            continue
        co = build_cohort(env, chk, rng, path=p)
        if co is not None:
            co.tag = p.split("model_parameters/")[-1]
            process(chk, co, rng, lines, pending)
    compare(chk, lines, pending)


def replay(chk: core.Check, payload):
    env = _imports()
    case = payload.get("case") or (payload.get("disagreements") or [{}])[0].get("case")
    if not case or "pop" not in case:
        chk.note("replay file has no case")
        return
    pop = case["pop"]
    kind, d, ns = pop["kind"], pop["d"], pop["ns"]
    P = {"tau_mean": [70.0], "tau_std": [5.0], "xi_std": [0.5], "noise_std": [0.1] * d if d > 1 else 0.1}
    if kind == "logistic":
        P["log_g_mean"], P["log_v0_mean"] = pop["log_g"], pop["log_v0"]
    elif kind == "linear":
        P["g_mean"], P["log_v0_mean"] = pop["g"], pop["log_v0"]
    else:
        P["log_g_mean"], P["deltas_mean"], P["xi_mean"] = [pop["log_g"]], pop["deltas"], [0.0]
    if ns:
        P["betas_mean"] = pop["betas"]
    st = {"leaspy_version": "2.0.0-dev", "name": kind, "features": pop["features"], "dimension": d,
          "obs_models": {"y": "gaussian-diagonal" if d > 1 else "gaussian-scalar"}, "parameters": P, "source_dimension": ns}
    hist = case.get("history")
    if hist:
        # same object, used once with its first parameters, then parameters replaced in place
        fp = hist["first_pop"]
        case1 = {"pop": fp, "ips": hist["first_ips"], "ages": hist["first_ages"], "tag": "random"}
        P1 = {"tau_mean": [70.0], "tau_std": [5.0], "xi_std": [0.5], "noise_std": [0.1] * d if d > 1 else 0.1}
        if kind == "logistic":
            P1["log_g_mean"], P1["log_v0_mean"] = fp["log_g"], fp["log_v0"]
        elif kind == "linear":
            P1["g_mean"], P1["log_v0_mean"] = fp["g"], fp["log_v0"]
        else:
            P1["log_g_mean"], P1["deltas_mean"], P1["xi_mean"] = [fp["log_g"]], fp["deltas"], [0.0]
        if ns:
            P1["betas_mean"] = fp["betas"]
        co = build_cohort(env, chk, chk.rng, settings=dict(st, parameters=P1))
        if co is None:
            return
        co.ips, co.ages = case1["ips"], case1["ages"]
        lines, pending = [], []
        process(chk, co, chk.rng, lines, pending)
        try:
            with core.quiet():
                co.model.load_parameters(dict(hist["new_parameters"]))
                fresh = env["BaseModel"].load(dict(st, parameters=hist["new_parameters"]))
        except Exception as e:  # noqa
            chk.impl_failure(case, f"replacing the parameters in place raised {err_class(e, env)}: {e}")
            return
        co.pop = pop_of_model(fresh)
        co.tag = "random+parameters-replaced-in-place"
        co.ips, co.ages = case["ips"], case["ages"]
        process(chk, co, chk.rng, lines, pending)
        compare(chk, lines, pending)
        return
    if case.get("tag", "random") != "random" and not str(case.get("tag")).startswith("random"):
        co = build_cohort(env, chk, chk.rng, path=str(core.REPO / "tests/_data/model_parameters" / case["tag"]))
    else:
        co = build_cohort(env, chk, chk.rng, settings=st)
    if co is None:
        return
    co.ips, co.ages = case["ips"], case["ages"]
    lines, pending = [], []
    ix = case.get("ix")
    process(chk, co, chk.rng, lines, pending, ix_override=[tuple(x) for x in ix] if ix else None, scalar=bool(case.get("scalar_id")),
            layout=case.get("layout"))
    compare(chk, lines, pending)
