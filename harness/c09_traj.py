"""C09 — individual trajectories follow the documented closed form.

Correspondence: real `compute_individual_trajectory` and `BaseModel.estimate` (dict / MultiIndex input,
dict / data-frame output) of logistic, linear and shared-speed-logistic models of every dimension, with
and without sources, against `Model/Traj.lean` (+ `Model/Gauge.lean` for the space shifts) through
`drivers/C09.lean`.

The property's own predicate (closed form in float64 numpy, range, monotonicity, anchor, layout) is
evaluated on the implementation's outputs independently of the Lean model.
"""
from __future__ import annotations

import glob
import json
import math
import warnings

from . import core
from .core import fmt_float, parse_float, fmt_list, fmt_list2, split_ne

PROP = "C09"
LEAN = dict(
    props="LeaspyVerif.Props.C09",
    driver="drivers/C09.lean",
    harness="c09_traj.py",
    extra_modules=["LeaspyVerif.Model.Traj", "LeaspyVerif.Model.Gauge", "LeaspyVerif.Lemmas.TrajReal"],
    theorems=["logistic_range", "logistic_range_closed", "logistic_metric_pos", "logistic_mono_age",
              "logistic_strict_mono_age", "logistic_mono_age_params", "logistic_at_tau", "logistic_closed_form",
              "linear_affine", "linear_at_tau_and_mono", "sharedSpeed_form", "sharedSpeed_range_mono_anchor",
              "logisticTraj_rows_range", "estimate_dict_layout", "estimate_dict_missing", "estimate_frame_layout",
              "estimate_index_dict_layout", "estimate_index_layout", "estimate_index_nodedup_counterexample"],
    trusted_extra=[
        "theorems are over the reals (Mathlib Real.exp / Real.log); the executable instance is IEEE double "
        "(Lean Float.exp/log = C libm), the implementation is torch float32: compared inside a derived envelope",
        "pandas group-by / concat / join are modelled as list operations (Model/Traj.lean `groupById`, `toFrame`, "
        "`dropDupKeys`, `joinOn`); their agreement with pandas is established only by this differential check",
    ],
    assumptions=[
        "parameters and individual parameters are generated float32-representable, so both sides start from identical numbers; ages "
        "with more digits are rounded to float32 by the implementation, and the reference / the Lean model are fed these roundings",
        "shared-speed models with an early feature (g e^-delta < 1/20, outside the range of the stored models): the code forms "
        "1 + g e^-delta and 1 - 1/(1 + g e^-delta) in float32, the space shift is then accurate to eps32 / (g e^-delta) only; the "
        "envelope carries the extra term 16*eps32*(1/min_k(g e^-delta_k) - 20)*sum|sources|*sum|betas| (nothing inside the old range)",
        "envelope: |impl - model| <= s'(logit) * (16*eps32*(|m*v0*rt|+|m*w|+|log g|) + m*dw) + 4*eps32*|y| + 1e-37 "
        "(logistic / shared speed; typically < 2e-6 absolute), linear: 16*eps32*(|g|+|v0*rt|+|w|) + dw; "
        "dw = 64*eps32*sum|sources|*sum|betas| (Householder + two matmuls in float32); eps32 = 2^-24",
        "monotonicity on the implementation's floats is asserted up to 4 float32 ulps",
        "model.estimate() is modelled as repaired by fix F17 / F18 (fixes/F17.patch, fixes/F18.patch) and F93 (categorical identifiers "
        "with a category that is not requested; open finding, fixes/F93.patch)",
        "not generated: a process whose torch default dtype is float64 (loading / evaluating a model then fails with a dtype "
        "mismatch in the matmul of the space shifts; leaspy computes in float32 and documents nothing else), pickled models "
        "(not picklable), mixture / joint models (not among the property's three curves)",
    ],
)

EPS32 = 2.0 ** -24
TINY32 = 1e-37   # float32: exp(-x) overflows for x < -88.7, sigmoid flushes to 0 below ~3e-39
KINDS = ["logistic", "linear", "shared_speed_logistic"]
DRIVER_KIND = {"logistic": "logistic", "linear": "linear", "shared_speed_logistic": "shared"}


# ----------------------------------------------------------------------------------------------
def _imports():
    warnings.filterwarnings("ignore")
    import leaspy.models  # noqa: F401  (must precede leaspy.variables)
    import numpy as np
    import pandas as pd
    import torch
    from leaspy.models import BaseModel
    from leaspy.io.outputs import IndividualParameters
    from leaspy import exceptions as lex
    return dict(np=np, pd=pd, torch=torch, BaseModel=BaseModel, IndividualParameters=IndividualParameters, lex=lex)


def err_class(e, env):
    lex = env["lex"]
    table = [("LeaspyIndividualParamsInputError", "err:input"), ("LeaspyDataInputError", "err:data"),
             ("LeaspyAlgoInputError", "err:algo"), ("LeaspyModelInputError", "err:model"), ("LeaspyInputError", "err:input")]
    for name, cls in table:
        c = getattr(lex, name, None)
        if c is not None and isinstance(e, c):
            return cls
    return f"err:other:{type(e).__name__}"


def f32(x):
    import numpy as np
    return float(np.float32(x))


# ----------------------------------------------------------------------------------------------
# model construction
def random_settings(rng, kind, d, ns, wide=False):
    """`wide`: the edge of what the documentation allows instead of the range of the stored models — asymptote offsets g from
    e^-5 to e^7, velocities over four decades, linear scores in arbitrary units (0..30, thousands), space-shift loadings of
    order 1, a time axis in years since baseline (tau_mean around 0, negative onsets) or in months, a binary observation model."""
    P = {}
    if wide:
        lg = lambda: f32(rng.uniform(-5, 7))          # noqa: E731
        lv = lambda: f32(rng.uniform(-9, 0.5))        # noqa: E731
        unit = rng.choice([1.0, 1.0, 30.0, 1000.0, 0.01])
        gl = lambda: f32(unit * rng.uniform(-0.5, 1.5))   # noqa: E731
        dl = lambda: f32(rng.uniform(-4, 4))          # noqa: E731
        bl = lambda: f32(rng.choice([0.3, 1.5]) * rng.uniform(-1, 1))   # noqa: E731
        tau_mean = rng.choice([rng.uniform(-5, 5), 0.0, rng.uniform(55, 85), rng.uniform(200, 900)])
        xi_mean = rng.uniform(-7, 1)
    else:
        lg = lambda: f32(rng.uniform(-1.5, 3.5))      # noqa: E731
        lv = lambda: f32(rng.uniform(-6, -1.5))       # noqa: E731
        gl = lambda: f32(rng.uniform(-0.5, 1.5))      # noqa: E731
        dl = lambda: f32(rng.uniform(-1.5, 1.5))      # noqa: E731
        bl = lambda: f32(rng.uniform(-0.3, 0.3))      # noqa: E731
        tau_mean = xi_mean = None
    if kind == "logistic":
        P["log_g_mean"] = [lg() for _ in range(d)]
        P["log_v0_mean"] = [lv() for _ in range(d)]
    elif kind == "linear":
        P["g_mean"] = [gl() for _ in range(d)]
        P["log_v0_mean"] = [lv() for _ in range(d)]
    else:
        P["log_g_mean"] = [lg()]
        P["deltas_mean"] = [dl() for _ in range(d - 1)]
        P["xi_mean"] = [f32(rng.uniform(-4, -1) if xi_mean is None else xi_mean)]
    if ns > 0:
        P["betas_mean"] = [[bl() for _ in range(ns)] for _ in range(d - 1)]
    P["tau_mean"] = [f32(rng.uniform(55, 85) if tau_mean is None else tau_mean)]
    P["tau_std"] = [f32(rng.uniform(3, 10))]
    P["xi_std"] = [f32(rng.uniform(.2, 1))]
    obs = "gaussian-diagonal" if d > 1 else "gaussian-scalar"
    if wide and kind != "linear" and rng.random() < 0.3:
        obs = "bernoulli"      # no noise parameter; the curve is the same
    else:
        P["noise_std"] = [f32(rng.uniform(.02, .2)) for _ in range(d)] if d > 1 else f32(0.1)
    return {"leaspy_version": "2.0.0-dev", "name": kind, "features": [f"Y{k}" for k in range(d)], "dimension": d,
            "obs_models": {"y": obs}, "parameters": P, "source_dimension": ns}


def pop_of_model(model):
    """Population values as the model's state holds them (float32 -> python floats)."""
    st = model.state
    cls = type(model).__name__
    kind = {"LogisticModel": "logistic", "LinearModel": "linear", "SharedSpeedLogisticModel": "shared_speed_logistic"}.get(cls)
    if kind is None:
        return None
    pop = {"kind": kind, "d": int(model.dimension), "ns": int(model.source_dimension or 0), "features": list(model.features)}
    if kind == "logistic":
        pop["log_g"] = [float(x) for x in st["log_g"].reshape(-1)]
        pop["log_v0"] = [float(x) for x in st["log_v0"].reshape(-1)]
    elif kind == "linear":
        pop["g"] = [float(x) for x in st["g"].reshape(-1)]
        pop["log_v0"] = [float(x) for x in st["log_v0"].reshape(-1)]
    else:
        pop["log_g"] = float(st["log_g"].reshape(-1)[0])
        pop["deltas"] = [float(x) for x in st["deltas"].reshape(-1)]
    if pop["ns"] > 0:
        pop["betas"] = [[float(x) for x in row] for row in st["betas"]]
        pop["mixing"] = [[float(x) for x in row] for row in st["mixing_matrix"]]
    return pop


def random_ip(rng, pop, zero_sources=False, tau_centre=None, wide=False):
    # mostly ordinary progressors, sometimes a very fast or very slow one (several prior standard deviations out): legitimate
    r = rng.random()
    xi = rng.uniform(-1.5, 1.5) if r < 0.7 else (rng.uniform(1.5, 4.5) if r < 0.85 else rng.uniform(-4.5, -1.5))
    if tau_centre is None:
        tau = rng.uniform(40, 100)
    else:
        # the time axis of this model (years since baseline, months, …): onset anywhere within +-30 units of its mean
        tau = tau_centre + rng.uniform(-30, 30)
    if wide and rng.random() < 0.15:
        xi = 0.0
    if wide and rng.random() < 0.15:
        tau = float(round(tau))          # an integral onset (may be handed over as a python int)
    ip = {"xi": f32(xi), "tau": f32(tau)}
    if pop["ns"] > 0:
        span = 6.0 if (wide and rng.random() < 0.25) else 2.0     # sources are N(0,1): a 6-sigma individual is a far-tail draw
        ip["sources"] = [0.0 if zero_sources else f32(rng.uniform(-span, span)) for _ in range(pop["ns"])]
        if wide and not zero_sources and rng.random() < 0.1:
            ip["sources"][rng.randrange(pop["ns"])] = 0.0
    return ip


def random_ages(rng, tau, more=False, force=None):
    """unsorted / repeated / single / far extrapolation; all exactly representable in float32 — except, with `more`, the style
    "fine" (arbitrary doubles: the implementation works on their float32 roundings, and so does the reference), "integral"
    (whole numbers, handed over as python / numpy integers too) and "long" (dozens of ages: other vectorised kernels)."""
    styles = ["single", "sorted", "unsorted", "repeated", "far", "mixed", "at_tau"]
    if more:
        styles += ["fine", "fine", "integral", "long"]
    style = rng.choice(styles)
    if force is not None:
        style = force
    def near():
        return round((tau + rng.uniform(-30, 30)) * 16) / 16
    if style == "single":
        ages = [near()]
    elif style == "sorted":
        ages = sorted(near() for _ in range(rng.randrange(2, 7)))
    elif style == "unsorted":
        ages = [near() for _ in range(rng.randrange(2, 7))]
    elif style == "repeated":
        base = [near() for _ in range(rng.randrange(1, 4))]
        ages = [rng.choice(base) for _ in range(rng.randrange(2, 7))]
    elif style == "far":
        ages = [near(), 70.0 + 200.0, 70.0 - 200.0, near()]
        rng.shuffle(ages)
    elif style == "at_tau":
        ages = [f32(tau), near(), f32(tau)]
    elif style == "fine":
        # ages with many decimals (a date difference in years): neither multiples of 1/16 nor float32 numbers
        ages = [tau + rng.uniform(-30, 30) for _ in range(rng.randrange(1, 6))]
        ages += [rng.choice(ages) + rng.choice([1e-4, 1e-3, 0.01])]
        rng.shuffle(ages)
        return [float(a) for a in ages], style
    elif style == "integral":
        ages = [float(round(tau + rng.uniform(-30, 30))) for _ in range(rng.randrange(1, 7))]
    elif style == "long":
        ages = [near() for _ in range(rng.choice([17, 33, 64]))]
    else:
        ages = [near() for _ in range(rng.randrange(1, 5))] + [270.0, -130.0, f32(tau)]
        ages += [rng.choice(ages)]
        rng.shuffle(ages)
    if rng.random() < 0.2 and style != "integral":
        # "time since baseline" cohorts: the age 0 itself (and small negative ages) are ordinary requests
        ages = ages + [0.0] + ([-1.5] if rng.random() < 0.5 else [])
        rng.shuffle(ages)
    return [f32(a) for a in ages], style


# containers / dtypes the API documents for ages ("scalar or array_like (list, tuple, numpy.ndarray)") and for the values of
# an individual-parameter dict ("a scalar or array_like"); what estimate() itself hands over is a float64 numpy array
AGE_CONTAINERS_F64 = ["list", "tuple", "np64", "series", "torch64"]
AGE_CONTAINERS_F32 = ["np32", "torch32"]
IP_STYLES = ["float", "numpy-scalars", "one-element-lists", "numpy-arrays", "torch", "tuple-int"]


def is_f32(x):
    return f32(x) == float(x)


def pick_age_container(rng, ages):
    opts = list(AGE_CONTAINERS_F64)
    if all(is_f32(a) for a in ages):
        opts += AGE_CONTAINERS_F32
    if ages and all(float(a).is_integer() for a in ages):
        opts += ["int-list", "np-int64"]
    return rng.choice(opts)


def dress_ages(env, ages, container):
    np, pd, torch = env["np"], env["pd"], env["torch"]
    ages = [float(a) for a in ages]
    if container in (None, "list"):
        return list(ages)
    if container == "tuple":
        return tuple(ages)
    if container == "np64":
        return np.array(ages, dtype=np.float64)
    if container == "np32":
        return np.array(ages, dtype=np.float32)
    if container == "series":
        return pd.Series(ages, dtype=float)
    if container == "torch64":
        return torch.tensor(ages, dtype=torch.float64)
    if container == "torch32":
        return torch.tensor(ages, dtype=torch.float32)
    if container == "int-list":
        return [int(a) for a in ages]
    if container == "np-int64":
        return np.array([int(a) for a in ages], dtype=np.int64)
    raise ValueError(container)


def dress_ip(env, ip, style):
    """The same individual (values are float32 numbers, hence identical in every dtype) in another accepted representation."""
    np, torch = env["np"], env["torch"]
    src = ip.get("sources")
    if style in (None, "float"):
        out = {"xi": ip["xi"], "tau": ip["tau"]}
        if src is not None:
            out["sources"] = list(src)
    elif style == "numpy-scalars":
        out = {"xi": np.float64(ip["xi"]), "tau": np.float32(ip["tau"])}
        if src is not None:
            out["sources"] = np.array(src, dtype=np.float64)
    elif style == "one-element-lists":
        out = {"xi": [ip["xi"]], "tau": [ip["tau"]]}
        if src is not None:
            out["sources"] = [list(src)]
    elif style == "numpy-arrays":
        out = {"xi": np.array([ip["xi"]]), "tau": np.array([ip["tau"]], dtype=np.float32)}
        if src is not None:
            out["sources"] = np.array([src], dtype=np.float32)
    elif style == "torch":
        out = {"xi": torch.tensor(ip["xi"], dtype=torch.float64), "tau": torch.tensor([ip["tau"]], dtype=torch.float32)}
        if src is not None:
            out["sources"] = torch.tensor(src, dtype=torch.float64)
    elif style == "tuple-int":
        tau = ip["tau"]
        out = {"xi": ip["xi"], "tau": int(tau) if float(tau).is_integer() else tau}
        if src is not None:
            out["sources"] = tuple(int(x) if float(x).is_integer() and x != 0 else x for x in src)
    else:
        raise ValueError(style)
    return out


# ----------------------------------------------------------------------------------------------
# the documented closed form, in float64 python (independent of the Lean model); returns values + envelope
def reference(pop, ip, ages, w=None, cond_term=False):
    # (`cond_term` is switched on by this module only; c10_gauge.py imports this function and keeps its envelope)
    kind, d = pop["kind"], pop["d"]
    src = ip.get("sources")
    if w is None:
        if pop["ns"] > 0:
            M = pop["mixing"]  # observable state['mixing_matrix'] (ns x d)
            w = [sum(src[s] * M[s][k] for s in range(pop["ns"])) for k in range(d)]
        else:
            w = [0.0] * d
    if pop["ns"] > 0:
        dw = 64 * EPS32 * sum(abs(x) for x in src) * max(sum(abs(b) for b in row) for row in zip(*pop["betas"]))
        dw = max(dw, 64 * EPS32 * max(abs(x) for x in w))
        if kind == "shared_speed_logistic" and cond_term:
            # conditioning of the direction the basis is orthogonal to: the code forms 1 + g e^-delta and 1 - 1/(1 + g e^-delta) in
            # float32, which lose log2(1/(g e^-delta)) bits for an early feature (g e^-delta << 1): the basis, hence the space
            # shift, is then accurate to eps32 / min_k(g e^-delta_k) only (measured: <= 3.7 times that on 300 random models).
            # Nothing is added inside the range of the stored models (1 / (g e^-delta) <= 20).
            gde_min = min(math.exp(pop["log_g"]) * math.exp(-dl) for dl in [0.0] + list(pop["deltas"]))
            cond = 1.0 / gde_min
            if cond > 20.0:
                dw += 16 * EPS32 * (cond - 20.0) * sum(abs(x) for x in src) * max(sum(abs(b) for b in row) for row in zip(*pop["betas"]))
    else:
        dw = 0.0
    alpha = math.exp(ip["xi"])
    vals, tols = [], []
    for t in ages:
        r = alpha * (t - ip["tau"])
        row, trow = [], []
        for k in range(d):
            if kind == "linear":
                g, v0 = pop["g"][k], math.exp(pop["log_v0"][k])
                y = g + v0 * r + w[k]
                tol = 16 * EPS32 * (abs(g) + abs(v0 * r) + abs(w[k])) + dw + 1e-44
            else:
                if kind == "logistic":
                    g = math.exp(pop["log_g"][k])
                    m = (g + 1) ** 2 / g
                    v0 = math.exp(pop["log_v0"][k])
                    terms = (m * v0 * r, m * w[k], -math.log(g))
                else:
                    delta = 0.0 if k == 0 else pop["deltas"][k - 1]
                    gde = math.exp(pop["log_g"]) * math.exp(-delta)
                    m = (gde + 1) ** 2 / gde
                    terms = (m * w[k], r, delta, -pop["log_g"])
                L = sum(terms)
                if L >= 0:
                    y = 1.0 / (1.0 + math.exp(-L))
                else:
                    e = math.exp(L)
                    y = e / (1.0 + e)
                dL = 16 * EPS32 * sum(abs(x) for x in terms) + m * dw
                # |dy| <= max s' over the logit interval * dL, s' = y(1-y) <= s'(L) e^dL  (+ rounding of the sigmoid itself)
                tol = y * (1 - y) * dL * math.exp(min(dL, 50.0)) + 4 * EPS32 * y + TINY32
            row.append(y)
            trow.append(tol)
        vals.append(row)
        tols.append(trow)
    return vals, tols, w


def anchor_value(pop, k):
    if pop["kind"] == "linear":
        return pop["g"][k]
    if pop["kind"] == "logistic":
        return 1.0 / (1.0 + math.exp(pop["log_g"][k]))
    delta = 0.0 if k == 0 else pop["deltas"][k - 1]
    return 1.0 / (1.0 + math.exp(pop["log_g"]) * math.exp(-delta))


# ----------------------------------------------------------------------------------------------
def traj_line(pop, ip, ages):
    k = DRIVER_KIND[pop["kind"]]
    parts = [f"traj kind={k}"]
    if pop["kind"] == "logistic":
        parts += [f"logg={fmt_list(pop['log_g'], fmt_float)}", f"logv0={fmt_list(pop['log_v0'], fmt_float)}"]
    elif pop["kind"] == "linear":
        parts += [f"g={fmt_list(pop['g'], fmt_float)}", f"logv0={fmt_list(pop['log_v0'], fmt_float)}"]
    else:
        parts += [f"logg={fmt_float(pop['log_g'])}", f"deltas={fmt_list(pop['deltas'], fmt_float)}"]
    parts += [f"xi={fmt_float(ip['xi'])}", f"tau={fmt_float(ip['tau'])}", f"ages={fmt_list(ages, fmt_float)}"]
    if pop["ns"] > 0:
        parts += [f"src={fmt_list(ip['sources'], fmt_float)}", f"betas={fmt_list2(pop['betas'], fmt_float)}"]
    else:
        parts += ["src=none", "betas=none"]
    return " ".join(parts)


def parse_traj(resp):
    if not resp.startswith("rows="):
        return None
    parts = dict(p.split("=", 1) for p in resp.split(" "))
    rows = [[parse_float(x) for x in split_ne(r)] for r in split_ne(parts["rows"], ";")]
    return rows, [parse_float(x) for x in split_ne(parts["w"])]


def age_tok(a):
    return fmt_float(float(a))


# ----------------------------------------------------------------------------------------------
class Cohort:
    """One model + a few individuals + what is asked of them."""

    def __init__(self, env, model, pop, tag):
        self.env, self.model, self.pop, self.tag = env, model, pop, tag
        self.ips = {}      # id -> ip dict
        self.ages = {}     # id -> list of ages
        self.ip_style = {}       # id -> representation of the individual-parameter dict handed to compute_individual_trajectory
        self.age_container = {}  # id -> container / dtype of the ages handed to compute_individual_trajectory
        self.settings = None     # the settings the model was built from (None for stored models)
        self.history = None

    def case_json(self, extra=None):
        c = {"pop": {k: v for k, v in self.pop.items() if k != "mixing"}, "ips": self.ips, "ages": self.ages, "tag": self.tag}
        if self.ip_style or self.age_container:
            c["ip_style"], c["age_container"] = dict(self.ip_style), dict(self.age_container)
        if self.settings is not None:
            c["obs_model"] = self.settings["obs_models"]["y"]
        if getattr(self, "history", None):
            c["history"] = self.history
        if extra:
            c.update(extra)
        return c


def run_traj(chk, co, sid, lines, pending):
    """compute_individual_trajectory for one individual: predicate on the implementation + queue the model line."""
    env, pop = co.env, co.pop
    ip, ages_req = co.ips[sid], co.ages[sid]
    ip_style, container = co.ip_style.get(sid), co.age_container.get(sid)
    # the implementation works on the float32 roundings of the requested ages (identical unless the style is "fine")
    ages = [f32(t) for t in ages_req]
    case = co.case_json({"op": "compute_individual_trajectory", "id": sid})
    try:
        with core.quiet():
            if ip_style == "tensorized-skip-checks":
                # documented speed-up: individual parameters already tensorized (2D), checks skipped
                tz = {k: env["torch"].tensor([v] if k != "sources" else [list(v)], dtype=env["torch"].float32).reshape(1, -1)
                      for k, v in ip.items()}
                y = co.model.compute_individual_trajectory(dress_ages(env, ages_req, container), tz, skip_ips_checks=True)
            else:
                y = co.model.compute_individual_trajectory(dress_ages(env, ages_req, container), dress_ip(env, ip, ip_style))
        y = y.detach().cpu().double().numpy()
    except Exception as e:  # noqa
        chk.impl_failure(case, f"compute_individual_trajectory raised on an admissible input: {err_class(e, env)}: {e}")
        return None
    d = pop["d"]
    if y.shape != (1, len(ages), d):
        chk.impl_failure(case, f"shape {y.shape} instead of (1, {len(ages)}, {d})")
        return None
    y = y[0]
    if ip_style:
        chk.tag("ip_representation", ip_style)
    if container:
        chk.tag("ages_container", container)
    ref, tol, w = reference(pop, ip, ages, cond_term=True)
    fails = []
    worst = 0.0
    for i, t in enumerate(ages):
        for k in range(d):
            v = float(y[i][k])
            if not math.isfinite(v):
                fails.append(f"non-finite value {v} at age {t}, feature {k}")
                continue
            err = abs(v - ref[i][k])
            worst = max(worst, err)
            if err > tol[i][k]:
                fails.append(f"age {t} feature {k}: value {v!r} differs from the closed form {ref[i][k]!r} by {err:.3g} (envelope {tol[i][k]:.3g})")
            if pop["kind"] != "linear" and not (0.0 <= v <= 1.0):
                fails.append(f"age {t} feature {k}: value {v!r} outside [0,1]")
    # monotone in age (logistic kinds always; linear too since v0 > 0), equal ages -> equal values
    order = sorted(range(len(ages)), key=lambda i: ages[i])
    for a, b in zip(order, order[1:]):
        for k in range(d):
            ya, yb = float(y[a][k]), float(y[b][k])
            ulps = 4 * EPS32 * max(abs(ya), abs(yb)) + 1e-44
            if ages[a] == ages[b]:
                # (vectorised float32 kernels may differ by an ulp between positions of the same tensor)
                if abs(ya - yb) > ulps:
                    fails.append(f"same age {ages[a]} requested twice gives {ya!r} and {yb!r} (feature {k})")
            elif yb < ya - ulps:
                fails.append(f"not non-decreasing in age: y({ages[a]})={ya!r} > y({ages[b]})={yb!r} (feature {k})")
    for f in fails[:3]:
        chk.impl_failure(case, f)
    key = "max_abs_err_vs_closed_form_linear" if pop["kind"] == "linear" else "max_abs_err_vs_closed_form_logistic_kinds"
    chk.extra_cov[key] = max(chk.extra_cov.get(key, 0.0), worst)
    lines.append(traj_line(pop, ip, ages))
    pending.append(("traj", case, y, tol))
    return y


def run_anchor(chk, co, rng, lines, pending):
    """value at t = tau with zero space shift: 1/(1+g) (logistic), g (linear), 1/(1+g e^-delta) (shared)."""
    env, pop = co.env, co.pop
    ip = random_ip(rng, pop, zero_sources=True)
    ages = [ip["tau"]]
    case = co.case_json({"op": "anchor", "ip": ip})
    try:
        with core.quiet():
            y = co.model.compute_individual_trajectory(ages, ip).detach().cpu().double().numpy()[0][0]
    except Exception as e:  # noqa
        chk.impl_failure(case, f"compute_individual_trajectory raised at t = tau: {err_class(e, env)}: {e}")
        return
    _, tol, _ = reference(pop, ip, ages, w=[0.0] * pop["d"], cond_term=True)
    for k in range(pop["d"]):
        want = anchor_value(pop, k)
        if abs(float(y[k]) - want) > tol[0][k]:
            chk.impl_failure(case, f"value at t = tau without space shift is {float(y[k])!r}, documented anchor is {want!r} (feature {k})")
            break
    lines.append(traj_line(pop, ip, ages))
    pending.append(("traj", case, [list(map(float, y))], tol))


def canon_rows_to_tokens(env, co, keys, values, traj_by_id):
    """frame rows -> `id:age@id|age` tokens (value token from which (id, age) the row's numbers belong to)."""
    np = env["np"]
    out = []
    for (sid, t), row in zip(keys, values):
        tok = "?"
        if any(isinstance(x, float) and math.isnan(x) for x in row):
            tok = "!"
        else:
            y = traj_by_id.get(sid)
            if y is not None:
                for i, a in enumerate(co.ages[sid]):
                    if float(a) == float(t) and np.allclose(np.asarray(row, dtype=float), y[i], rtol=1e-5, atol=1e-7):
                        tok = f"{sid}|{age_tok(t)}"
                        break
        out.append(f"{sid}:{age_tok(t)}@{tok}")
    return out


EST_ROUTES = ["add", "add", "add-numpy", "from_dataframe", "from_pytorch", "json", "csv"]
EST_DICT_CONTAINERS = ["list", "list", "tuple", "np64", "np32", "int-list", "np-int64"]


def random_variant(rng, co):
    """How the request reaches estimate(): which constructor / converter produced the IndividualParameters object, whether it
    holds more individuals than are requested, the container of each age list, the `to_dataframe` argument left to its default,
    the dtype of the TIME level and the way the requested MultiIndex was obtained (built / sliced out of a larger one /
    categorical identifiers with a category that is not requested)."""
    pop = co.pop
    extras = {}
    for name in rng.sample(["zz-extra", "0", "S1x"], rng.choice([0, 0, 1, 2])):
        extras[name] = random_ip(rng, pop)
    order = list(co.ips) + list(extras)
    rng.shuffle(order)
    conts = {}
    for sid, ages in co.ages.items():
        ok = [c for c in EST_DICT_CONTAINERS
              if (c not in ("np32",) or all(is_f32(a) for a in ages))
              and (c not in ("int-list", "np-int64") or all(float(a).is_integer() for a in ages))]
        conts[sid] = rng.choice(ok)
    all_ages = [a for ts in co.ages.values() for a in ts]
    tds = ["float64", "float64"]
    if all(float(a).is_integer() for a in all_ages):
        tds += ["int64", "int64"]
    if all(is_f32(a) for a in all_ages):
        tds += ["float32"]
    return {"route": rng.choice(EST_ROUTES), "extras": extras, "ip_order": order, "dict_container": conts,
            "todf": rng.choice(["explicit", "default"]), "time_dtype": rng.choice(tds),
            "index_kind": rng.choice(["plain", "plain", "sliced", "categorical", "categorical-unused"]),
            "scalar_kind": rng.choice(["float", "np.float64", "int"])}


PLAIN_VARIANT = {"route": "add", "extras": {}, "ip_order": None, "dict_container": {}, "todf": "explicit", "time_dtype": "float64",
                 "index_kind": "plain", "scalar_kind": "float"}


def make_ip_object(env, chk, co, variant):
    """IndividualParameters holding the cohort (+ the variant's extra individuals, in the variant's order) obtained through
    the variant's public route. A route that fails for reasons of its own (C16's matter) falls back to plain `add`."""
    import os
    import shutil
    import tempfile
    np, IP = env["np"], env["IndividualParameters"]
    everyone = dict(co.ips)
    everyone.update(variant.get("extras") or {})
    order = variant.get("ip_order") or list(everyone)
    base = IP()
    for sid in order:
        base.add_individual_parameters(sid, dict(everyone[sid]))
    route = variant.get("route", "add")
    if route == "add":
        return base, order
    try:
        with core.quiet():
            if route == "add-numpy":
                obj = IP()
                for sid in order:
                    ip = everyone[sid]
                    d = {"xi": np.float32(ip["xi"]), "tau": np.float64(ip["tau"])}
                    if "sources" in ip:
                        d["sources"] = np.array(ip["sources"], dtype=np.float64)
                    obj.add_individual_parameters(sid, d)
            elif route == "from_dataframe":
                obj = IP.from_dataframe(base.to_dataframe())
            elif route == "from_pytorch":
                obj = IP.from_pytorch(*base.to_pytorch())
            else:
                tmp = tempfile.mkdtemp(prefix="c09_ip_")
                try:
                    path = os.path.join(tmp, "ip." + route)
                    base.save(path)
                    obj = IP.load(path)
                finally:
                    shutil.rmtree(tmp, ignore_errors=True)
        if list(obj._indices) != order:
            raise ValueError("order of individuals changed")
        chk.tag("ip_object_route", route)
        return obj, order
    except Exception as e:  # noqa
        chk.tag("ip_object_route", f"{route}-unavailable:{type(e).__name__}")
        return base, order


def run_estimate(chk, co, rng, traj_by_id, lines, pending, ix_override=None, scalar_id=None, layout_override=None, variant=None):
    """model.estimate in its four input/output layouts."""
    env, pop = co.env, co.pop
    pd, np = env["pd"], env["np"]
    variant = dict(PLAIN_VARIANT, **(variant or {}))
    ip_obj, ip_order = make_ip_object(env, chk, co, variant)
    ids = list(ip_order)
    req_ids = list(co.ips)
    rng.shuffle(req_ids)
    known = ",".join(ids)
    feats = pop["features"]

    def req_ages(sid):
        return co.ages[sid][:1] if sid == scalar_id else co.ages[sid]

    def dict_req():
        r = {}
        for sid in req_ids:
            r[sid] = dress_ages(env, co.ages[sid], variant["dict_container"].get(sid))
        if scalar_id is not None:
            t0 = co.ages[scalar_id][0]   # documented: "a unique time-point or a list of time-points"
            sk = variant.get("scalar_kind", "float")
            r[scalar_id] = np.float64(t0) if sk == "np.float64" else (int(t0) if sk == "int" and float(t0).is_integer() else t0)
        return r

    def req_str():
        return fmt_list([f"{sid}:{fmt_list([age_tok(t) for t in req_ages(sid)])}" for sid in req_ids], sep=";")

    # interleaved, unsorted MultiIndex over the same (id, age) multiset (or a forced one)
    if ix_override is not None:
        ix_list = ix_override
    else:
        ix_list = [(sid, t) for sid in req_ids for t in co.ages[sid]]
        rng.shuffle(ix_list)
    ix_str = fmt_list([f"{sid}:{age_tok(t)}" for sid, t in ix_list], sep=";")
    has_dup_pair = len(set(ix_list)) < len(ix_list)

    todf_default = variant.get("todf") == "default"
    # (`None` = the documented default: a dict for a dict request, a data frame for an index request)
    calls = [("dict", None if todf_default else False), ("frame", True), ("ixframe", None if not todf_default else True), ("ixdict", False)]
    # layout of the requested index: the levels ID and TIME in either order, possibly among extra levels
    # ("join so to handle multi-levels cases"): the result must come back on exactly the requested index
    layout = layout_override if layout_override is not None else rng.choice(
        [["ID", "TIME"], ["ID", "TIME"], ["TIME", "ID"], ["ID", "TIME", "VISIT"], ["VISIT", "TIME", "ID"], ["TIME", "VISIT", "ID"]])
    index_kind, time_dtype = variant.get("index_kind", "plain"), variant.get("time_dtype", "float64")
    if time_dtype == "int64" and not all(float(b).is_integer() for _, b in ix_list):
        time_dtype = "float64"
    if time_dtype == "float32" and not all(is_f32(b) for _, b in ix_list):
        time_dtype = "float64"
    unused_id = "unused-category"

    def make_index():
        n = len(ix_list)
        id_col, t_col = [a for a, _ in ix_list], [b for _, b in ix_list]
        if index_kind == "sliced":
            # the rows of interest taken out of a larger index: the levels keep identifiers / ages that are not requested
            id_col, t_col = id_col + ["not-requested", (id_col or ["x"])[0]], t_col + [55.0, 1234.0]
        t_arr = np.array(t_col, dtype={"int64": np.int64, "float32": np.float32}.get(time_dtype, np.float64))
        if index_kind.startswith("categorical"):
            cats = sorted(set(id_col)) + ([unused_id] if index_kind == "categorical-unused" else [])
            id_arr = pd.Categorical(id_col, categories=cats)
        else:
            id_arr = id_col
        cols = {"ID": id_arr, "TIME": t_arr, "VISIT": list(range(100, 100 + len(id_col)))}
        mi = pd.MultiIndex.from_arrays([cols[nm] for nm in layout], names=layout)
        return mi[:n] if index_kind == "sliced" else mi

    for mode, to_df in calls:
        case = co.case_json({"op": "estimate", "mode": mode, "request_ids": req_ids, "ix": ix_list if mode.startswith("ix") else None,
                             "scalar_id": scalar_id, "layout": layout if mode.startswith("ix") else None, "variant": variant,
                             "to_dataframe": to_df})
        if mode.startswith("ix"):
            chk.tag("index_layout", "/".join(layout))
            chk.tag("index_kind", f"{index_kind}/{time_dtype}")
        else:
            for c in set(variant["dict_container"].values()):
                chk.tag("estimate_dict_ages_container", c)
        chk.tag("estimate_to_dataframe_arg", f"{mode}:{to_df}")
        finding = None
        if mode == "ixframe" and has_dup_pair:
            finding = "F17"
        if mode == "frame" and scalar_id is not None:
            finding = "F18"
        try:
            with core.quiet():
                if mode in ("dict", "frame"):
                    out = co.model.estimate(dict_req(), ip_obj, to_dataframe=to_df)
                elif mode == "ixframe":
                    out = co.model.estimate(make_index(), ip_obj) if to_df is None else co.model.estimate(make_index(), ip_obj, to_dataframe=to_df)
                else:
                    out = co.model.estimate(make_index(), ip_obj, to_dataframe=False)
        except Exception as e:  # noqa
            # F18's region is narrow: the TypeError of the frame index built from a scalar time-point
            fid = finding if (finding == "F18" and isinstance(e, TypeError)) else None
            # F93's region is narrow: identifiers given as a categorical level with a category that is not requested, refused
            # as an unknown individual named after that very category
            if (mode.startswith("ix") and index_kind == "categorical-unused" and err_class(e, env) == "err:input"
                    and unused_id in str(e) and "unknown" in str(e)):
                fid = "F93"
            chk.impl_failure(case, f"estimate({mode}) raised on an admissible request: {err_class(e, env)}: {e}", finding=fid)
            continue
        # ---- the property's predicate on the implementation's output + canonical form for the model diff
        fails = []
        if mode in ("dict", "ixdict"):
            if not isinstance(out, dict):
                fails.append(f"estimate({mode}) returned {type(out).__name__}, expected dict")
                impl = "?"
            else:
                if mode == "dict":
                    want = [(sid, req_ages(sid)) for sid in req_ids]
                else:
                    want = [(sid, [t for s2, t in ix_list if s2 == sid]) for sid in sorted(set(s for s, _ in ix_list))]
                if list(out.keys()) != [sid for sid, _ in want]:
                    fails.append(f"estimate({mode}) keys {list(out.keys())} != requested {[sid for sid, _ in want]}")
                toks = []
                for sid, ts in want:
                    arr = out.get(sid)
                    if arr is None:
                        continue
                    arr = np.asarray(arr)
                    if arr.shape != (len(ts), pop["d"]):
                        fails.append(f"estimate({mode})[{sid}] has shape {arr.shape}, expected {(len(ts), pop['d'])}")
                        continue
                    rows = canon_rows_to_tokens(env, co, [(sid, t) for t in ts], arr.tolist(), traj_by_id)
                    bad = [r for r in rows if r.endswith("@?") or r.endswith("@!")]
                    if bad:
                        fails.append(f"estimate({mode})[{sid}]: rows do not carry the values of the requested ages in the requested order: {bad[:2]}")
                    toks.append(f"{sid}:{fmt_list([r.split(':', 1)[1] for r in rows])}")
                impl = "dict=" + fmt_list(toks, sep=";")
        else:
            if not isinstance(out, pd.DataFrame):
                fails.append(f"estimate({mode}) returned {type(out).__name__}, expected DataFrame")
                impl = "?"
            else:
                if mode == "frame":
                    want_keys = [(sid, t) for sid in req_ids for t in req_ages(sid)]
                else:
                    want_keys = list(ix_list)
                if mode == "ixframe":
                    if list(out.index.names) != layout:
                        fails.append(f"estimate({mode}) index levels {list(out.index.names)} != requested levels {layout}")
                    elif not out.index.equals(make_index()):
                        fails.append(f"estimate({mode}) does not come back on the requested index (levels {layout})")
                    try:
                        got_keys = list(zip(out.index.get_level_values("ID").tolist(), [float(b) for b in out.index.get_level_values("TIME")]))
                    except Exception:  # noqa
                        got_keys = []
                else:
                    got_keys = [(a, float(b)) for a, b in out.index.tolist()]
                if got_keys != [(a, float(b)) for a, b in want_keys]:
                    fails.append(f"estimate({mode}) returned {len(got_keys)} rows {got_keys[:6]}… for the {len(want_keys)} requested (id, age) pairs {want_keys[:6]}…"
                                 " (not exactly the requested pairs in the requested order)")
                if list(out.columns) != feats:
                    fails.append(f"estimate({mode}) columns {list(out.columns)} != features {feats}")
                if mode == "frame" and list(out.index.names) != ["ID", "TIME"]:
                    fails.append(f"estimate({mode}) index names {list(out.index.names)}")
                rows = canon_rows_to_tokens(env, co, got_keys, out.values.tolist(), traj_by_id)
                bad = [r for r in rows if r.endswith("@?") or r.endswith("@!")]
                if bad and not fails:
                    fails.append(f"estimate({mode}): rows do not carry the values of their (id, age): {bad[:2]}")
                impl = "rows=" + fmt_list(rows, sep=";")
        if finding == "F17":
            # F17's region is narrow: every requested pair is present, in order, only multiplied
            dedup_run = [k for i, k in enumerate(got_keys) if i == 0 or got_keys[i - 1] != k] if isinstance(out, pd.DataFrame) else None
            want_run = [k for i, k in enumerate(want_keys) if i == 0 or want_keys[i - 1] != k] if isinstance(out, pd.DataFrame) else None
            if not (fails and dedup_run == want_run and len(got_keys) > len(want_keys)):
                finding = None
        elif finding == "F18":
            finding = None   # it did not raise: anything wrong here is not F18
        for f in fails[:2]:
            chk.impl_failure(case, f, finding=finding)
        if fails and finding:
            continue   # known region, defect reproduced: reported through the finding, the model is the repaired behaviour
        if mode in ("dict", "frame"):
            lines.append(f"est mode={mode} known={known} req={req_str()}")
        else:
            lines.append(f"est mode={mode} known={known} ix={ix_str}")
        pending.append(("est", case, impl, None))
    # an identifier without individual parameters must be refused, not defaulted
    case = co.case_json({"op": "estimate-missing-id"})
    try:
        with core.quiet():
            co.model.estimate({"__nobody__": [70.0]}, ip_obj)
        chk.impl_failure(case, "estimate() for an identifier without individual parameters returned instead of failing")
        impl = "?"
    except Exception:  # noqa
        impl = "err:key"
    lines.append("est mode=dict known=" + known + " req=__nobody__:" + age_tok(70.0))
    pending.append(("est", case, impl, None))


def compare(chk, lines, pending):
    out = chk.model(lines)
    for (kind, case, impl, tol), resp in zip(pending, out):
        if kind == "est":
            if impl != resp:
                chk.disagree(case, impl, resp, "estimate layout")
            continue
        parsed = parse_traj(resp)
        if parsed is None:
            chk.disagree(case, "rows", resp, "model refused the trajectory request")
            continue
        rows, _w = parsed
        bad = None
        if len(rows) != len(impl):
            bad = f"{len(impl)} rows vs {len(rows)}"
        else:
            for i, (ri, rm) in enumerate(zip(impl, rows)):
                if len(ri) != len(rm):
                    bad = f"row {i}: {len(ri)} vs {len(rm)} entries"
                    break
                for k, (a, b) in enumerate(zip(ri, rm)):
                    if not abs(float(a) - b) <= tol[i][k]:
                        bad = f"row {i} feature {k}: impl {float(a)!r} vs model {b!r} (envelope {tol[i][k]:.3g})"
                        break
                if bad:
                    break
        if bad:
            chk.disagree(case, [list(map(float, r)) for r in impl], rows, "trajectory values: " + bad)


# ----------------------------------------------------------------------------------------------
def build_cohort(env, chk, rng, settings=None, path=None, more=False, model=None):
    BaseModel = env["BaseModel"]
    try:
        with core.quiet():
            if model is None:
                model = BaseModel.load(settings if settings is not None else path)
    except Exception as e:  # noqa
        if settings is not None:
            chk.impl_failure({"settings": settings}, f"admissible model settings refused: {err_class(e, env)}: {e}")
        else:
            chk.tag("stored_model_skipped", type(e).__name__)
        return None
    pop = pop_of_model(model)
    if pop is None:
        chk.tag("stored_model_skipped", type(model).__name__)
        return None
    co = Cohort(env, model, pop, path or "random")
    co.settings = settings
    if settings is not None:
        check_pop(chk, co, settings.get("parameters"), "the settings it was loaded from")
    elif path is not None:
        try:
            check_pop(chk, co, json.loads(open(path).read()).get("parameters"), "its stored file")
        except (OSError, ValueError):
            pass
    n_ind = rng.randrange(1, 4)
    names = rng.sample(["S1", "b", "A", "sub-07", "Z9", "a1"], n_ind)
    populate(env, rng, co, names, more)
    return co


def populate(env, rng, co, names, more):
    pop = co.pop
    tau_centre = None
    if more:
        try:
            tau_centre = float(co.model.state["tau_mean"].reshape(-1)[0])
        except Exception:  # noqa
            tau_centre = None
    # sometimes every individual of the cohort has whole-number ages (visit years): the TIME level of the index is then int64
    force = "integral" if (more and rng.random() < 0.15) else None
    for sid in names:
        co.ips[sid] = random_ip(rng, pop, tau_centre=tau_centre, wide=more)
        co.ages[sid], _ = random_ages(rng, co.ips[sid]["tau"], more=more, force=force)
        if more and rng.random() < 0.6:
            co.ip_style[sid] = rng.choice(IP_STYLES + ["tensorized-skip-checks"])
        if more and rng.random() < 0.6:
            co.age_container[sid] = pick_age_container(rng, co.ages[sid])


def check_pop(chk, co, P, source):
    """Never trust what the implementation derived: the population values the model computes with (read off its state, they
    feed the closed form) must be the parameters it was given (`source`: the settings, the stored file, or — after a fit — the
    model's own public `parameters`). On a mismatch the closed form is evaluated with the parameters, as the property says."""
    if P is None:
        return
    pop = co.pop

    def flat(x):
        x = x.tolist() if hasattr(x, "tolist") else x
        out = []
        def rec(v):
            if isinstance(v, (list, tuple)):
                for u in v:
                    rec(u)
            else:
                out.append(f32(v))
        rec(x)
        return out

    want = {}
    try:
        if pop["kind"] == "logistic":
            want["log_g"], want["log_v0"] = flat(P["log_g_mean"]), flat(P["log_v0_mean"])
        elif pop["kind"] == "linear":
            want["g"], want["log_v0"] = flat(P["g_mean"]), flat(P["log_v0_mean"])
        else:
            want["log_g"], want["deltas"] = flat(P["log_g_mean"])[0], flat(P["deltas_mean"])
        if pop["ns"] > 0:
            b = flat(P["betas_mean"])
            want["betas"] = [b[i * pop["ns"]:(i + 1) * pop["ns"]] for i in range(pop["d"] - 1)]
    except (KeyError, IndexError, TypeError, ValueError):
        chk.tag("pop_cross_check", "parameters-not-in-this-format")
        return
    bad = [k for k, v in want.items() if pop.get(k) != v]
    chk.tag("pop_cross_check", "differs" if bad else "same")
    for k in bad[:1]:
        chk.impl_failure(co.case_json({"op": "population-values", "source": source}),
                         f"the model computes trajectories with {k} = {pop.get(k)} although its parameters ({source}) say {want[k]}")
    pop.update(want)


def run_empty_request(chk, co, rng):
    """Boundary of "every list of ages": no age at all for one individual — an empty (0, dimension) block for it, nothing of
    it in the data frame, and the other individuals unaffected."""
    env, np, pd = co.env, co.env["np"], co.env["pd"]
    ip_obj = env["IndividualParameters"]()
    for sid, ip in co.ips.items():
        ip_obj.add_individual_parameters(sid, dict(ip))
    ids = list(co.ips)
    empty = rng.choice(ids)
    req = {sid: ([] if sid == empty else list(co.ages[sid])) for sid in ids}
    case = co.case_json({"op": "estimate-empty-age-list", "empty_for": empty})
    d = co.pop["d"]
    try:
        with core.quiet():
            out = co.model.estimate(req, ip_obj)
            y0 = co.model.compute_individual_trajectory([], dict(co.ips[empty]))
            fr = co.model.estimate(req, ip_obj, to_dataframe=True) if len(ids) > 1 else None
    except Exception as e:  # noqa
        chk.impl_failure(case, f"an empty list of ages for one individual raised {err_class(e, env)}: {e}")
        return
    fails = []
    if tuple(y0.shape) != (1, 0, d):
        fails.append(f"compute_individual_trajectory([]) has shape {tuple(y0.shape)}, expected (1, 0, {d})")
    if list(out.keys()) != ids:
        fails.append(f"keys {list(out.keys())} != requested {ids}")
    for sid in ids:
        a = np.asarray(out.get(sid))
        if a.shape != (len(req[sid]), d):
            fails.append(f"estimate[{sid}] has shape {a.shape} for {len(req[sid])} requested ages")
    if fr is not None:
        keys = [(a, float(b)) for a, b in fr.index.tolist()]
        want = [(sid, float(t)) for sid in ids for t in req[sid]]
        if keys != want:
            fails.append(f"data frame rows {keys[:5]}… != requested pairs {want[:5]}…")
    for f in fails[:2]:
        chk.impl_failure(case, f)
    chk.tag("edge_request", "empty age list")


def process(chk, co, rng, lines, pending, ix_override=None, scalar=False, layout=None, variant=None, more=False):
    pop = co.pop
    if more and variant is None:
        variant = random_variant(rng, co)
    traj_by_id = {}
    for sid in co.ips:
        y = run_traj(chk, co, sid, lines, pending)
        if y is not None:
            traj_by_id[sid] = y
    run_anchor(chk, co, rng, lines, pending)
    scalar_id = None
    if scalar:
        scalar_id = next(iter(co.ips))
    run_estimate(chk, co, rng, traj_by_id, lines, pending, ix_override=ix_override, scalar_id=scalar_id, layout_override=layout,
                 variant=variant)
    if more and rng.random() < 0.25:
        run_empty_request(chk, co, rng)
    all_ages = [t for ts in co.ages.values() for t in ts]
    nontrivial = any(len(set(ts)) >= 2 for ts in co.ages.values())
    styles = []
    for ts in co.ages.values():
        if len(ts) == 1:
            styles.append("single")
        if len(set(ts)) < len(ts):
            styles.append("repeated")
        if ts != sorted(ts):
            styles.append("unsorted")
        if any(abs(t - 70) >= 199 for t in ts):
            styles.append("far")
        if any(not is_f32(t) for t in ts):
            styles.append("not-float32-numbers")
        if len(ts) >= 17:
            styles.append("long")
        if ts and all(float(t).is_integer() for t in ts):
            styles.append("integral")
    key = (pop["kind"], pop["d"], pop["ns"], json.dumps(co.ips, sort_keys=True), json.dumps(co.ages, sort_keys=True), co.tag)
    chk.case(key, nontrivial=nontrivial, sample=co.case_json() if pop["d"] <= 2 and len(all_ages) <= 6 else None,
             tags={"kind": pop["kind"], "dimension": pop["d"], "sources": pop["ns"], "n_individuals": len(co.ips)})
    for s in set(styles):
        chk.tag("age_styles", s)


def reuse_same_object(env, chk, co, rng, lines, pending, more=False):
    """History clause: the SAME model object after its parameters were replaced in place (`load_parameters`) must follow
    the new parameters. The expected population values are read off a fresh model loaded from the same settings, so a value
    left over from before the update (a cached working copy, a population variable not re-derived) is a closed-form mismatch."""
    st2 = random_settings(rng, co.pop["kind"], co.pop["d"], co.pop["ns"], wide=more)
    obs1 = (co.settings or {}).get("obs_models", {}).get("y")
    if obs1 is not None and obs1 != st2["obs_models"]["y"]:
        # same object, hence same observation model: only its parameters are replaced
        st2["obs_models"] = {"y": obs1}
        if obs1 == "bernoulli":
            st2["parameters"].pop("noise_std", None)
        else:
            d = co.pop["d"]
            st2["parameters"]["noise_std"] = [f32(0.1)] * d if d > 1 else f32(0.1)
    try:
        with core.quiet():
            co.model.load_parameters(dict(st2["parameters"]))
            fresh = env["BaseModel"].load(st2)
    except Exception as e:  # noqa
        chk.impl_failure(co.case_json({"op": "load_parameters", "new_parameters": st2["parameters"]}),
                         f"replacing the parameters of a loaded model in place raised {err_class(e, env)}: {e}")
        return
    pop2 = pop_of_model(fresh)
    if pop2 is None:
        return
    # what is needed to replay: the object was first loaded with these settings and used, then its parameters were replaced
    co.history = {"first_pop": {k: v for k, v in co.pop.items() if k != "mixing"}, "first_ips": dict(co.ips), "first_ages": dict(co.ages),
                  "new_parameters": st2["parameters"]}
    co.pop = pop2
    co.settings = st2
    check_pop(chk, co, st2["parameters"], "the parameters loaded in place")
    co.tag = str(co.tag) + "+parameters-replaced-in-place"
    names = list(co.ips)
    co.ips, co.ages, co.ip_style, co.age_container = {}, {}, {}, {}
    populate(env, rng, co, names, more)
    process(chk, co, rng, lines, pending, more=more)
    chk.tag("history", "estimate after in-place load_parameters")


def transformed_model(env, model, how):
    """Another public way to the same model: a deep copy, or the model written to a file and loaded back."""
    import copy
    import os
    import shutil
    import tempfile
    if how == "deepcopy":
        return copy.deepcopy(model)
    if how == "save-load":
        tmp = tempfile.mkdtemp(prefix="c09_model_")
        try:
            path = os.path.join(tmp, "model.json")
            model.save(path)
            return env["BaseModel"].load(path)
        finally:
            shutil.rmtree(tmp, ignore_errors=True)
    raise ValueError(how)


def copy_history(env, chk, co, rng, lines, pending, how, more=True):
    """The curve of a deep copy / of the model saved and loaded back is the curve of the same parameters."""
    try:
        with core.quiet():
            m2 = transformed_model(env, co.model, how)
    except Exception as e:  # noqa
        chk.impl_failure(co.case_json({"op": how}), f"{how} of a loaded model raised {err_class(e, env)}: {e}")
        return
    pop2 = pop_of_model(m2)
    if pop2 is None:
        chk.impl_failure(co.case_json({"op": how}), f"{how} gives a model of another class ({type(m2).__name__})")
        return
    co2 = Cohort(env, m2, pop2, str(co.tag) + "+" + how)
    co2.settings = co.settings
    co2.history = {"kind": how}
    if co.settings is not None:
        check_pop(chk, co2, co.settings.get("parameters"), f"the settings of the model it is a {how} of")
    populate(env, rng, co2, list(co.ips), more)
    process(chk, co2, rng, lines, pending, more=more)
    chk.tag("history", how)


FIT_SHAPES = [("logistic", 1, 0), ("logistic", 3, 2), ("linear", 2, 1), ("shared_speed_logistic", 3, 1), ("shared_speed_logistic", 2, 0),
              ("linear", 1, 0), ("logistic", 2, 1)]


def fit_recipe(rng, kind, d, ns):
    rows = []
    for i in range(rng.randrange(4, 7)):
        t0 = rng.uniform(60, 80)
        base = [rng.uniform(0.1, 0.6) for _ in range(d)]
        for k in range(rng.choice([2, 3, 4])):
            rows.append([f"f{i}", round(t0 + 1.5 * k + rng.uniform(0, 1), 3)] + [round(min(0.97, b + 0.07 * k + rng.uniform(-0.03, 0.03)), 4) for b in base])
    return {"kind": "after-fit", "model": [kind, d, ns], "rows": rows, "n_iter": rng.choice([3, 5]), "seed": rng.randrange(0, 1000),
            "then": rng.choice(["nothing", "personalize", "personalize"])}


def fitted_model(env, recipe):
    """A model in the state a fit (and possibly a personalisation) leaves it in: its state holds the training cohort's data and
    individual variables. Raises what the fit raises."""
    pd = env["pd"]
    from leaspy.models import model_factory
    kind, d, ns = recipe["model"]
    df = pd.DataFrame(recipe["rows"], columns=["ID", "TIME"] + [f"Y{k}" for k in range(d)])
    model = model_factory(kind, source_dimension=ns) if d > 1 else model_factory(kind)
    model.fit(df, "mcmc_saem", n_iter=recipe["n_iter"], seed=recipe["seed"])
    if recipe.get("then") == "personalize":
        model.personalize(df, "scipy_minimize", seed=recipe["seed"])
    return model


def fit_history(env, chk, rng, lines, pending, recipe=None, ips=None, ages=None, styles=None, kw=None):
    """Process state: the model as a fit leaves it (data and the training individuals' variables inside its state), used for
    other individuals. Expected population values: the model's own public parameters."""
    if recipe is None:
        recipe = fit_recipe(rng, *rng.choice(FIT_SHAPES))
    try:
        with core.quiet():
            model = fitted_model(env, recipe)
    except Exception as e:  # noqa
        chk.tag("history", f"after-fit skipped ({type(e).__name__})")   # a 3-iteration fit that does not converge is not C09's matter
        return
    pop = pop_of_model(model)
    if pop is None:
        return
    co = Cohort(env, model, pop, "random+after-fit")
    co.history = recipe
    try:
        check_pop(chk, co, dict(model.parameters), "its public parameters after the fit")
    except Exception:  # noqa
        pass
    if any(not math.isfinite(x) for k in ("log_g", "g", "log_v0", "deltas") if k in pop
           for x in (pop[k] if isinstance(pop[k], list) else [pop[k]])):
        chk.tag("history", "after-fit skipped (non-finite parameters)")
        return
    if ips is not None:
        co.ips, co.ages = ips, ages
        co.ip_style, co.age_container = dict((styles or {}).get("ip_style") or {}), dict((styles or {}).get("age_container") or {})
        process(chk, co, rng, lines, pending, **(kw or {}))
    else:
        populate(env, rng, co, rng.sample(["S1", "b", "A", "f0", "Z9"], rng.randrange(1, 4)), True)
        process(chk, co, rng, lines, pending, more=True)
    chk.tag("history", "after-fit" + ("+personalize" if recipe.get("then") == "personalize" else ""))


def probe_findings(chk, env, rng, lines, pending):
    """Witnesses of F17 / F18 (status `fixed`: a reproduction is a regression and is reported as a violation)."""
    st = random_settings(rng, "logistic", 2, 1)
    co = build_cohort(env, chk, rng, settings=st)
    if co is None:
        return
    co.ips = {"B": {"xi": 0.125, "tau": 70.0, "sources": [0.5]}, "A": {"xi": -0.125, "tau": 75.0, "sources": [-0.25]}}
    co.ages = {"B": [80.0, 70.0, 70.0], "A": [60.0]}
    n0 = len(chk.impl_failures)
    process(chk, co, rng, lines, pending, ix_override=[("B", 80.0), ("A", 60.0), ("B", 70.0), ("B", 70.0)], scalar=False)
    co2 = build_cohort(env, chk, rng, settings=st)
    if co2 is None:
        return
    co2.ips = {"A": {"xi": -0.125, "tau": 75.0, "sources": [-0.25]}}
    co2.ages = {"A": [60.0]}
    process(chk, co2, rng, lines, pending, scalar=True)
    # F93: identifiers as a categorical level with a category nobody asked for (a cohort table sliced to a few individuals)
    co3 = build_cohort(env, chk, rng, settings=st)
    if co3 is None:
        return
    co3.ips = {"B": {"xi": 0.125, "tau": 70.0, "sources": [0.5]}, "A": {"xi": -0.125, "tau": 75.0, "sources": [-0.25]}}
    co3.ages = {"B": [80.0, 70.0], "A": [60.0]}
    process(chk, co3, rng, lines, pending, ix_override=[("B", 80.0), ("A", 60.0), ("B", 70.0)], layout=["ID", "TIME"],
            variant={"index_kind": "categorical-unused"})
    hit = {f["finding"] for f in chk.impl_failures[n0:] if f["finding"]}
    listed = {f["id"]: f for f in chk.findings}
    for fid in ("F17", "F18", "F93"):
        if fid in hit:
            if listed.get(fid, {}).get("status") == "finding":
                chk.known_finding_reproduces(fid, "witness reproduces")
        else:
            chk.note(f"finding {fid}: witness does not reproduce (repaired)")


def run(chk: core.Check):
    env = _imports()
    rng = chk.rng
    chk.rule = ("random float32-representable population parameters for every kind (logistic, linear, shared_speed_logistic) x "
                "dimension 1..6 x source dimension 0..dim-1, plus every loadable stored model of these kinds under tests/_data/model_parameters; "
                "1-3 individuals each with random (xi, tau, sources) and an age list that is single / sorted / unsorted / repeated / "
                "+-200 years / at tau; per cohort: compute_individual_trajectory per individual, the t=tau anchor, and estimate() in its "
                "4 input/output layouts (shuffled ids, interleaved unsorted MultiIndex). Every other round widens: parameters at the edge of "
                "the documented domain (g from e^-5 to e^7, velocities over four decades, linear scores in any unit, loadings of order 1, "
                "time axis in years since baseline or months, Bernoulli observation model, 12 features / 11 sources), ages with many decimals / "
                "integral / dozens, ages and individual parameters in every accepted container and dtype (tuple, numpy, torch, pandas, "
                "one-element lists, integers, tensorized + skip_ips_checks), IndividualParameters built by add / from_dataframe / from_pytorch / "
                "json / csv and holding more individuals than requested, to_dataframe left to its default, TIME level int64 / float32, index "
                "sliced out of a larger one or with categorical identifiers, an empty age list; histories: in-place load_parameters, deep copy, "
                "save + load, the model as a fit (+ personalisation) leaves it; population values cross-checked against the parameters given. "
                "A case (= cohort) is non-trivial when some individual "
                "has >= 2 distinct ages; distinct by kind, dimension, parameters, individual parameters and ages.")
    lines, pending = [], []
    for c in core.load_corpus(PROP):
        co = build_cohort(env, chk, rng, settings=c.get("settings"))
        if co is not None:
            if "ips" in c:
                co.ips, co.ages = c["ips"], c["ages"]
            process(chk, co, rng, lines, pending, ix_override=[tuple(x) for x in c["ix"]] if c.get("ix") else None, scalar=bool(c.get("scalar")))
    probe_findings(chk, env, rng, lines, pending)
    combos = []
    for kind in KINDS:
        for d in (1, 2, 3, 4, 6):
            for ns in sorted({0, 1, d - 1}):
                if ns < d and (ns == 0 or d > 1):
                    combos.append((kind, d, ns))
    # plain rounds (the ranges of the stored models, python lists and floats, one IndividualParameters built by `add`) alternate
    # with "more" rounds: parameters at the edge of the documented domain, every accepted container / dtype of ages and individual
    # parameters, other routes to the IndividualParameters object, more individuals in it than requested, other index dtypes
    n_rounds = 6 if chk.tier == "quick" else 70
    big = [(kind, 12, ns) for kind in KINDS for ns in (0, 1, 11)]
    for r in range(n_rounds):
        more = r % 2 == 1
        todo = list(combos)
        if more:
            todo += rng.sample(big, 2 if chk.tier == "quick" else 4)       # > 10 features / sources
        for kind, d, ns in todo:
            co = build_cohort(env, chk, rng, settings=random_settings(rng, kind, d, ns, wide=more), more=more)
            if co is not None:
                process(chk, co, rng, lines, pending, scalar=(rng.random() < 0.15), more=more)
                u = rng.random()
                if u < 0.4:
                    reuse_same_object(env, chk, co, rng, lines, pending, more=more)
                elif more and u < 0.55:
                    copy_history(env, chk, co, rng, lines, pending, rng.choice(["deepcopy", "save-load"]))
    for _ in range(3 if chk.tier == "quick" else 16):
        fit_history(env, chk, rng, lines, pending)
    stored = sorted(glob.glob(str(core.REPO / "tests/_data/model_parameters/**/*.json"), recursive=True))
    if chk.tier == "quick":
        stored = [p for p in stored if "_arm" not in p and "gpu" not in p]
    for p in stored:
        try:
            name = json.loads(open(p).read()).get("name")
        except Exception:  # noqa
            continue
        if name not in KINDS:
            chk.tag("stored_model_skipped", str(name))
            continue
        more = rng.random() < 0.5
        co = build_cohort(env, chk, rng, path=p, more=more)
        if co is not None:
            co.tag = p.split("model_parameters/")[-1]
            process(chk, co, rng, lines, pending, more=more)
    compare(chk, lines, pending)


def settings_of_pop(pop, obs=None):
    kind, d, ns = pop["kind"], pop["d"], pop["ns"]
    obs = obs or ("gaussian-diagonal" if d > 1 else "gaussian-scalar")
    P = {"tau_mean": [70.0], "tau_std": [5.0], "xi_std": [0.5]}
    if obs != "bernoulli":
        P["noise_std"] = [0.1] * d if d > 1 else 0.1
    if kind == "logistic":
        P["log_g_mean"], P["log_v0_mean"] = pop["log_g"], pop["log_v0"]
    elif kind == "linear":
        P["g_mean"], P["log_v0_mean"] = pop["g"], pop["log_v0"]
    else:
        P["log_g_mean"], P["deltas_mean"], P["xi_mean"] = [pop["log_g"]], pop["deltas"], [0.0]
    if ns:
        P["betas_mean"] = pop["betas"]
    return {"leaspy_version": "2.0.0-dev", "name": kind, "features": pop["features"], "dimension": d,
            "obs_models": {"y": obs}, "parameters": P, "source_dimension": ns}


def replay(chk: core.Check, payload):
    env = _imports()
    case = payload.get("case") or (payload.get("disagreements") or [{}])[0].get("case")
    if not case or "pop" not in case:
        chk.note("replay file has no case")
        return
    pop = case["pop"]
    obs = case.get("obs_model")
    st = settings_of_pop(pop, obs)
    hist = case.get("history")
    variant = case.get("variant")
    lines, pending = [], []

    def dressed(co):
        co.ips, co.ages = case["ips"], case["ages"]
        co.ip_style, co.age_container = dict(case.get("ip_style") or {}), dict(case.get("age_container") or {})
        return co

    ix = case.get("ix")
    kw = dict(ix_override=[tuple(x) for x in ix] if ix else None, scalar=bool(case.get("scalar_id")), layout=case.get("layout"),
              variant=variant)
    if hist and hist.get("kind") == "after-fit":
        fit_history(env, chk, chk.rng, lines, pending, recipe=hist, ips=case["ips"], ages=case["ages"], styles=case, kw=kw)
        compare(chk, lines, pending)
        return
    if hist and hist.get("kind") in ("deepcopy", "save-load"):
        co = build_cohort(env, chk, chk.rng, settings=st)
        if co is None:
            return
        try:
            with core.quiet():
                m2 = transformed_model(env, co.model, hist["kind"])
        except Exception as e:  # noqa
            chk.impl_failure(case, f"{hist['kind']} of a loaded model raised {err_class(e, env)}: {e}")
            return
        co2 = build_cohort(env, chk, chk.rng, settings=st, model=m2)
        if co2 is None:
            return
        co2.tag = "random+" + hist["kind"]
        process(chk, dressed(co2), chk.rng, lines, pending, **kw)
        compare(chk, lines, pending)
        return
    if hist:
        # same object, used once with its first parameters, then parameters replaced in place
        fp = hist["first_pop"]
        co = build_cohort(env, chk, chk.rng, settings=settings_of_pop(fp, obs))
        if co is None:
            return
        co.ips, co.ages, co.ip_style, co.age_container = hist["first_ips"], hist["first_ages"], {}, {}
        process(chk, co, chk.rng, lines, pending)
        try:
            with core.quiet():
                co.model.load_parameters(dict(hist["new_parameters"]))
                fresh = env["BaseModel"].load(dict(st, parameters=hist["new_parameters"]))
        except Exception as e:  # noqa
            chk.impl_failure(case, f"replacing the parameters in place raised {err_class(e, env)}: {e}")
            return
        co.pop = pop_of_model(fresh)
        co.settings = dict(st, parameters=hist["new_parameters"])
        check_pop(chk, co, hist["new_parameters"], "the parameters loaded in place")
        co.tag = "random+parameters-replaced-in-place"
        process(chk, dressed(co), chk.rng, lines, pending, **kw)
        compare(chk, lines, pending)
        return
    if case.get("tag", "random") != "random" and not str(case.get("tag")).startswith("random"):
        co = build_cohort(env, chk, chk.rng, path=str(core.REPO / "tests/_data/model_parameters" / case["tag"]))
    else:
        co = build_cohort(env, chk, chk.rng, settings=st)
    if co is None:
        return
    process(chk, dressed(co), chk.rng, lines, pending, **kw)
    compare(chk, lines, pending)
