"""Footprint recorder for C13 (not a check by itself; used by c13_purity.py).

While ONE public call (`estimate`, `personalize`, `simulate`) runs on a real model, call-through wrappers on
`leaspy.variables.state.State` and on the model class record every event that can change a state or the model object:

    State.__setitem__            s:<sid>:<node>:<0|1>     (1 = a value, 0 = None)      — `put`, `put_*_latent_variables`,
                                                           `put_data_variables`, `reset_data_variables` are made of these
    State.__getitem__ (uncached) g:<sid>:<node>           a read of a cached value changes nothing and is not recorded
    State.revert                 r:<sid> | rp:<sid>
    State.clone                  c:<src>:<dst>:<disable_auto_fork>:<keep_last_fork>   (+ sh:<src>:<dst>:<node> when the clone
                                                           shares tensor storage with its source)
    State.precompute_all         pc:<sid>
    State.clear                  cl:<sid>
    State.auto_fork_type = …     m:<sid>:<0|1>            (the `auto_fork` context manager assigns twice)
    State.to_device / (un)track  x:<sid>:<what>           not in the C01 vocabulary: always counted as a write; `clone` hands its
                                                           own set of tracked names to the clone, so (un)track is reported for
                                                           every state holding that very set
    model._state = <State>       b:<sid>                  (`model.state = …` goes through it)
    model.<attribute> = …        a:<name>
    in-place tensor write        k:0:<node>               a tensor held by state 0 when the call started has another
                                                           `_version` afterwards (`add_`, `x[mask] = v`, `copy_`, …)

Also here: `InputWatch` (writes to the caller's AlgorithmSettings object and to `settings.parameters` and its nested
dictionaries while the call runs; `_version` counters of the tensors of a caller-owned Dataset), `compress` (run-length form
of a history, expanded again by the driver), fingerprints of the model's other attributes.

State identities: 0 = `model.state` as it was when the call started, k > 0 = the k-th State object seen afterwards
(every one of them must be born in a recorded `clone`; anything else is reported as `new:<sid>`).
Nodes are ranks in `sorted(dag)` like in the C01 driver.
"""
from __future__ import annotations

import hashlib

_REC = None          # the active recorder (one at a time)


def _tensors_of(value):
    """torch tensors reachable from a state value (tensor / WeightedTensor / None)"""
    import torch
    if value is None:
        return []
    if isinstance(value, torch.Tensor):
        return [value]
    out = []
    for a in ("value", "weight"):
        t = getattr(value, a, None)
        if isinstance(t, torch.Tensor):
            out.append(t)
    return out


def _storage_ptr(t):
    try:
        return t.untyped_storage().data_ptr() if t.numel() else None
    except Exception:  # noqa
        return None


class Recorder:
    def __init__(self, model):
        import leaspy.models  # noqa: F401
        from leaspy.models.base import BaseModel
        from leaspy.variables.state import State
        self.State, self.BaseModel = State, BaseModel
        self.model = model
        st = model._state
        self.names = sorted(st.dag)
        self.rank = {n: i for i, n in enumerate(self.names)}
        self.sid_of = {id(st): 0}
        self.keep = [st]                 # strong references: ids are never reused during the recording
        self.events = []
        self.depth_clone = 0
        self.bound = 0
        # tensors held by state 0 (values, fork, hyper-parameters of the DAG) with their version counters
        self.held = []
        for n, v in st._values.items():
            for t in _tensors_of(v):
                self.held.append((n, "value", t, t._version))
        if st._last_fork is not None:
            for n, v in st._last_fork.items():
                for t in _tensors_of(v):
                    self.held.append((n, "fork", t, t._version))
        for n, var in st.dag.items():
            t = getattr(var, "value", None)
            for tt in _tensors_of(t):
                self.held.append((n, "dag", tt, tt._version))
        self.identity0 = self._identity(st)

    # ---------------------------------------------------------------------------------------------- state 0 by identity
    @staticmethod
    def _identity(st):
        """object identities of everything state `st` holds (no read through the state)"""
        return dict(values={k: id(v) for k, v in st._values.items()},
                    fork=None if st._last_fork is None else (id(st._last_fork), {k: id(v) for k, v in st._last_fork.items()}),
                    mode=st.__dict__.get("auto_fork_type"),
                    tracked=(id(st._tracked_variables), tuple(sorted(st._tracked_variables))))

    def sid(self, st):
        k = self.sid_of.get(id(st))
        if k is None:
            k = len(self.keep)
            self.sid_of[id(st)] = k
            self.keep.append(st)
            if not self.depth_clone:
                self.events.append(f"new:{k}")
        return k

    def node(self, name):
        r = self.rank.get(name)
        return len(self.names) if r is None else r      # an unknown name: out of range, refused by the model as by the code

    # ---------------------------------------------------------------------------------------------- install / uninstall
    def __enter__(self):
        global _REC
        assert _REC is None, "one recorder at a time"
        State, BaseModel = self.State, self.BaseModel
        rec = self
        self._orig = {k: State.__dict__[k] for k in ("__setitem__", "__getitem__", "revert", "clone", "precompute_all", "clear",
                                                      "to_device", "track_variable", "untrack_variable")}
        o = self._orig

        def setitem(st, name, value):
            if not rec.depth_clone:
                rec.events.append(f"s:{rec.sid(st)}:{rec.node(name)}:{0 if value is None else 1}")
            return o["__setitem__"](st, name, value)

        def getitem(st, name):
            if st._values.get(name) is None and not rec.depth_clone:
                rec.events.append(f"g:{rec.sid(st)}:{rec.node(name)}")
            return o["__getitem__"](st, name)

        def revert(st, subset=None, **kw):
            rec.events.append(f"r:{rec.sid(st)}" if subset is None else f"rp:{rec.sid(st)}")
            return o["revert"](st, subset, **kw)

        def clone(st, *, disable_auto_fork=False, keep_last_fork=False):
            src = rec.sid(st)
            rec.depth_clone += 1
            try:
                new = o["clone"](st, disable_auto_fork=disable_auto_fork, keep_last_fork=keep_last_fork)
            finally:
                rec.depth_clone -= 1
            dst = len(rec.keep)
            rec.sid_of[id(new)] = dst
            rec.keep.append(new)
            rec.events.append(f"c:{src}:{dst}:{int(bool(disable_auto_fork))}:{int(bool(keep_last_fork))}")
            # the model's clone is a copy by value: a clone sharing storage with its source is outside the model
            ptrs = {}
            for n, v in st._values.items():
                for t in _tensors_of(v):
                    p = _storage_ptr(t)
                    if p is not None:
                        ptrs[p] = n
            for n, v in new._values.items():
                for t in _tensors_of(v):
                    if _storage_ptr(t) in ptrs:
                        rec.events.append(f"sh:{src}:{dst}:{rec.node(n)}")
                        break
            return new

        def precompute_all(st):
            if not rec.depth_clone:
                rec.events.append(f"pc:{rec.sid(st)}")
            return o["precompute_all"](st)

        def clear(st):
            if not rec.depth_clone:
                rec.events.append(f"cl:{rec.sid(st)}")
            return o["clear"](st)

        def to_device(st, device):
            rec.events.append(f"x:{rec.sid(st)}:to_device")
            return o["to_device"](st, device)

        def sharing_tracked(st):
            # `clone` hands its own set of tracked names to the clone: every state holding that very set is concerned
            rec.sid(st)
            return [k for k, other in enumerate(rec.keep) if other._tracked_variables is st._tracked_variables]

        def track_variable(st, name):
            rec.events.extend(f"x:{k}:track" for k in sharing_tracked(st))
            return o["track_variable"](st, name)

        def untrack_variable(st, name):
            rec.events.extend(f"x:{k}:untrack" for k in sharing_tracked(st))
            return o["untrack_variable"](st, name)

        def get_mode(st):
            return st.__dict__.get("auto_fork_type")

        def set_mode(st, v):
            if not rec.depth_clone:
                rec.events.append(f"m:{rec.sid(st)}:{0 if v is None else 1}")
            st.__dict__["auto_fork_type"] = v

        def model_setattr(m, name, value):
            if m is rec.model and not isinstance(getattr(type(m), name, None), property):
                # (a property setter such as `model.state = …` ends in plain attribute writes, recorded when they happen)
                if name == "_state":
                    rec.bound = rec.sid(value) if isinstance(value, State) else -1
                    rec.events.append(f"b:{rec.bound}" if rec.bound >= 0 else "a:_state")
                else:
                    rec.events.append(f"a:{name}")
            object.__setattr__(m, name, value)

        for k, f in dict(__setitem__=setitem, __getitem__=getitem, revert=revert, clone=clone, precompute_all=precompute_all,
                         clear=clear, to_device=to_device, track_variable=track_variable, untrack_variable=untrack_variable).items():
            setattr(State, k, f)
        State.auto_fork_type = property(get_mode, set_mode)
        BaseModel.__setattr__ = model_setattr
        _REC = self
        return self

    def __exit__(self, *exc):
        global _REC
        State, BaseModel = self.State, self.BaseModel
        for k, f in self._orig.items():
            setattr(State, k, f)
        del State.auto_fork_type
        del BaseModel.__setattr__
        _REC = None
        # in-place writes: version counters of the tensors state 0 held when the call started
        seen = set()
        for n, where, t, v0 in self.held:
            if t._version != v0 and (n, where) not in seen:
                seen.add((n, where))
                self.events.append(f"k:0:{self.node(n)}")
        return False

    # ---------------------------------------------------------------------------------------------- results
    def _kinds(self):
        from leaspy.variables.specs import Hyperparameter, LinkedVariable
        dag = self.keep[0].dag
        out = []
        for n in self.names:
            var = dag[n]
            if isinstance(var, LinkedVariable):
                out.append("l")
            elif isinstance(var, Hyperparameter) or not var.is_settable:
                out.append("h")
            else:
                out.append("s")
        return out

    def _classes(self, classes):
        return " ".join(f"{k}={','.join(str(self.rank[n]) for n in classes[k]) or '_'}"
                        for k in ("params", "hyper", "pop", "data", "ind"))

    def request(self, call, classes):
        """line for drivers/C13.lean: node = kind:descendants, the table `dag.sorted_children` that `__setitem__` uses"""
        dag = self.keep[0].dag
        nodes = "/".join(f"{k}:{','.join(str(self.rank[c]) for c in dag.sorted_children[n]) or '_'}"
                         for k, n in zip(self._kinds(), self.names))
        return f"footprint call={call} nodes={nodes} {self._classes(classes)} ops={';'.join(compress(self.events)) or '_'}"

    def replay_request(self, call, classes):
        """the same history on shadow values: node = kind:parents (the tables are rebuilt by the C15 model)"""
        dag = self.keep[0].dag
        nodes = "/".join(f"{k}:{','.join(str(self.rank[p]) for p in sorted(dag.direct_ancestors[n])) or '_'}"
                         for k, n in zip(self._kinds(), self.names))
        return f"replay call={call} nodes={nodes} {self._classes(classes)} ops={';'.join(compress(self.events)) or '_'}"

    def original_unchanged_by_identity(self):
        """state 0 holds the very same objects as when the call started (values, fork, mode, tracked set)"""
        return self._identity(self.keep[0]) == self.identity0

    def cache_only_grew(self):
        """state 0: every entry is the same object as before or was None before; fork / mode / tracked identical"""
        now = self._identity(self.keep[0])
        b = self.identity0
        if (now["fork"], now["mode"], now["tracked"]) != (b["fork"], b["mode"], b["tracked"]):
            return False
        none_id = id(None)
        return all(now["values"].get(k) == v or v == none_id for k, v in b["values"].items()) and \
            set(now["values"]) == set(b["values"])


# ---------------------------------------------------------------------------------------------------- caller-owned inputs
_LIVE = {}           # id(recording dict) -> path, only for the dictionaries of the settings object being watched
_WATCH = None


class _RecDict(dict):
    """a dict that reports its own mutations while it stands in for a dictionary of the caller's settings
    (copies made by the code under test — `deepcopy`, `copy` — are other objects and report nothing)"""

    def _rec(self, what):
        p = _LIVE.get(id(self))
        if p is not None and _WATCH is not None:
            _WATCH.events.append(f"in:{p}{what}")

    def __setitem__(self, k, v):
        self._rec(f"[{k}]=")
        dict.__setitem__(self, k, v)

    def __delitem__(self, k):
        self._rec(f"[{k}] del")
        dict.__delitem__(self, k)

    def update(self, *a, **kw):
        if a or kw:
            self._rec(".update")
        dict.update(self, *a, **kw)

    def pop(self, *a):
        self._rec(f".pop({a[0] if a else ''})")
        return dict.pop(self, *a)

    def popitem(self):
        self._rec(".popitem")
        return dict.popitem(self)

    def setdefault(self, k, d=None):
        if k not in self:
            self._rec(f".setdefault({k})")
        return dict.setdefault(self, k, d)

    def clear(self):
        self._rec(".clear")
        dict.clear(self)

    def __ior__(self, other):
        self._rec(".update")
        dict.update(self, other)
        return self

    def __reduce_ex__(self, protocol):
        # copies and pickles are plain dictionaries
        return (dict, (), None, None, iter(dict.items(self)))


class InputWatch:
    """Records writes to the caller's `AlgorithmSettings` object during one call: attribute assignments on the object, and
    item writes into `settings.parameters` and the dictionaries nested in it (they are replaced by recording dictionaries
    for the duration of the call; whatever the call wrote is written back into the caller's own dictionaries afterwards, so
    the before/after fingerprints still see it).  Also the `_version` counters of every tensor reachable from the inputs."""

    def __init__(self, args):
        self.settings = args.get("settings")
        self.args = args
        self.events = []
        self.registry = []
        self.versions0 = tensor_versions({k: v for k, v in args.items() if k != "settings"})

    def _wrap(self, d, path):
        r = _RecDict()
        for k, v in d.items():
            dict.__setitem__(r, k, self._wrap(v, f"{path}.{k}") if type(v) is dict else v)
        self.registry.append((r, d))
        _LIVE[id(r)] = path
        return r

    def __enter__(self):
        global _WATCH
        assert _WATCH is None
        s = self.settings
        if s is not None and type(getattr(s, "parameters", None)) is dict:
            self.cls = type(s)
            self.root = s.parameters
            object.__setattr__(s, "parameters", self._wrap(s.parameters, "settings.parameters"))
            watch = self

            def settings_setattr(obj, name, value):
                if obj is watch.settings:
                    watch.events.append(f"in:settings.{name}=")
                object.__setattr__(obj, name, value)
            self.cls.__setattr__ = settings_setattr
        else:
            self.cls = None
        _WATCH = self
        return self

    def __exit__(self, *exc):
        global _WATCH
        _WATCH = None
        if self.cls is not None:
            del self.cls.__setattr__
            orig_of = {id(r): d for r, d in self.registry}
            for r, d in self.registry:          # children first
                d.clear()
                for k, v in dict.items(r):
                    d[k] = orig_of.get(id(v), dict(v) if isinstance(v, _RecDict) else v)
                _LIVE.pop(id(r), None)
            cur = self.settings.parameters
            if isinstance(cur, _RecDict) and id(cur) in orig_of:
                object.__setattr__(self.settings, "parameters", orig_of[id(cur)])
        v1 = tensor_versions({k: v for k, v in self.args.items() if k != "settings"})
        for path, (i0, ver0) in self.versions0.items():
            i1, ver1 = v1.get(path, (None, None))
            if i1 != i0:
                self.events.append(f"in:{path} replaced")
            elif ver1 != ver0:
                self.events.append(f"in:{path} written in place")
        return False


def compress(events, max_period=48):
    """run-length form of a history: `*<r>*<p>` = "the p events just before are repeated r more times" (the driver expands
    it back before anything is decided).  The objective function of scipy_minimize assigns the same variables and fills the
    same cache entries of one clone hundreds of times."""
    out, i, n = [], 0, len(events)
    while i < n:
        best_p, best_r = 0, 0
        e = events[i]
        for p in range(1, min(max_period, (n - i) // 2) + 1):
            if events[i + p] != e:
                continue
            blk = events[i:i + p]
            r = 1
            while events[i + r * p:i + (r + 1) * p] == blk:
                r += 1
            if r >= 2 and p * (r - 1) > best_p * max(best_r - 1, 0):
                best_p, best_r = p, r
        if best_r >= 2 and best_p * (best_r - 1) >= 2:
            out.extend(events[i:i + best_p])
            out.append(f"*{best_r - 1}*{best_p}")
            i += best_p * best_r
        else:
            out.append(e)
            i += 1
    return out


def expand(tokens):
    """inverse of `compress` (used by the tests of the harness itself)"""
    out = []
    for t in tokens:
        if t.startswith("*"):
            _, r, p = t.split("*")
            blk = out[-int(p):]
            out.extend(blk * int(r))
        else:
            out.append(t)
    return out


def deep_fp(o, depth=4, _seen=None):
    """fingerprint of an arbitrary attribute value (tensors by content, containers recursively, other objects by their
    public content down to `depth`); used for the attributes of the model object other than its state"""
    import numpy as np
    import torch
    if _seen is None:
        _seen = set()
    if o is None or isinstance(o, (bool, int, float, str, bytes)):
        return repr(o)
    if isinstance(o, torch.Tensor):
        t = o.detach().cpu().contiguous()
        return ("T", str(t.dtype), tuple(t.shape), hashlib.sha1(t.numpy().tobytes()).hexdigest(), o._version)
    if isinstance(o, np.ndarray):
        return ("N", str(o.dtype), o.shape, hashlib.sha1(np.ascontiguousarray(o).tobytes()).hexdigest())
    if id(o) in _seen or depth <= 0:
        return ("O", type(o).__name__)
    _seen.add(id(o))
    if isinstance(o, dict):
        return ("D", tuple((repr(k), deep_fp(v, depth - 1, _seen)) for k, v in o.items()))
    if isinstance(o, (list, tuple)):
        return ("L", type(o).__name__, tuple(deep_fp(v, depth - 1, _seen) for v in o))
    if isinstance(o, (set, frozenset)):
        return ("S", tuple(sorted(repr(x) for x in o)))
    d = getattr(o, "__dict__", None)
    if isinstance(d, dict):
        return ("I", type(o).__name__, tuple((k, deep_fp(v, depth - 1, _seen)) for k, v in sorted(d.items()) if not callable(v)))
    return ("O", type(o).__name__, repr(o)[:80] if not callable(o) else "")


def model_attrs_fp(model):
    """every attribute of the model object except its state"""
    return {k: deep_fp(v) for k, v in model.__dict__.items() if k != "_state"}


def tensor_versions(obj, depth=4, _seen=None, prefix=""):
    """{path: (id, _version)} of every torch tensor reachable from a caller-owned input (Dataset, settings, …)"""
    import torch
    out = {}
    if _seen is None:
        _seen = set()
    if isinstance(obj, torch.Tensor):
        out[prefix] = (id(obj), obj._version)
        return out
    if obj is None or isinstance(obj, (bool, int, float, str, bytes)) or id(obj) in _seen or depth <= 0:
        return out
    _seen.add(id(obj))
    if isinstance(obj, dict):
        items = list(obj.items())
    elif isinstance(obj, (list, tuple)):
        items = list(enumerate(obj))
    else:
        d = getattr(obj, "__dict__", None)
        items = list(d.items()) if isinstance(d, dict) else []
    for k, v in items:
        out.update(tensor_versions(v, depth - 1, _seen, f"{prefix}.{k}"))
    return out
