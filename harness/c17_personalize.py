"""C17 — personalisation returns one aligned, finite, non-worsening estimate per subject.

Sampling-based algorithms: the real `model.personalize(data, "mean_posterior" | "mode_posterior", …)` is run with
call-through recorders on `McmcPersonalizeAlgorithm` (per-iteration realisations, attachment, regularity — recorded
independently of the code's own keep / burn-in decision).  `Model/Personalize.lean` recomputes, from the recorded chain,
  * the mean of the kept draws on exact rationals of the recorded floats (compared through the float32/float64 summation envelope),
  * the selected draw with the very float32 (float64 for joint models) additions and comparisons torch performs (compared exactly),
  * the container `from_pytorch(dataset.indices, estimates)` (compared exactly).
Optimisation-based algorithm (`scipy_minimize`): scipy's optimiser is NOT modelled; the clause "never returns a point worse
than its start" is monitored on the real code: objective at the start point and at the returned point, recomputed on a fresh
per-individual clone of the model state, `f(ret) <= f(start) + ftol * (1 + |f(start)|)` with the algorithm's own ftol.
What IS modelled (`Model/Scalings.lean`) is the prior-standardized coordinate system the optimiser works in
(`_AffineScaling`, `_AffineScalings1D`): the real classes are built (hand-made with dyadic loc / scale so that float32 arithmetic
is exact, through `from_latent_variable` on 0-d / 1-d / 2-d priors, and through `from_state` on the states of the stored models)
and `len`, `slices`, `stack`, `unstack`, `scaling`, `unscaling` — including what is raised on a missing variable or on lengths that
cannot broadcast — are compared with the Lean model (exactly for dyadic inputs, through a float32 envelope otherwise); on every
recorded scipy_minimize run the start point handed to scipy and the returned estimate are compared with `scaling(initial values)` /
`unscaling(res.x)` of the model, and with a bit-exact numpy reference of `(x - mode)/stddev` / `mode + stddev*v`.
"""
from __future__ import annotations

import math
import struct
import warnings
from fractions import Fraction

from . import core
from .core import fmt_rat

PROP = "C17"
LEAN = dict(
    props="LeaspyVerif.Props.C17",
    driver="drivers/C17.lean",
    harness="c17_personalize.py",
    extra_modules=["LeaspyVerif.Model.Personalize", "LeaspyVerif.Model.IndParams", "LeaspyVerif.Model.Scalings",
                   "LeaspyVerif.Lemmas.IndParams", "LeaspyVerif.Lemmas.Personalize", "LeaspyVerif.Lemmas.Scalings"],
    theorems=["kept_eq_drop", "kept_count", "mean_is_mean_of_kept", "mean_undefined_iff", "mean_ignores_burnin",
              "keptLoss_get", "mode_is_kept_draw", "mode_minimal", "mode_first_on_ties",
              "align_ids_order_shape", "align_empty_cohort", "align_duplicate_refused",
              # prior-standardized coordinates of the optimisation (Model/Scalings.lean)
              "mk_valid", "fromLatent_scalar_prior", "slices_names", "slices_start_stop", "slices_widths", "slices_partition",
              "stack_shaped", "unstack_stack", "stack_unstack", "stack_missing_name", "stack_lookup_only",
              "scaling_coordinatewise", "unscaling_coordinatewise", "scaling_shape", "unscaling_shape",
              "unscaling_scaling", "scaling_unscaling", "transfer_to_natural", "transfer_to_standardized",
              "start_point_zero", "patient_not_worse", "patient_optimal",
              "zero_scale_unscaling_not_injective", "zero_scale_point_unreachable", "zero_scale_transfer_counterexample",
              "scaling_wrong_length_not_refused", "unscaling_wrong_length_not_refused"],
    trusted_extra=[
        "PARTIAL: the optimiser clause (scipy_minimize never returns a worse point than its start) is monitored on the real "
        "code, not proved: scipy's Powell implementation is outside the model; what is proved (patient_not_worse) is that "
        "non-worsening of the objective handed to scipy (standardized coordinates) is non-worsening in natural coordinates",
        "scalings: python slicing clamps, torch / numpy broadcasting of 1-D operands (equal lengths or one of length 1), "
        "torch.cat([]) raises - modelled as such (bcast, slice, Err.runtime) and compared on hand-made mis-shaped inputs",
        "scalings: float32 rounding of (x - loc)/scale and float64-then-float32 rounding of loc + scale*v are not modelled: "
        "exact rationals compared through a 3u|result| resp. 2u(|loc|+|scale*v|+|result|) envelope (u = 2^-24), exactly on dyadic inputs; "
        "division by a zero scale (IEEE inf / nan, Lean x/0 = 0) is not compared",
        "torch.argmin returns the first minimum on CPU for NaN-free input (assumed; compared on every recorded chain)",
        "float32 / float64 summation order of torch.mean is not modelled: exact rational mean compared through a (K+1)*eps*max|x| envelope",
        "Lean Float32 / Float addition and comparison are IEEE single / double (used to reproduce `attachments + regularities`)",
        "finiteness of the estimates is checked on the real code only",
    ],
    assumptions=[
        "burn-in strictly shorter than the run (n_burn_in_iter < n_iter): with nothing kept torch.stack raises, the mean is undefined "
        "(theorem mean_undefined_iff), the generators stay inside",
        "scipy_minimize runs with n_jobs=1 (in-process) so that the recorder sees every optimisation",
    ],
)

CONTINUOUS = ["logistic_scalar_noise", "logistic_diag_noise", "linear_diag_noise", "linear_scalar_noise",
              "univariate_logistic", "univariate_linear", "shared_speed_logistic_diag_noise",
              "shared_speed_logistic_scalar_noise", "logistic_diag_noise_custom", "logistic_diag_noise_fast_gibbs",
              "logistic_diag_noise_mh"]
JOINT = ["joint_diagonal", "joint_scalar", "joint_no_sources", "univariate_joint"]
NEW_IDS = ["zz", "1e3", "001", "b", "a", "10", "9", "Z", "é", "x y", "0", "-1", "NA", "S_2"]


def _imports():
    warnings.filterwarnings("ignore")
    import leaspy.models  # noqa: F401  (must precede leaspy.variables)
    import numpy as np
    import pandas as pd
    import torch
    from leaspy.io.data import Data, Dataset
    from leaspy.io.outputs import IndividualParameters
    from leaspy.models import BaseModel
    from leaspy.variables.specs import IndividualLatentVariable
    from leaspy.algo.personalize import mcmc as mcmc_mod
    from leaspy.algo.personalize import scipy_minimize as scipy_mod
    return dict(np=np, pd=pd, torch=torch, Data=Data, Dataset=Dataset, IP=IndividualParameters, BaseModel=BaseModel,
                ILV=IndividualLatentVariable, mcmc_mod=mcmc_mod, scipy_mod=scipy_mod, _pools={})


# ------------------------------------------------------------------ cohorts
def pool(env, kind):
    """The 17 example subjects of the test data (continuous / joint)."""
    if kind not in env["_pools"]:
        pd = env["pd"]
        d = core.REPO / "tests/_data/data_mock"
        if kind == "joint":
            df = pd.read_csv(d / "data_tiny_joint.csv", dtype={"ID": str}, sep=";")
        elif kind == "binary":
            df = pd.read_csv(d / "binary_data.csv", dtype={"ID": str})
        else:
            df = pd.read_csv(d / "data_tiny.csv", dtype={"ID": str})
        env["_pools"][kind] = df
    return env["_pools"][kind]


def gen_cohort(env, rng, kind, n_sub):
    df = pool(env, kind)
    subjects = list(dict.fromkeys(df.ID))
    chosen = rng.sample(subjects, n_sub)
    new_ids = rng.sample(NEW_IDS, n_sub)
    spec = []
    for s, nid in zip(chosen, new_ids):
        nv = int((df.ID == s).sum())
        if rng.random() < 0.3:
            visits = [rng.randrange(nv)]
        else:
            k = rng.randrange(1, nv + 1)
            visits = sorted(rng.sample(range(nv), k))
        nans = []
        if rng.random() < 0.5:
            for v in visits:
                for f in range(4):
                    if rng.random() < 0.2:
                        nans.append([v, f])
        spec.append([s, nid, visits, nans])
    return spec


def build_data(env, kind, univariate, spec, case=None):
    """(what is handed to personalize, the Data object, identifiers in input order).  Optional keys of `case`:
    shift (years added to every age), row_shuffle (seed: rows of the table not grouped by individual), keepnan (a visit without any
    value, kept through drop_full_nan=False), data_as ("data" | "dataframe" | "dataset")."""
    case = case or {}
    data, ids, table = _build_data(env, kind, univariate, spec, case)
    how = case.get("data_as", "data")
    if how == "dataframe" and kind != "joint" and not case.get("keepnan"):
        return table, data, ids
    if how == "dataset":
        return env["Dataset"](data), data, ids
    return data, data, ids


def _build_data(env, kind, univariate, spec, case):
    np, pd = env["np"], env["pd"]
    df = pool(env, kind)
    feats = [c for c in df.columns if c.startswith("Y")]
    parts = []
    for s, nid, visits, nans in spec:
        sub = df[df.ID == s].reset_index(drop=True).iloc[visits].copy()
        sub = sub.reset_index(drop=True)
        sub[feats] = sub[feats].astype(float)
        use = feats[:1] if univariate else feats
        for v, f in nans:
            if f < len(use) and v in visits:
                sub.loc[visits.index(v), use[f]] = np.nan
        if kind == "joint" and case.get("blank") is not None and spec[case["blank"]][1] == nid:
            sub[use] = np.nan          # followed for the event only
        # keep at least one observed value per subject
        elif sub[use].isna().all().all():
            sub.loc[0, use[0]] = float(df[df.ID == s].reset_index(drop=True).iloc[visits[0]][use[0]])
        sub["ID"] = nid
        parts.append(sub)
    out = pd.concat(parts, ignore_index=True)
    if univariate:
        out = out[[c for c in out.columns if not c.startswith("Y") or c == feats[0]]]
    kw = {"data_type": "joint"} if kind == "joint" else {}
    if case.get("shift"):
        out["TIME"] = out["TIME"] + float(case["shift"])
        if "EVENT_TIME" in out.columns:
            out["EVENT_TIME"] = out["EVENT_TIME"] + float(case["shift"])
    if case.get("keepnan"):
        first = out.iloc[[0]].copy()
        first[[c for c in out.columns if c.startswith("Y")]] = np.nan
        first["TIME"] = float(out[out.ID == out.ID.iloc[0]]["TIME"].min()) - 0.5
        out = pd.concat([out, first], ignore_index=True)
        kw["drop_full_nan"] = False
    if case.get("row_shuffle") is not None:
        import random as _r
        order = list(range(len(out)))
        _r.Random(case["row_shuffle"]).shuffle(order)
        out = out.iloc[order].reset_index(drop=True)
    # input order = order of first appearance among the rows the reader keeps (it drops the visits without any value unless asked not to)
    ycols = [c for c in out.columns if c.startswith("Y")]
    keep = out if (case.get("keepnan") or kind == "joint") else out[out[ycols].notna().any(axis=1)]
    ids = list(dict.fromkeys(keep["ID"]))
    return env["Data"].from_dataframe(out, **kw), ids, out


MIXTURE = "mixture_logistic(fitted here)"


def _tmpdir(env):
    if "_tmp" not in env:
        import tempfile
        env["_tmp"] = tempfile.mkdtemp(prefix="c17_")
    return env["_tmp"]


def model_path(env, name):
    if name != MIXTURE:
        return str(core.REPO / f"tests/_data/model_parameters/from_fit/{name}.json")
    # no stored mixture model: one is calibrated here (30 iterations on the 17 example subjects) and saved
    import os
    path = os.path.join(_tmpdir(env), "mixture.json")
    if not os.path.exists(path):
        from leaspy.models import model_factory
        m = model_factory("mixture_logistic", dimension=4, source_dimension=2, n_clusters=2)
        with core.quiet():
            m.fit(env["Data"].from_dataframe(pool(env, "continuous")), "mcmc_saem", n_iter=30, seed=0, progress_bar=False)
            m.save(path)
    return path


def load_model(env, name):
    return env["BaseModel"].load(model_path(env, name))


def prep_model(env, chk, case):
    """The model object personalize is called on: freshly loaded (default), one object shared by all the cases of the run, loaded from
    a file whose dispersion / noise parameters were rescaled by hand, or calibrated a little further just before (a fit leaves the
    training individuals' values in the model state)."""
    how = case.get("model_prep", "loaded")
    name = case["model"]
    if how == "shared":
        cache = env.setdefault("_shared_models", {})
        if name not in cache:
            cache[name] = load_model(env, name)
        return cache[name]
    if how == "edited":
        import json
        import os
        d = json.load(open(model_path(env, name)))
        for k, f in case["edits"].items():
            if k in d["parameters"]:
                v = d["parameters"][k]
                d["parameters"][k] = [x * f for x in v] if isinstance(v, list) else v * f
        path = os.path.join(_tmpdir(env), "edited.json")
        json.dump(d, open(path, "w"))
        return env["BaseModel"].load(path)
    model = load_model(env, name)
    if how == "fitted":
        try:
            _, data, _ = build_data(env, case["kind"], name.startswith("univariate"), case["fit_cohort"])
            with core.quiet():
                model.fit(data, "mcmc_saem", n_iter=case.get("fit_iter", 3), seed=case["seed"] or 0, progress_bar=False)
        except Exception as e:  # noqa  (a tiny calibration that does not go through is not this property's matter)
            chk.tag("calibration_before_personalize_failed", type(e).__name__)
            model = load_model(env, name)
    return model


def expected_shapes(env, model):
    out = {}
    for n, var in model.dag.sorted_variables_by_type[env["ILV"]].items():
        out[n] = tuple(var.get_prior_shape(model.dag))
    return out


# ------------------------------------------------------------------ recorders
class ChainRecorder:
    """Call-through recorders on the real MCMC personalisation class (restored on exit)."""

    def __init__(self, env):
        self.env = env
        self.cls = env["mcmc_mod"].McmcPersonalizeAlgorithm
        self.chain = []
        self.state = None
        self.nburn = None
        self.fed = None
        self.est = None
        self.ids_dataset = None

    def __enter__(self):
        cls, rec, ILV = self.cls, self, self.env["ILV"]
        self._had = {k: cls.__dict__.get(k) for k in ("_initialize_algo", "_update_temperature")}
        orig_init = cls._initialize_algo
        orig_upd = cls._update_temperature

        def init(algo, model, dataset):
            st = orig_init(algo, model, dataset)
            # a new run starts (possibly of an algorithm object that has run before): what is recorded is the last run
            rec.chain, rec.fed, rec.est = [], None, None
            rec.state = st
            rec.nburn = algo.algo_parameters["n_burn_in_iter"]
            rec.n_iter = algo.algo_parameters["n_iter"]
            rec.ids_dataset = list(dataset.indices)
            rec.names = sorted(st.dag.sorted_variables_by_type[ILV])
            # wrap this instance's estimator to see what it is fed and what it returns
            orig_est = algo._compute_individual_parameters_from_samples_torch

            def est(values, attachments, regularities):
                rec.fed = (len(attachments), {k: tuple(v.shape) for k, v in values.items()})
                out = orig_est(values, attachments, regularities)
                rec.est = {k: v.detach().clone() for k, v in out.items()}
                return out

            algo._compute_individual_parameters_from_samples_torch = est
            return st

        def upd(algo):
            st = rec.state
            rec.chain.append(dict(k=algo.current_iteration,
                                  vals={n: st[n].detach().clone() for n in rec.names},
                                  att=st.get_tensor_value("nll_attach_ind").detach().clone(),
                                  reg=st.get_tensor_value("nll_regul_ind_sum_ind").detach().clone()))
            return orig_upd(algo)

        cls._initialize_algo = init
        cls._update_temperature = upd
        return self

    def __exit__(self, *a):
        for k, v in self._had.items():
            if v is None:
                delattr(self.cls, k)
            else:
                setattr(self.cls, k, v)


class MinimizeRecorder:
    def __init__(self, env):
        self.mod = env["scipy_mod"]
        self.calls = []

    def __enter__(self):
        self.orig = self.mod.minimize
        rec = self

        def minimize(fun, x0, args=(), **kw):
            x0c = x0.copy()
            # what the state holds for the individual variables when the optimisation starts, and the first evaluation
            # of the objective (recorded on the way through; nothing is changed)
            init, first = None, {}
            try:
                st0 = args[0]
                init = {n: st0.get_tensor_value(n)[0].detach().clone() for n in st0.dag.individual_variable_names}
            except Exception:  # noqa
                init = None

            def fun_rec(x, *a):
                val = fun(x, *a)
                if "x" not in first:
                    try:
                        first["x"], first["val"] = x.copy(), float(val)
                    except Exception:  # noqa
                        first["x"], first["val"] = None, None
                return val

            res = rec.orig(fun_rec, x0=x0, args=args, **kw)
            state, scaling = args
            rec.calls.append(dict(x0=x0c, x=res.x.copy(), fun=float(res.fun), scaling=scaling, init=init,
                                  first_x=first.get("x"), first_val=first.get("val"),
                                  method=kw.get("method"), ftol=(kw.get("options") or {}).get("ftol"),
                                  gtol=(kw.get("options") or {}).get("gtol"), success=bool(res.success)))
            return res

        self.mod.minimize = minimize
        return self

    def __exit__(self, *a):
        self.mod.minimize = self.orig


# ------------------------------------------------------------------ helpers
def f32bits(x) -> int:
    return struct.unpack("<I", struct.pack("<f", float(x)))[0]


def f64bits(x) -> int:
    return struct.unpack("<Q", struct.pack("<d", float(x)))[0]


def hx(s):
    return s.encode("utf-8").hex()


def canon_ips(ips):
    from .c16_indparams import canon_container, _imports as imp16
    return canon_container(_ENV16, ips)


_ENV16 = None


def case_json(case):
    return {k: v for k, v in case.items() if not k.startswith("_")}


def expected_burn(case):
    """Number of burn-in iterations the SETTINGS ask for (never read back from the algorithm object): an explicit count wins;
    otherwise the fraction of n_iter, rounded down.  Second component: False when the float product n_iter * frac and the exact
    product fall on different sides of an integer (either count is then accepted)."""
    b = case["burn"]
    if b[0] in ("count", "both"):
        return int(b[1]), True
    exact = int(Fraction(str(b[1])) * case["n_iter"])
    return exact, exact == int(b[1] * case["n_iter"])


def settings_kwargs(case):
    kw = dict(seed=case["seed"], progress_bar=bool(case.get("progress_bar", False)))
    if case["algo"] == "scipy_minimize":
        kw.update(use_jacobian=case["use_jacobian"], n_jobs=case.get("n_jobs", 1))
        if case.get("custom"):
            kw["custom_scipy_minimize_params"] = case["custom"]
        if case.get("custom_format"):
            kw["custom_format_convergence_issues"] = case["custom_format"]
        return kw
    kw.update(n_iter=case["n_iter"])
    if case.get("sampler_params"):
        kw["sampler_ind_params"] = dict(case["sampler_params"])
    if case["burn"][0] == "count":
        kw.update(n_burn_in_iter=case["burn"][1], n_burn_in_iter_frac=None)
    elif case["burn"][0] == "both":        # deprecated but supported: the explicit count has priority over the fraction
        kw.update(n_burn_in_iter=case["burn"][1], n_burn_in_iter_frac=case["burn"][2])
    else:
        kw.update(n_burn_in_iter_frac=case["burn"][1])
    if case["annealing"]:
        kw.update(annealing=dict(do_annealing=True, initial_temperature=case["annealing"][0], n_plateau=case["annealing"][1],
                                 n_iter=None, n_iter_frac=0.5))
    return kw


def call_personalize(env, model, given, data, case, rec=None):
    """model.personalize through the entry point the case names: keyword settings (default), the algorithm given as an
    AlgorithmName, an AlgorithmSettings object, a settings file written by AlgorithmSettings.save, or the algorithm object
    built by algorithm_factory and run on the tensor dataset."""
    from leaspy.algo import AlgorithmName, AlgorithmSettings, algorithm_factory
    entry = case.get("entry", "kwargs")
    kw = settings_kwargs(case)
    if entry == "kwargs":
        return model.personalize(given, case["algo"], **kw)
    if entry == "enum":
        return model.personalize(given, AlgorithmName(case["algo"]), **kw)
    settings = AlgorithmSettings(case["algo"], **kw)
    if entry == "settings":
        return model.personalize(given, algorithm_settings=settings)
    if entry == "path":
        import os
        path = os.path.join(_tmpdir(env), "settings.json")
        settings.save(path)
        return model.personalize(given, algorithm_settings_path=path)
    if entry == "factory":
        ds = given if isinstance(given, env["Dataset"]) else env["Dataset"](data)
        algo = algorithm_factory(settings)
        # ONE algorithm object for several cohorts in a row (next fold / next batch): the runs before the recorded one
        for prior in case.get("prior_cohorts") or []:
            _, d0, _ = build_data(env, case["kind"], case["model"].startswith("univariate"), prior, case)
            algo.run(model, env["Dataset"](d0))
        if rec is not None and hasattr(rec, "calls"):
            rec.calls.clear()
        return algo.run(model, ds)
    raise ValueError(entry)


def mixture_sampling_refusal(case, e):
    """F121 region: a mixture model personalized with a sampling-based algorithm stops on a tensor-shape error."""
    return (case["model"] == MIXTURE and case["algo"] in ("mean_posterior", "mode_posterior")
            and isinstance(e, (RuntimeError, IndexError, AssertionError))
            and any(k in str(e) for k in ("must match the size of tensor", "Dimension out of range", "Bad shapes")))


def basic_output_checks(env, chk, cj, model, ips, input_ids):
    """Clause 1: one finite estimate per input individual, keyed by the input identifiers in input order, shaped as the model expects."""
    ok = True
    if not isinstance(ips, env["IP"]):
        chk.impl_failure(cj, f"personalize returned {type(ips).__name__}")
        return False
    if ips._indices != input_ids:
        chk.impl_failure(cj, f"identifiers of the result {ips._indices} != input identifiers in input order {input_ids}")
        ok = False
    if sorted(ips._individual_parameters) != sorted(input_ids):
        chk.impl_failure(cj, "result does not hold exactly one entry per input individual")
        ok = False
    exp = expected_shapes(env, model)
    got = ips._parameters_shape or {}
    if {k: tuple(v) for k, v in got.items()} != exp and input_ids:
        chk.impl_failure(cj, f"shapes {got} != shapes the model expects {exp}")
        ok = False
    for i, d in ips._individual_parameters.items():
        for n, v in d.items():
            vs = v if isinstance(v, list) else [v]
            if not all(isinstance(x, (int, float)) and math.isfinite(x) for x in vs):
                chk.impl_failure(cj, f"non-finite estimate for id {i!r} parameter {n!r}: {v}")
                ok = False
    return ok


# ------------------------------------------------------------------ MCMC cases
def run_mcmc_case(env, chk, case, lines, pending):
    torch, np = env["torch"], env["np"]
    cj = case_json(case)
    model = prep_model(env, chk, case)
    given, data, input_ids = build_data(env, case["kind"], case["model"].startswith("univariate"), case["cohort"], case)
    try:
        with ChainRecorder(env) as rec, core.quiet():
            ips = call_personalize(env, model, given, data, case, rec)
    except Exception as e:  # noqa
        if mixture_sampling_refusal(case, e):
            env["_f121_seen"] = True
        chk.impl_failure(cj, f"personalize raised {type(e).__name__}: {e}", finding="F121" if mixture_sampling_refusal(case, e) else None)
        chk.case(("mcmc-exc", str(cj)), nontrivial=False, tags={"algo": case["algo"], "outcome": "exception"})
        return
    basic_output_checks(env, chk, cj, model, ips, input_ids)
    n_iter = case["n_iter"]
    # the burn-in length is the one the settings ask for, not the one the algorithm object reports
    nb, sure = expected_burn(case)
    if rec.nburn != nb:
        if sure or rec.nburn not in (nb, nb + 1, nb - 1):
            chk.impl_failure(cj, f"the algorithm works with n_burn_in_iter = {rec.nburn}, the settings ask for {nb} ({case['burn']}, n_iter={n_iter})")
        else:
            chk.tag("burn_in_fraction_at_a_float_boundary", 1)
            nb = rec.nburn
    chain = rec.chain
    if len(chain) != n_iter or [c["k"] for c in chain] != list(range(1, n_iter + 1)):
        chk.impl_failure(cj, f"{len(chain)} iterations recorded for n_iter={n_iter}")
        return
    K = n_iter - nb
    if rec.fed is None or rec.fed[0] != K:
        chk.impl_failure(cj, f"{None if rec.fed is None else rec.fed[0]} draws kept, the property demands n_iter - n_burn_in = {K}")
    if rec.ids_dataset != input_ids:
        chk.impl_failure(cj, f"dataset identifiers {rec.ids_dataset} != input order {input_ids}")
    n_ind = len(input_ids)
    names = rec.names
    est = rec.est or {}
    kept = chain[nb:]
    ties = 0
    # ---- property predicate, independent of the Lean model
    if case["algo"] == "mean_posterior":
        for n in names:
            stack = torch.stack([c["vals"][n] for c in kept]).double().numpy()
            want = stack.mean(axis=0)
            eps = 2.0 ** -24 if chain[0]["vals"][n].dtype == torch.float32 else 2.0 ** -53
            tol = (K + 1) * eps * (np.abs(stack).max(axis=0)) + 1e-300
            got = est.get(n)
            if got is None or tuple(got.shape) != want.shape or not bool((np.abs(got.double().numpy() - want) <= tol).all()):
                chk.impl_failure(cj, f"estimate of '{n}' is not the mean of the {K} draws kept after burn-in (n_burn_in={nb})")
    else:
        loss = torch.stack([c["att"] + 1.0 * c["reg"] for c in kept])       # (K, n_ind), the dtype torch uses
        for i in range(n_ind):
            col = loss[:, i].tolist()
            m = min(col)
            first = col.index(m)
            ties += int(col.count(m) > 1)
            for n in names:
                got = est.get(n)
                want = kept[first]["vals"][n][i]
                if got is None or not torch.equal(got[i], want):
                    in_kept = got is not None and any(torch.equal(got[i], c["vals"][n][i]) for c in kept)
                    chk.impl_failure(cj, f"individual #{i}: estimate of '{n}' is not the first lowest-loss kept draw "
                                         f"(iteration {nb + first + 1}); it is {'another kept draw' if in_kept else 'not a kept draw'}")
                    break
    # ---- what from_pytorch made of the estimates must be what personalize returned
    for n in names:
        if n in est:
            for i, idx in enumerate(input_ids):
                got = ips._individual_parameters.get(idx, {}).get(n)
                if got != est[n][i].tolist():
                    chk.impl_failure(cj, f"id {idx!r} does not carry row {i} of the estimates of '{n}'")
                    break
    # ---- model requests
    if case["algo"] == "mean_posterior":
        series, keys = [], []
        for n in names:
            dim = chain[0]["vals"][n].shape[1] if chain[0]["vals"][n].ndim > 1 else 1
            for i in range(n_ind):
                for d in range(dim):
                    series.append(",".join(fmt_rat(Fraction(float(c["vals"][n].reshape(n_ind, -1)[i, d]))) for c in chain))
                    keys.append((n, i, d))
        lines.append(f"mean nburn={nb} x={';'.join(series)}")
        pending.append(("mean", case, dict(keys=keys, est=est, K=K, chain=chain, nb=nb, n_ind=n_ind)))
    else:
        a0, r0 = chain[0]["att"], chain[0]["reg"]
        dt = torch.result_type(a0, r0)
        bits = f32bits if dt == torch.float32 else f64bits
        att = ";".join(",".join(str(bits(c["att"].to(dt)[i])) for c in chain) for i in range(n_ind))
        reg = ";".join(",".join(str(bits(c["reg"].to(dt)[i])) for c in chain) for i in range(n_ind))
        lines.append(f"mode nburn={nb} dtype={'32' if dt == torch.float32 else '64'} att={att} reg={reg}")
        pending.append(("mode", case, dict(est=est, K=K, chain=chain, nb=nb, n_ind=n_ind, names=names)))
    t = "&".join(f"x{hx(n)}~" + ";".join(":".join(fmt_rat(Fraction(float(x))) for x in est[n].reshape(n_ind, -1)[i].tolist())
                                         for i in range(n_ind)) for n in est)
    lines.append(f"align ids={','.join(hx(i) for i in rec.ids_dataset)} t={t}")
    pending.append(("align", case, dict(ips=canon_ips(ips))))
    try:
        distinct_losses = len({float(c["att"].sum() + c["reg"].sum()) for c in kept}) > 1
    except Exception:  # noqa
        distinct_losses = False
    chk.case(("mcmc", str(cj)), nontrivial=(nb >= 1 and K >= 2 and distinct_losses),
             sample=cj if len(chk.samples) < 2 else None,
             tags={"algo": case["algo"], "model": case["model"], "n_subjects": n_ind, "n_iter": n_iter if n_iter <= 30 else "31+", "n_burn": nb if nb <= 30 else "31+",
                   "kept": K if K <= 30 else "31+", "entry": case.get("entry", "kwargs"), "data_as": case.get("data_as", "data"),
                   "model_prep": case.get("model_prep", "loaded"), "burn_given_as": case["burn"][0],
                   "earlier_runs_of_the_algorithm_object": len(case.get("prior_cohorts") or []),
                   "annealing": bool(case["annealing"]), "single_visit_subjects": sum(len(s[2]) == 1 for s in case["cohort"]),
                   "missing_cells": sum(len(s[3]) for s in case["cohort"]) > 0, "outcome": "ok"})
    if ties:
        chk.tag("mode_individuals_with_tied_minimum", ties, 1)


def compare_mcmc(env, chk, pending, out):
    np = env["np"]
    for (kind, case, info), resp in zip(pending, out):
        cj = case_json(case)
        if kind == "scal":
            try:
                compare_scal(env, chk, case, info, resp)
            except Exception as e:  # noqa  (an implementation returning something unexpected is a disagreement, not a harness crash)
                chk.disagree(info.get("cj"), "?", resp, f"scalings: implementation result not comparable ({type(e).__name__}: {e})")
            continue
        if kind == "mean":
            try:
                parts = dict(p.split("=", 1) for p in resp.split(" "))
                ms = [Fraction(x) for x in parts["m"].split(",")]
                k = int(parts["kept"])
            except Exception:
                chk.disagree(cj, "?", resp, "unparsable model response (mean)")
                continue
            if k != info["K"]:
                chk.disagree(cj, info["K"], k, "number of kept draws")
            for (n, i, d), m in zip(info["keys"], ms):
                got_t = info["est"].get(n)
                if got_t is None:
                    chk.disagree(cj, None, str(m), f"no estimate for '{n}'")
                    break
                got = Fraction(float(got_t.reshape(info["n_ind"], -1)[i, d]))
                xs = [abs(float(c["vals"][n].reshape(info["n_ind"], -1)[i, d])) for c in info["chain"][info["nb"]:]]
                eps = Fraction(1, 2 ** 24) if got_t.dtype == env["torch"].float32 else Fraction(1, 2 ** 53)
                tol = (info["K"] + 1) * eps * Fraction(max(xs)) + Fraction(1, 10 ** 300)
                if abs(got - m) > tol:
                    chk.disagree(cj, float(got), float(m), f"mean of kept draws of '{n}' individual #{i} coordinate {d} (summation envelope {float(tol):.3g})")
                    break
        elif kind == "mode":
            try:
                parts = dict(p.split("=", 1) for p in resp.split(" "))
                idx = [int(x) for x in parts["idx"].split(",")]
                k = int(parts["kept"])
            except Exception:
                chk.disagree(cj, "?", resp, "unparsable model response (mode)")
                continue
            if k != info["K"]:
                chk.disagree(cj, info["K"], k, "number of kept draws")
            for i, j in enumerate(idx):
                for n in info["names"]:
                    want = info["chain"][info["nb"] + j]["vals"][n][i]
                    got = info["est"].get(n)
                    if got is None or not env["torch"].equal(got[i], want):
                        chk.disagree(cj, None if got is None else got[i].tolist(), want.tolist(),
                                     f"mode: individual #{i} '{n}': the model selects kept draw {j} (iteration {info['nb'] + j + 1})")
                        break
        else:
            if resp != info["ips"]:
                chk.disagree(cj, info["ips"], resp, "container built from (dataset.indices, estimates)")


# ------------------------------------------------------------------ optimiser cases (monitored, not modelled)
def objective(env, model, dataset_i, ips_i):
    """nll_attach + nll_regul_ind_sum for one individual, on a fresh clone of the model state."""
    torch = env["torch"]
    st = model.state.clone(disable_auto_fork=True)
    model.put_data_variables(st, dataset_i)
    for n, v in ips_i.items():
        st[n] = torch.as_tensor(v, dtype=torch.float32).reshape(1, -1)
    return float((st["nll_attach"] + 1.0 * st["nll_regul_ind_sum"]).item())


def run_scipy_case(env, chk, case, lines=None, pending=None):
    torch = env["torch"]
    cj = case_json(case)
    model = prep_model(env, chk, case)
    given, data, input_ids = build_data(env, case["kind"], case["model"].startswith("univariate"), case["cohort"], case)
    try:
        with MinimizeRecorder(env) as rec, core.quiet():
            ips = call_personalize(env, model, given, data, case, rec)
    except Exception as e:  # noqa
        chk.impl_failure(cj, f"personalize raised {type(e).__name__}: {e}")
        chk.case(("scipy-exc", str(cj)), nontrivial=False, tags={"algo": "scipy_minimize", "outcome": "exception"})
        return
    ok = basic_output_checks(env, chk, cj, model, ips, input_ids)
    improved = 0
    if len(rec.calls) != len(input_ids):
        chk.impl_failure(cj, f"{len(rec.calls)} optimisations for {len(input_ids)} individuals")
    elif ok:
        for i, (idx, call) in enumerate(zip(input_ids, rec.calls)):
            ds_i = env["Dataset"](data[[idx]], no_warning=True)
            start = {n: v.detach().reshape(-1).tolist() for n, v in call["scaling"].unscaling(torch.as_tensor(call["x0"])).items()}
            ret_point = {n: v.detach().reshape(-1).tolist() for n, v in call["scaling"].unscaling(torch.as_tensor(call["x"])).items()}
            out_i = {n: (v if isinstance(v, list) else [v]) for n, v in ips._individual_parameters[idx].items()}
            if any([float(a) for a in out_i[n]] != [float(a) for a in ret_point[n]] for n in out_i):
                chk.impl_failure(cj, f"id {idx!r}: the estimate returned is not the point the optimiser returned")
                continue
            with core.quiet():
                f_start = objective(env, model, ds_i, start)
                f_ret = objective(env, model, ds_i, out_i)
            ftol = call["ftol"] if call["ftol"] is not None else 1e-4
            if not (math.isfinite(f_start) and math.isfinite(f_ret)):
                chk.impl_failure(cj, f"id {idx!r}: non-finite objective (start {f_start}, returned {f_ret})")
            elif f_ret > f_start + ftol * (1 + abs(f_start)):
                chk.impl_failure(cj, f"id {idx!r}: objective at the returned point {f_ret!r} is worse than at the start point {f_start!r} "
                                     f"(tolerance ftol={ftol} * (1+|f|), method {call['method']})")
            improved += int(f_ret < f_start)
            chk.tag("optimiser_method", call["method"])
        if lines is not None:
            try:
                link_scipy_run(env, chk, case, model, data, input_ids, ips, rec, lines, pending)
            except Exception as e:  # noqa  (a broken implementation must surface as an observation, not as a harness crash)
                chk.impl_failure(cj, f"start point / returned estimate of the recorded run could not be related to the scalings: "
                                     f"{type(e).__name__}: {e}")
    chk.case(("scipy", str(cj)), nontrivial=improved > 0, sample=cj if len(chk.samples) < 3 else None,
             tags={"algo": "scipy_minimize", "model": case["model"], "n_subjects": len(input_ids), "entry": case.get("entry", "kwargs"),
                   "data_as": case.get("data_as", "data"), "model_prep": case.get("model_prep", "loaded"),
                   "single_visit_subjects": sum(len(s[2]) == 1 for s in case["cohort"]),
                   "missing_cells": sum(len(s[3]) for s in case["cohort"]) > 0, "outcome": "ok"})


# ------------------------------------------------------------------ prior-standardized coordinates (_AffineScalings1D)
U32 = Fraction(1, 2 ** 24)          # unit round-off of float32
TINY = Fraction(1, 2 ** 140)
SCAL_NAMES = ["tau", "xi", "sources", "é", "x y", "a", "b", "Z", "0", "tau2"]
SCAL_MODELS = CONTINUOUS + JOINT + ["shared_speed_logistic_diag_noise_no_source_arm", "logistic_binary", "shared_speed_logistic_binary",
                                    "linear_arm", "logistic_arm"]       # files tracked by git only (scratch worktrees must have them)


def fr(x) -> str:
    return fmt_rat(Fraction(float(x)))


def scal_err(e) -> str:
    if isinstance(e, KeyError):
        return "err:key"
    if isinstance(e, AssertionError):
        return "err:assert"
    if isinstance(e, (RuntimeError, ValueError)):      # torch: RuntimeError, numpy: ValueError (broadcast), torch.cat([])
        return "err:runtime"
    return f"err:other:{type(e).__name__}"


def tns_build(env, spec):
    torch = env["torch"]
    kind, val = spec
    if kind == "s":
        return torch.tensor(float(Fraction(val)), dtype=torch.float32)
    if kind == "v":
        return torch.tensor([float(Fraction(a)) for a in val], dtype=torch.float32)
    return torch.ones(tuple(val), dtype=torch.float32)


def tns_fmt(spec) -> str:
    kind, val = spec
    if kind == "s":
        return "s" + fmt_rat(Fraction(val))
    if kind == "v":
        return "v" + ":".join(fmt_rat(Fraction(a)) for a in val)
    return "h" + ":".join(str(int(a)) for a in val)


def tns_of_tensor(t):
    if t.ndim == 0:
        return ["s", fr(t)]
    if t.ndim == 1:
        return ["v", [fr(a) for a in t.tolist()]]
    return ["h", list(t.shape)]


def point_fmt(items) -> str:
    """items: list of (name, [fraction strings])"""
    if not items:
        return "_"
    return "&".join(f"x{hx(n)}~" + (":".join(fmt_rat(Fraction(a)) for a in vals) if vals else "e") for n, vals in items)


def vec_fmt(vals) -> str:
    return core.fmt_list([fmt_rat(Fraction(a)) for a in vals])


def scal_models(env, name):
    cache = env.setdefault("_scal_models", {})
    if name not in cache:
        with core.quiet():
            cache[name] = load_model(env, name)
    return cache[name]


def scal_build(env, case):
    """The REAL `_AffineScalings1D` for this case, or the canonical error of its construction.
    Returns (object | error string, spec of the raw (name, loc, scale) tensors handed over, via for the model)."""
    S, torch = env["scipy_mod"], env["torch"]
    import types
    if case["via"] == "state":
        model = scal_models(env, case["model"])
        st = model.state
        vars_ = st.dag.sorted_variables_by_type[env["ILV"]]
        # what from_state is specified to read: prior mode and prior stddev of every individual latent variable, in DAG order
        raw = [[n, tns_of_tensor(v.prior.mode.call(st)), tns_of_tensor(v.prior.stddev.call(st))] for n, v in vars_.items()]
        try:
            return S._AffineScalings1D.from_state(st, var_type=env["ILV"]), raw, "latent"
        except Exception as e:  # noqa
            return scal_err(e), raw, "latent"
    raw = case["s"]
    try:
        d = {}
        for n, l, s in raw:
            lt, stt = tns_build(env, l), tns_build(env, s)
            if case["via"] == "latent":
                var = types.SimpleNamespace(prior=types.SimpleNamespace(
                    mode=types.SimpleNamespace(call=lambda _st, _t=lt: _t), stddev=types.SimpleNamespace(call=lambda _st, _t=stt: _t)))
                d[n] = S._AffineScaling.from_latent_variable(var, None)
            else:
                d[n] = S._AffineScaling(lt, stt)
        return S._AffineScalings1D(d), raw, case["via"]
    except Exception as e:  # noqa
        return scal_err(e), raw, case["via"]


def scal_ops(env, obj, x_items, v_vals):
    """Run the four operations of the real object; every result canonicalised to ('ok', value) | ('err', class)."""
    torch, np = env["torch"], env["np"]
    out = {}

    def call(key, f):
        try:
            out[key] = ("ok", f())
        except Exception as e:  # noqa
            out[key] = ("err", scal_err(e))

    if x_items is not None:
        xd = {n: torch.tensor([float(Fraction(a)) for a in vals], dtype=torch.float32) for n, vals in x_items}
        call("stack", lambda: obj.stack(xd).tolist())
        call("scaling", lambda: obj.scaling(xd))
    if v_vals is not None:
        v64 = np.array([float(Fraction(a)) for a in v_vals], dtype=np.float64)
        call("unstack", lambda: {n: t for n, t in obj.unstack(torch.as_tensor(v64, dtype=torch.float32)).items()})
        call("unscaling", lambda: {n: t for n, t in obj.unscaling(v64).items()})
    return out


def rows_of(mapping):
    """`unstack` / `unscaling` are specified to return (1, dim) tensors: list of (name, row) or a complaint."""
    items = []
    for n, t in mapping.items():
        if t.ndim != 2 or t.shape[0] != 1:
            return None, f"value of '{n}' has shape {tuple(t.shape)}, expected (1, dim)"
        items.append((n, t[0].tolist()))
    return items, None


def np_reference(env, names, loc, scale, x_by_name=None, v=None):
    """Bit-exact numpy reference of the documented formulas on well-shaped inputs (float32 for scaling; for unscaling the
    arithmetic torch performs: in the dtype of `v` promoted with float32, rounded to float32)."""
    np = env["np"]
    out = {}
    if x_by_name is not None:
        # torch: x.float() (op) loc (op) scale, promoted to float64 when the model holds float64 parameters (after a joint fit)
        with np.errstate(all="ignore"):
            out["scaling"] = np.concatenate([((np.asarray(x_by_name[n], dtype=np.float32) - loc[n]) / scale[n])
                                             .astype(np.result_type(np.float32, loc[n].dtype, scale[n].dtype))
                                             for n in names]) if names else np.zeros(0, dtype=np.float32)
    if v is not None:
        # torch promotes float32 tensor (op) float64 array to float64, and stays in float32 for a float32 array
        # (scipy's Nelder-Mead keeps the float32 dtype of x0 for res.x, Powell returns float64)
        vv = np.asarray(v)
        off, d = 0, {}
        for n in names:
            k = len(loc[n])
            wd = np.result_type(np.float32 if vv.dtype == np.float32 else np.float64, loc[n].dtype, scale[n].dtype)
            d[n] = (loc[n].astype(wd) + scale[n].astype(wd) * vv[off:off + k].astype(wd)).astype(np.float32)
            off += k
        out["unscaling"] = d
    return out


def scal_request(via, raw, x_items, v_vals) -> str:
    s = "&".join(f"x{hx(n)}~{tns_fmt(l)}~{tns_fmt(sc)}" for n, l, sc in raw) or "_"
    line = f"scal via={via} s={s}"
    if x_items is not None:
        line += f" x={point_fmt(x_items)}"
    if v_vals is not None:
        line += f" v={vec_fmt(v_vals)}"
    return line


def run_scal_case(env, chk, case, lines, pending):
    np, torch = env["np"], env["torch"]
    cj = case_json(case)
    x_items = None if case.get("x") is None else [(n, list(vals)) for n, vals in case["x"]]
    v_vals = case.get("v")
    obj, raw, via = scal_build(env, case)
    info = dict(cj=cj, built=obj if isinstance(obj, str) else "ok", exact=bool(case.get("exact")), ops={}, raw=raw,
                compare=("len", "slices", "stack", "scaling", "unstack", "unscaling"))
    well_x = right_v = nonzero = False
    if case["via"] != "state":
        # what the constructor is specified to accept: per variable a 1-D loc and a 1-D scale of the same length
        # (from_latent_variable first turns a 0-d tensor into a 1-element vector)
        def _len1d(spec):
            if spec[0] == "s":
                return 1 if case["via"] == "latent" else None
            return len(spec[1]) if spec[0] == "v" else None
        refuse = any(_len1d(l) is None or _len1d(sc) is None or _len1d(l) != _len1d(sc) for _, l, sc in raw)
        if refuse and not isinstance(obj, str):
            chk.impl_failure(cj, "scalings accepted although a variable's loc / scale are not 1-D tensors of the same length")
        elif not refuse and isinstance(obj, str):
            chk.impl_failure(cj, f"construction of valid scalings raised ({obj})")
    if not isinstance(obj, str):
        names = list(obj.scalings)
        loc = {n: obj.scalings[n].loc.detach().numpy().astype(np.float32) for n in names}
        scale = {n: obj.scalings[n].scale.detach().numpy().astype(np.float32) for n in names}
        dims = [len(loc[n]) for n in names]
        info.update(names=names, loc=loc, scale=scale)
        # ---- predicates on the implementation (independent of the Lean model)
        try:
            n_len = len(obj)
            sl = [(n, obj.slices[n].start, obj.slices[n].stop, obj.slices[n].step) for n in obj.slices]
        except Exception as e:  # noqa
            chk.impl_failure(cj, f"len / slices of the scalings raised {type(e).__name__}")
            n_len, sl = None, []
        info["len"], info["slices"] = n_len, [(n, a, b) for n, a, b, _ in sl]
        cum = [0]
        for d in dims:
            cum.append(cum[-1] + d)
        if n_len != cum[-1]:
            chk.impl_failure(cj, f"len(scalings) = {n_len}, sum of the variables' dimensions = {cum[-1]}")
        if [(n, a, b, st) for n, a, b, st in sl] != [(n, cum[i], cum[i + 1], None) for i, n in enumerate(names)]:
            chk.impl_failure(cj, f"slices {sl} do not partition [0, {cum[-1]}) in the order of the variables with widths {dims}")
        if case["via"] == "state":
            st = scal_models(env, case["model"]).state
            if names != list(st.dag.sorted_variables_by_type[env["ILV"]]):
                chk.impl_failure(cj, f"variables of from_state {names} are not the individual latent variables in DAG order")
            for n, var in st.dag.sorted_variables_by_type[env["ILV"]].items():
                pn = getattr(var.prior, "parameters_names", ())
                shape = tuple(var.get_prior_shape(st.dag))
                if len(pn) == 2 and n in loc:   # normal prior: mode = its mean parameter, stddev = its std parameter
                    m = torch.broadcast_to(st[pn[0]], shape).numpy().astype(np.float32)
                    s = torch.broadcast_to(st[pn[1]], shape).numpy().astype(np.float32)
                    if not (np.array_equal(loc[n], m) and np.array_equal(scale[n], s)):
                        chk.impl_failure(cj, f"from_state: loc / scale of '{n}' are not the prior mode {m.tolist()} / stddev {s.tolist()}")
        ops = scal_ops(env, obj, x_items, v_vals)
        info["ops"] = ops
        nonzero = all(bool((scale[n] != 0).all()) for n in names) and bool(names)
        xd = dict(x_items) if x_items is not None else None
        well_x = xd is not None and all(n in xd and len(xd[n]) == len(loc[n]) for n in names) and bool(names)
        right_v = v_vals is not None and len(v_vals) == cum[-1] and bool(names)
        eps = float(U32)
        if well_x:
            ref = np_reference(env, names, loc, scale, x_by_name={n: [float(Fraction(a)) for a in xd[n]] for n in names})
            got = ops["scaling"]
            x_flat = np.concatenate([np.asarray([float(Fraction(a)) for a in xd[n]], dtype=np.float32) for n in names])
            if ops["stack"][0] != "ok" or list(ops["stack"][1]) != x_flat.tolist():
                chk.impl_failure(cj, f"stack of a well-shaped mapping is not the concatenation of its values: {ops['stack']}")
            if got[0] != "ok":
                chk.impl_failure(cj, f"scaling of a well-shaped mapping raised {got[1]}")
            elif not (isinstance(got[1], np.ndarray) and got[1].shape == ref["scaling"].shape and
                      np.array_equal(got[1], ref["scaling"], equal_nan=True)):
                chk.impl_failure(cj, f"scaling(x) = {np.asarray(got[1]).tolist()} is not (x - loc)/scale = {ref['scaling'].tolist()} per coordinate")
            elif nonzero:
                # round trips
                try:
                    back, why = rows_of(obj.unscaling(got[1].astype(np.float64)))
                    un, why2 = rows_of(obj.unstack(obj.stack({n: torch.tensor([float(Fraction(a)) for a in xd[n]]) for n in names})))
                except Exception as e:  # noqa
                    back, why, un, why2 = None, f"raised {type(e).__name__}", None, ""
                if back is None or un is None:
                    chk.impl_failure(cj, f"round trip on a well-shaped mapping: {why or why2}")
                else:
                    if [(n, r) for n, r in un] != [(n, x_flat[cum[i]:cum[i + 1]].tolist()) for i, n in enumerate(names)]:
                        chk.impl_failure(cj, "unstack(stack(x)) != x for a well-shaped mapping")
                    for i, (n, r) in enumerate(back):
                        xs = x_flat[cum[i]:cum[i + 1]].astype(np.float64)
                        tol = 0.0 if case.get("exact") else 4 * eps * (np.abs(xs) + np.abs(loc[n].astype(np.float64)))
                        if n != names[i] or len(r) != len(xs) or not bool((np.abs(np.asarray(r, dtype=np.float64) - xs) <= tol).all()):
                            chk.impl_failure(cj, f"unscaling(scaling(x)) != x for variable '{n}': {r} vs {xs.tolist()}")
                            break
        if right_v:
            v64 = np.array([float(Fraction(a)) for a in v_vals], dtype=np.float64)
            ref = np_reference(env, names, loc, scale, v=v64)
            got = ops["unscaling"]
            rows, why = rows_of(got[1]) if got[0] == "ok" else (None, f"raised {got[1]}")
            if rows is None:
                chk.impl_failure(cj, f"unscaling of a vector of the right length: {why}")
            elif [n for n, _ in rows] != names or any(r != ref["unscaling"][n].tolist() for n, r in rows):
                chk.impl_failure(cj, f"unscaling(v) = {rows} is not loc + scale*v per coordinate, split by the slices: "
                                     f"{[(n, ref['unscaling'][n].tolist()) for n in names]}")
            elif nonzero:
                try:
                    again = obj.scaling({n: torch.tensor(r, dtype=torch.float32) for n, r in rows})
                    st_un = obj.stack({n: t[0] for n, t in obj.unstack(torch.as_tensor(v64, dtype=torch.float32)).items()}).tolist()
                except Exception as e:  # noqa
                    again, st_un = None, None
                    chk.impl_failure(cj, f"scaling(unscaling(v)) raised {type(e).__name__}")
                if again is not None:
                    if st_un != v64.astype(np.float32).tolist():
                        chk.impl_failure(cj, "stack(unstack(v)) != v for a vector of the right length")
                    lflat = np.concatenate([loc[n] for n in names]).astype(np.float64)
                    sflat = np.concatenate([scale[n] for n in names]).astype(np.float64)
                    tol = 0.0 if case.get("exact") else 4 * eps * ((np.abs(lflat) + np.abs(sflat * v64)) / np.abs(sflat) + np.abs(v64))
                    if again.shape != v64.shape or not bool((np.abs(again.astype(np.float64) - v64) <= tol).all()):
                        chk.impl_failure(cj, f"scaling(unscaling(v)) != v: {again.tolist()} vs {v64.tolist()}")
        if nonzero:
            # the start point is 0 when the initial values are the prior modes
            try:
                z = obj.scaling({n: obj.scalings[n].loc.clone() for n in names})
                if not (z.shape == (cum[-1],) and bool((z == 0).all())):
                    chk.impl_failure(cj, f"scaling(prior modes) = {z.tolist()} is not the zero vector")
            except Exception as e:  # noqa
                chk.impl_failure(cj, f"scaling(prior modes) raised {type(e).__name__}")
        info["zero_scale"] = any(bool((scale[n] == 0).any()) for n in names)
    lines.append(scal_request(via, raw, x_items, v_vals))
    pending.append(("scal", case, info))
    chk.case(("scal", str(cj)), nontrivial=(not isinstance(obj, str)) and len(raw) >= 2 and (well_x or right_v),
             sample=cj if chk.hist.get("scalings_kind", {}).get(case["sub"], 0) < 1 else None,
             tags={"algo": "scalings", "scalings_kind": case["sub"], "scalings_via": case["via"],
                   "scalings_construction": "ok" if not isinstance(obj, str) else obj,
                   "scalings_n_variables": len(raw), "scalings_x": "none" if x_items is None else ("well-shaped" if well_x else "other"),
                   "scalings_v": "none" if v_vals is None else ("right-length" if right_v else "other"),
                   "scalings_zero_scale": bool(info.get("zero_scale")) and not isinstance(obj, str)})


def parse_point(s):
    if s == "_":
        return []
    out = []
    for part in s.split("&"):
        k, vals = part.split("~")
        out.append((bytes.fromhex(k[1:]).decode("utf-8"), [] if vals == "e" else [Fraction(a) for a in vals.split(":")]))
    return out


def compare_scal(env, chk, case, info, resp):
    """Implementation vs Lean model for one scalings case (exact on dyadic inputs, float32 envelope otherwise)."""
    np = env["np"]
    cj = info["cj"]
    if resp.startswith("err:") or info["built"] != "ok":
        if resp != info["built"]:
            chk.disagree(cj, info["built"], resp, "construction of _AffineScalings1D")
        return
    try:
        parts = dict(p.split("=", 1) for p in resp.split(" "))
        m_len = int(parts["len"])
        m_slices = [] if parts["slices"] == "_" else [(bytes.fromhex(a.split(":")[0][1:]).decode("utf-8"), int(a.split(":")[1]), int(a.split(":")[2]))
                                                       for a in parts["slices"].split(",")]
    except Exception:  # noqa
        chk.disagree(cj, "?", resp, "unparsable model response (scal)")
        return
    cmp_ = info["compare"]
    if "len" in cmp_ and info.get("len") != m_len:
        chk.disagree(cj, info.get("len"), m_len, "len(scalings)")
    if "slices" in cmp_ and info.get("slices") != m_slices:
        chk.disagree(cj, info.get("slices"), m_slices, "slices")
    names, loc, scale = info["names"], info["loc"], info["scale"]
    lflat = [Fraction(float(a)) for n in names for a in loc[n]]
    sflat = [Fraction(float(a)) for n in names for a in scale[n]]
    exact = info["exact"]
    for key in ("stack", "scaling", "unstack", "unscaling"):
        if key not in cmp_ or key not in info["ops"]:
            continue
        status, val = info["ops"][key]
        mval = parts.get(key, "?")
        if key == "scaling" and info.get("zero_scale"):
            chk.tag("scaling_with_zero_scale_not_compared", 1)     # IEEE inf / nan vs Lean's x/0 = 0
            continue
        if status == "err" or mval.startswith("err:"):
            impl_s = val if status == "err" else "a value"
            if impl_s != mval:
                chk.disagree(cj, impl_s, mval, f"{key}: what is raised")
            continue
        try:
            if key in ("stack", "scaling"):
                got = [Fraction(float(a)) for a in list(val)]
                want = [] if mval == "_" else [Fraction(a) for a in mval.split(",")]
                if len(got) != len(want):
                    chk.disagree(cj, [float(a) for a in got], mval, f"{key}: length")
                    continue
                for i, (g, w) in enumerate(zip(got, want)):
                    tol = 0 if (exact or key == "stack") else 3 * U32 * abs(w) + TINY
                    if abs(g - w) > tol:
                        chk.disagree(cj, float(g), float(w), f"{key}: coordinate {i} (envelope {float(tol):.3g})")
                        break
            else:
                rows, why = rows_of(val)
                if rows is None:
                    chk.disagree(cj, why, mval, f"{key}: shape of the returned tensors")
                    continue
                want = parse_point(mval)
                if [n for n, _ in rows] != [n for n, _ in want] or [len(r) for _, r in rows] != [len(r) for _, r in want]:
                    chk.disagree(cj, [(n, r) for n, r in rows], mval, f"{key}: names / dimensions")
                    continue
                bad = False
                for (n, r), (_, w) in zip(rows, want):
                    for j, (g, wv) in enumerate(zip(r, w)):
                        g = Fraction(float(g))
                        if exact or key == "unstack":
                            tol = 0
                        else:
                            # coordinate-wise bound valid whatever piece broadcast: 2u(|loc|max + |scale*v|max + |result|)
                            lm = max([abs(a) for a in lflat] + [0])
                            vm = max([abs(Fraction(a)) for a in (case.get("v") or info.get("v_used") or ["0"])] + [0])
                            sm = max([abs(a) for a in sflat] + [0])
                            tol = 2 * U32 * (lm + sm * vm + abs(wv)) + TINY
                        if abs(g - wv) > tol:
                            chk.disagree(cj, float(g), float(wv), f"{key}: variable '{n}' coordinate {j} (envelope {float(tol):.3g})")
                            bad = True
                            break
                    if bad:
                        break
        except Exception as e:  # noqa
            chk.disagree(cj, str(val)[:200], mval, f"{key}: uncomparable ({type(e).__name__})")


def link_scipy_run(env, chk, case, model, data, input_ids, ips, rec, lines, pending):
    """On a recorded real scipy_minimize run: the point handed to scipy is scaling(initial values), the estimate returned is
    unscaling(res.x), the objective scipy sees at x0 is the loss at the initial values — against a bit-exact numpy reference
    (independent of `_AffineScalings1D`'s own methods) and against the Lean model."""
    np, torch = env["np"], env["torch"]
    cj = case_json(case)
    st = model.state
    for i, (idx, call) in enumerate(zip(input_ids, rec.calls)):
        sc = call["scaling"]
        try:
            names = list(sc.scalings)
            loc = {n: sc.scalings[n].loc.detach().numpy() for n in names}          # in the dtype the model holds (float64 after a joint fit)
            scale = {n: sc.scalings[n].scale.detach().numpy() for n in names}
        except Exception as e:  # noqa
            chk.impl_failure(cj, f"id {idx!r}: the scalings handed to the optimiser are unreadable ({type(e).__name__})")
            continue
        # the coordinates are the prior-standardized ones of this model
        for n, var in st.dag.sorted_variables_by_type[env["ILV"]].items():
            pn = getattr(var.prior, "parameters_names", ())
            shape = tuple(var.get_prior_shape(st.dag))
            if len(pn) == 2:
                m = torch.broadcast_to(st[pn[0]], shape).numpy()
                s = torch.broadcast_to(st[pn[1]], shape).numpy()
                if n not in loc or not (np.array_equal(loc[n], m) and np.array_equal(scale[n], s)):
                    chk.impl_failure(cj, f"id {idx!r}: coordinates of '{n}' are not standardized by the prior mode {m.tolist()} / stddev {s.tolist()}")
        init = call.get("init")
        if init is None or sorted(init) != sorted(names):
            chk.impl_failure(cj, f"id {idx!r}: initial values {None if init is None else sorted(init)} do not cover the variables {names}")
            continue
        x_by = {n: init[n].reshape(-1).numpy().astype(np.float32) for n in names}
        if any(len(x_by[n]) != len(loc[n]) for n in names):
            chk.impl_failure(cj, f"id {idx!r}: initial values are not shaped as the variables")
            continue
        ref = np_reference(env, names, loc, scale, x_by_name=x_by, v=np.asarray(call["x"]))
        x0 = np.asarray(call["x0"])
        if x0.shape != ref["scaling"].shape or not np.array_equal(x0.astype(np.float64), ref["scaling"].astype(np.float64)):
            chk.impl_failure(cj, f"id {idx!r}: the start point handed to the optimiser {x0.tolist()} is not (initial values - prior mode) / "
                                 f"prior stddev = {ref['scaling'].tolist()}")
        out_i = {n: (v if isinstance(v, list) else [v]) for n, v in ips._individual_parameters[idx].items()}
        want_ret = {n: ref["unscaling"][n].tolist() for n in names}
        if sorted(out_i) != sorted(names) or any([float(a) for a in out_i[n]] != want_ret[n] for n in names):
            chk.impl_failure(cj, f"id {idx!r}: the estimate returned {out_i} is not prior mode + prior stddev * (optimiser's point) = {want_ret}")
        # the objective scipy saw first
        fx, fv = call.get("first_x"), call.get("first_val")
        if fx is not None and fv is not None and np.array_equal(np.asarray(fx, dtype=np.float64), x0.astype(np.float64)):
            ds_i = env["Dataset"](data[[idx]], no_warning=True)
            start_ref = np_reference(env, names, loc, scale, v=np.asarray(fx))["unscaling"]
            with core.quiet():
                f_ref = objective(env, model, ds_i, {n: start_ref[n].tolist() for n in names})
            if not (math.isfinite(f_ref) and abs(f_ref - fv) <= 1e-4 * (1 + abs(f_ref))):
                chk.impl_failure(cj, f"id {idx!r}: the objective the optimiser is handed at x0 ({fv!r}) is not the loss at the un-standardized "
                                     f"point ({f_ref!r})")
            chk.tag("objective_at_x0_checked", 1)
        else:
            chk.tag("first_evaluation_not_at_x0", 1)
        # ---- the same run through the Lean model
        raw = [[n, ["v", [fr(a) for a in loc[n]]], ["v", [fr(a) for a in scale[n]]]] for n in names]
        x_items = [(n, [fr(a) for a in x_by[n]]) for n in names]
        v_vals = [fr(a) for a in np.asarray(call["x"], dtype=np.float64)]
        try:
            sl = [(n, sc.slices[n].start, sc.slices[n].stop) for n in sc.slices]
            n_len = len(sc)
        except Exception:  # noqa
            sl, n_len = None, None
        info = dict(cj=dict(cj, individual=idx), built="ok", exact=False, raw=raw, names=names, loc=loc, scale=scale,
                    len=n_len, slices=sl, zero_scale=False, v_used=v_vals,
                    ops={"scaling": ("ok", x0), "unscaling": ("ok", {n: torch.tensor([out_i.get(n, [])], dtype=torch.float32) for n in names})},
                    compare=("len", "slices", "scaling", "unscaling"))
        lines.append(scal_request("direct", raw, x_items, v_vals))
        pending.append(("scal", case, info))
        chk.tag("scipy_runs_linked_to_the_scalings_model", 1)


def gen_scal_case(env, rng, sub):
    """One scalings case.  Numbers are dyadic (loc n/8, scale ±2^k, x m/8, v j/16): every float32 operation is exact."""
    if sub == "state":
        name = rng.choice(SCAL_MODELS)
        model = scal_models(env, name)
        st = model.state
        import numpy as np
        vars_ = st.dag.sorted_variables_by_type[env["ILV"]]
        x, tot = [], 0
        kind = rng.choice(["near", "near", "modes", "far"])
        for n, v in vars_.items():
            m = v.prior.mode.call(st).reshape(-1).tolist()
            s = v.prior.stddev.call(st).reshape(-1).tolist()
            if kind == "modes":
                vals = [np.float32(a) for a in m]
            else:
                w = 2.0 if kind == "near" else 30.0
                vals = [np.float32(a + b * rng.gauss(0, w)) for a, b in zip(m, s)]
            x.append([n, [fr(a) for a in vals]])
            tot += len(m)
        order = list(range(len(x)))
        rng.shuffle(order)
        v = [fr(np.float32(rng.gauss(0, 2.0))) for _ in range(tot)]
        return dict(algo="scalings", sub="state", via="state", model=name, x=[x[i] for i in order], v=v, exact=False)
    nvar = rng.choice([1, 2, 2, 3, 3, 4]) if rng.random() > 0.04 else 0
    names = rng.sample(SCAL_NAMES, nvar)
    s = []
    for n in names:
        d = rng.choice([1, 1, 1, 2, 2, 3]) if rng.random() > 0.04 else 0
        loc = [fmt_rat(Fraction(rng.randrange(-800, 801), 8)) for _ in range(d)]
        scale = [fmt_rat(Fraction(rng.choice([-1, 1, 1, 1]) * 2 ** rng.randrange(0, 7), 8)) for _ in range(d)]
        s.append([n, ["v", loc], ["v", scale]])
    via = rng.choice(["direct", "direct", "latent"])
    r = rng.random()
    if s and r < 0.07:      # a degenerate prior: one zero scale
        i = rng.randrange(len(s))
        if s[i][2][1]:
            s[i][2][1][rng.randrange(len(s[i][2][1]))] = "0"
    elif s and r < 0.30:    # tensors the constructor must reshape (0-d through from_latent_variable) or refuse
        i = rng.randrange(len(s))
        via = rng.choice(["direct", "latent"])
        how = rng.choice(["both0d", "both0d", "loc0d", "scale0d", "len", "2d", "2d", "2dboth"])
        one = lambda: fmt_rat(Fraction(rng.randrange(-80, 81), 8))  # noqa
        pw = lambda: fmt_rat(Fraction(2 ** rng.randrange(0, 7), 8))  # noqa
        if how == "both0d":
            s[i][1], s[i][2] = ["s", one()], ["s", pw()]
        elif how == "loc0d":
            s[i][1] = ["s", one()]
        elif how == "scale0d":
            s[i][2] = ["s", pw()]
        elif how == "len":
            s[i][2] = ["v", s[i][2][1] + [pw()]]
        elif how == "2d":
            s[i][1] = ["h", [1, max(1, len(s[i][1][1]))]]
        else:
            s[i][1] = s[i][2] = ["h", [1, rng.choice([1, 2])]]
    dims = []
    for n, l, sc in s:   # the dimension the variable has if the construction succeeds
        dims.append(1 if l[0] == "s" else (len(l[1]) if l[0] == "v" else 1))
    val = lambda: fmt_rat(Fraction(rng.randrange(-800, 801), 8))  # noqa
    r = rng.random()
    if r < 0.1:
        x = [[n, list(l[1])] if l[0] == "v" else [n, [val()]] for n, l, _ in s]
    elif r < 0.6:
        x = [[n, [val() for _ in range(d)]] for n, d in zip(names, dims)]
    elif r < 0.88:
        x = [[n, [val() for _ in range(d)]] for n, d in zip(names, dims)]
        if x:
            i = rng.randrange(len(x))
            how = rng.choice(["drop", "longer", "longer2", "shorter", "empty", "one"])
            if how == "drop":
                x.pop(i)
            elif how == "longer":
                x[i][1] = x[i][1] + [val()]
            elif how == "longer2":
                x[i][1] = x[i][1] + [val(), val()]
            elif how == "shorter":
                x[i][1] = x[i][1][:-1]
            elif how == "empty":
                x[i][1] = []
            else:
                x[i][1] = [val()]
    else:
        x = None
    if x is not None:
        rng.shuffle(x)
        if rng.random() < 0.2:
            x.insert(rng.randrange(len(x) + 1), ["extra", [val()]])
    tot = sum(dims)
    vv = lambda: fmt_rat(Fraction(rng.randrange(-64, 65), 16))  # noqa
    r = rng.random()
    if r < 0.6:
        v = [vv() for _ in range(tot)]
    elif r < 0.88:
        k = max(0, tot + rng.choice([-2, -1, -1, 1, 1, 2, 3]))
        v = [vv() for _ in range(rng.choice([k, k, 0, 1]))]
    else:
        v = None
    return dict(algo="scalings", sub="hand", via=via, s=s, x=x, v=v, exact=True)


# ------------------------------------------------------------------ generation
def gen_case(env, rng, algo, model_name):
    kind = "joint" if "joint" in model_name else ("binary" if "binary" in model_name else "continuous")
    n_sub = rng.choice([1, 1, 2, 3, 4, 5, 6, 8]) if algo != "scipy_minimize" else rng.choice([1, 2, 3])
    for _ in range(20):
        cohort = gen_cohort(env, rng, kind, n_sub)
        try:   # the data layer refuses some cohorts (e.g. a joint cohort without any observed event): not this property's concern
            with core.quiet():
                build_data(env, kind, model_name.startswith("univariate"), cohort)
            break
        except Exception:  # noqa
            continue
    case = dict(algo=algo, model=model_name, kind=kind, cohort=cohort, seed=rng.randrange(10 ** 6))
    if algo == "scipy_minimize":
        case["use_jacobian"] = rng.random() < 0.3
        # optimiser settings that stop before convergence (a few iterations only): the returned point is then not a minimum,
        # but it must still be the optimiser's point and not be worse than the start
        case["custom"] = rng.choice([None, None, {"method": "Powell", "options": {"maxiter": 1}},
                                     {"method": "Nelder-Mead", "options": {"maxiter": 3}},
                                     {"method": "Powell", "options": {"maxiter": 2, "xtol": 1e-2, "ftol": 1e-2}}])
        if case["custom"]:
            case["use_jacobian"] = False
        if kind == "joint" and len(cohort) >= 2 and rng.random() < 0.6:
            # a subject followed for the event only: visits but no measured value at all (the joint reader keeps those rows); its
            # optimum is driven by the event term, not by the prior alone
            case["blank"] = rng.randrange(len(cohort))
        return case
    n_iter = rng.choice([1, 2, 3, 5, 8, 12, 20, 30])
    case["n_iter"] = n_iter
    if rng.random() < 0.6:
        case["burn"] = ["count", rng.randrange(0, n_iter)]
    else:
        fr = rng.choice([0.0, 0.1, 0.25, 0.5, 0.75, 0.9])
        case["burn"] = ["frac", fr]
    plateau = rng.choice([2, 3])
    case["annealing"] = [rng.choice([2.0, 5.0, 10.0]), plateau] if (rng.random() < 0.4 and int(0.5 * n_iter) >= plateau - 1) else None
    return case


FRACS = [0.0, 0.05, 0.1, 0.2, 0.25, 0.3, 0.3333, 0.5, 0.6, 0.75, 0.9, 0.95, 0.99]
CUSTOM_SCIPY = [None, None, {"method": "Powell", "options": {"maxiter": 1}}, {"method": "Nelder-Mead", "options": {"maxiter": 3}},
                {"method": "Powell", "options": {"maxiter": 2, "xtol": 1e-2, "ftol": 1e-2}},
                {"method": "Powell", "options": {"maxfev": 7}}, {"method": "Nelder-Mead"}, {"method": "L-BFGS-B"},
                {"method": "BFGS", "options": {"gtol": 1e-2, "maxiter": 4}}, {"method": "Powell", "options": {"xtol": 1e-6, "ftol": 1e-7, "maxiter": 50}}]


def gen_wide_case(env, rng, algo, model_name):
    """A case of `gen_case` handed over / configured in the other ways the API accepts (see build_data, prep_model, call_personalize,
    settings_kwargs): table rows not grouped by individual, another time scale, a visit without any value, DataFrame / Dataset input,
    every entry point (one algorithm object run on other cohorts first), a shared / re-calibrated / hand-rescaled model object, seed 0 / None, progress bar, sampler tuning, longer
    chains, burn-in given as a count, a fraction or both."""
    case = gen_case(env, rng, algo, model_name)
    kind = case["kind"]
    r = rng.random
    if r() < 0.12 and algo != "scipy_minimize":          # the whole example cohort
        df = pool(env, kind)
        subjects = list(dict.fromkeys(df.ID))
        case["cohort"] = [[sub, f"s{j:02d}" if j % 2 else f"S{99 - j}", list(range(int((df.ID == sub).sum()))), []] for j, sub in enumerate(subjects)]
    if r() < 0.5:
        case["row_shuffle"] = rng.randrange(10 ** 6)
    if r() < 0.3 and kind != "binary":
        case["shift"] = rng.choice([-10.0, 10.0] if kind == "joint" else [-30.0, -10.0, 10.0, 30.0, 200.0])
    if r() < 0.2:
        case["keepnan"] = True
    case["data_as"] = rng.choice(["data", "data", "dataframe", "dataset"])
    case["entry"] = rng.choice(["kwargs", "enum", "settings", "path", "factory", "factory"])
    if case["entry"] == "factory" and r() < 0.75:
        n = len(case["cohort"])
        prior = [(gen_cohort(env, rng, kind, n) if n <= 8 else list(reversed(case["cohort"]))) if r() < 0.6
                 else gen_cohort(env, rng, kind, rng.choice([1, 2, 3, 5])) for _ in range(rng.choice([1, 1, 2]))]
        ok = []
        for co in prior:       # (the data layer refuses some cohorts, e.g. a joint cohort without any observed event: left out)
            try:
                with core.quiet():
                    build_data(env, kind, model_name.startswith("univariate"), co)
                ok.append(co)
            except Exception:  # noqa
                pass
        case["prior_cohorts"] = ok
    preps = ["loaded", "shared", "shared", "edited", "fitted"] + (["edited", "edited"] if algo == "scipy_minimize" else [])
    case["model_prep"] = rng.choice(preps) if model_name != MIXTURE else rng.choice(["loaded", "shared"])
    if case["model_prep"] == "edited":
        # prior dispersions / noise levels rescaled by hand, over the range the documentation allows (any positive number)
        case["edits"] = {k: f for k, f in (("tau_std", rng.choice([0.05, 0.2, 5.0, 20.0])), ("xi_std", rng.choice([0.05, 0.2, 3.0, 10.0])),
                                           ("noise_std", rng.choice([0.1, 0.3, 3.0, 10.0]))) if r() < 0.6} or {"xi_std": rng.choice([0.05, 3.0])}
    if case["model_prep"] == "fitted":
        case["fit_cohort"] = gen_cohort(env, rng, kind, rng.choice([4, 5, 6]))
        case["fit_iter"] = rng.choice([1, 3])
    case["seed"] = rng.choice([case["seed"], case["seed"], 0, None])
    case["progress_bar"] = r() < 0.15
    if algo == "scipy_minimize":
        case["custom"] = rng.choice(CUSTOM_SCIPY)
        case["use_jacobian"] = False if case["custom"] else r() < 0.5
        if r() < 0.25:
            case["custom_format"] = "<{patient_id}>"
        return case
    small = len(case["cohort"]) <= 3
    n_iter = rng.choice([1, 2, 3, 7, 10, 20, 40] + ([60, 130] if small else []))
    case["n_iter"] = n_iter
    for _ in range(50):
        how = rng.choice(["count", "frac", "frac", "both"])
        if how == "count":
            case["burn"] = ["count", rng.choice([0, 0, n_iter - 1, rng.randrange(0, n_iter)])]
        elif how == "both":
            case["burn"] = ["both", rng.randrange(0, n_iter), rng.choice(FRACS)]
        else:
            case["burn"] = ["frac", rng.choice(FRACS)]
        if expected_burn(case)[1]:
            break
    if r() < 0.3:
        case["sampler_params"] = {"acceptation_history_length": rng.choice([1, 2, 5]), "mean_acceptation_rate_target_bounds": [0.2, 0.4],
                                  "adaptive_std_factor": rng.choice([0.1, 0.5])}
    plateau = rng.choice([2, 3])
    case["annealing"] = [rng.choice([2.0, 5.0, 10.0]), plateau] if (r() < 0.4 and int(0.5 * n_iter) >= plateau - 1) else None
    return case


def pooled_part(env, chk, rng):
    """scipy_minimize with n_jobs=2 (worker processes; the recorder cannot see them): clause 1 on the result, and the very estimates
    of the in-process run of the same case."""
    case = gen_case(env, rng, "scipy_minimize", rng.choice(["logistic_diag_noise", "linear_scalar_noise", "univariate_logistic"]))
    case["cohort"] = gen_cohort(env, rng, case["kind"], 4)
    case.update(custom=None, use_jacobian=False, n_jobs=2)
    run_pooled(env, chk, case)


def run_pooled(env, chk, case):
    cj = case_json(case)
    try:
        outs = []
        for nj in (1, 2):
            model = load_model(env, case["model"])
            given, data, input_ids = build_data(env, case["kind"], case["model"].startswith("univariate"), case["cohort"], case)
            with core.quiet():
                outs.append(call_personalize(env, model, given, data, dict(case, n_jobs=nj)))
    except Exception as e:  # noqa
        chk.impl_failure(cj, f"personalize raised {type(e).__name__}: {e}")
        return
    basic_output_checks(env, chk, cj, model, outs[1], input_ids)
    if outs[1]._indices != outs[0]._indices or outs[1]._individual_parameters != outs[0]._individual_parameters:
        chk.impl_failure(cj, "n_jobs=2 does not return the estimates of the in-process run (same data, same seed): "
                             f"{outs[1]._individual_parameters} vs {outs[0]._individual_parameters}")
    chk.case(("pooled", str(cj)), nontrivial=True, tags={"algo": "scipy_minimize", "part": "n_jobs=2"})


def idtype_part(env, chk, rng):
    """Identifiers that are not strings (the result container only knows string identifiers): refused, or returned as they were given -
    never silently replaced by other keys."""
    df = pool(env, "continuous")
    subjects = rng.sample(list(dict.fromkeys(df.ID)), 3)
    for algo in ("mean_posterior", "scipy_minimize"):
        run_idtype(env, chk, {"kind": "integer-identifiers", "algo": algo, "subjects": subjects})


def run_idtype(env, chk, cj):
    df = pool(env, "continuous")
    subjects = cj["subjects"]
    sub = df[df.ID.isin(subjects)].copy()
    ints = {sid: 7 * j + 3 for j, sid in enumerate(subjects)}
    sub["ID"] = sub["ID"].map(ints)
    want = list(dict.fromkeys(sub["ID"]))
    algo = cj["algo"]
    kw = dict(n_iter=4) if algo != "scipy_minimize" else {}
    if True:
        try:
            with core.quiet():
                ips = load_model(env, "logistic_diag_noise").personalize(env["Data"].from_dataframe(sub), algo, seed=0, progress_bar=False, **kw)
            if list(ips._indices) != want or any(type(a) is not type(b) for a, b in zip(ips._indices, want)):
                chk.impl_failure(cj, f"integer identifiers {want} come back as {ips._indices}")
            out = "accepted"
        except Exception as e:  # noqa
            out = "refused:" + type(e).__name__
        chk.case(("idtype", algo, tuple(subjects)), nontrivial=False, tags={"part": "integer identifiers", "integer_identifiers": out})


def run_cases(env, chk, cases):
    global _ENV16
    if _ENV16 is None:
        from .c16_indparams import _imports as imp16
        _ENV16 = imp16()
    lines, pending = [], []
    for case in cases:
        if chk.time_left() < 60:
            chk.note("time budget reached: remaining cases skipped")
            break
        if case["algo"] == "scipy_minimize":
            run_scipy_case(env, chk, case, lines, pending)
        elif case["algo"] == "scalings":
            try:
                run_scal_case(env, chk, case, lines, pending)
            except Exception as e:  # noqa
                chk.impl_failure(case_json(case), f"scalings case could not be evaluated on the implementation: {type(e).__name__}: {e}")
        else:
            run_mcmc_case(env, chk, case, lines, pending)
    out = chk.model(lines)
    compare_mcmc(env, chk, pending, out)


def selection_part(env, chk, rng, n_cases):
    """The selection rule of mode_posterior / mean_posterior on histories given directly to the real algorithm objects: exact
    ties (first wins) and NEAR ties (losses that differ by one to a few hundred ulps: the strictly lower one wins, wherever it is)."""
    import torch
    from leaspy.algo import AlgorithmSettings, algorithm_factory
    with core.quiet():
        mode = algorithm_factory(AlgorithmSettings("mode_posterior", n_iter=10, seed=0, progress_bar=False))
        mean = algorithm_factory(AlgorithmSettings("mean_posterior", n_iter=10, seed=0, progress_bar=False))
    for c in range(n_cases):
        K, n = rng.randrange(2, 12), rng.randrange(1, 5)
        if c % 10 == 7:
            K = rng.choice([1, 1, 400, 1000])          # a single kept draw; long chains (summation envelope of the mean)
        if c % 10 == 3:
            n = rng.choice([17, 40])
        dt = rng.choice([torch.float32, torch.float32, torch.float64])
        scale = rng.choice([1.0, 30.0, 1e3, 1e-2, -50.0])
        att = torch.tensor([[scale * rng.uniform(0.5, 1.5) for _ in range(n)] for _ in range(K)], dtype=dt)
        reg = torch.tensor([[rng.uniform(0.0, 3.0) for _ in range(n)] for _ in range(K)], dtype=dt)
        kind = rng.choice(["plain", "exact-tie", "near-tie", "near-tie", "near-tie-late", "infinite-losses", "signed-zeros"])
        if kind == "infinite-losses" and K >= 2:
            # draws whose loss is +inf (an overflowing attachment) are never the lowest-loss draw unless every draw is
            for i in range(n):
                for k in rng.sample(range(K), rng.randrange(1, K + 1) if rng.random() < 0.2 else rng.randrange(1, K)):
                    att[k, i] = float("inf")
        elif kind == "signed-zeros" and K >= 2:
            for i in range(n):
                att[:, i] = abs(att[:, i]) + 1.0
                k0, k1 = rng.sample(range(K), 2)
                att[k0, i], reg[k0, i] = 0.0, -0.0
                att[k1, i], reg[k1, i] = -0.0, 0.0
        elif kind != "plain" and K >= 2:
            for i in range(n):
                loss = att[:, i] + reg[:, i]
                k0 = int(torch.argmin(loss))
                k1 = rng.choice([k for k in range(K) if k != k0])
                if kind == "exact-tie":
                    att[k1, i], reg[k1, i] = att[k0, i], reg[k0, i]
                else:
                    # another draw whose loss is larger by a few ulps .. 1e-6 relative (strictly larger in the dtype used)
                    target = loss[k0]
                    steps = rng.choice([1, 2, 7, 40, 300]) if dt == torch.float32 else rng.choice([1, 5, 10 ** 3, 10 ** 6, 10 ** 9])
                    up = target
                    for _ in range(min(steps, 400)):
                        up = torch.nextafter(up, torch.tensor(float("inf"), dtype=dt))
                    if steps > 400:
                        up = target + abs(target) * steps * torch.finfo(dt).eps
                    att[k1, i] = up
                    reg[k1, i] = 0.0
                    if kind == "near-tie-late" and k1 < k0:
                        # make the near-minimum come first and the true minimum later
                        pass
        vals = {"tau": torch.tensor([[[rng.uniform(50, 90)] for _ in range(n)] for _ in range(K)], dtype=torch.float32),
                "sources": torch.tensor([[[rng.uniform(-2, 2), rng.uniform(-2, 2)] for _ in range(n)] for _ in range(K)], dtype=torch.float32)}
        if c % 4 == 1:
            del vals["sources"]                        # a model without sources
        if c % 4 == 2:
            vals["tau"] = vals["tau"].to(torch.float64)  # joint models hold float64 draws
        cj = {"kind": "selection", "K": K, "n": n, "dtype": str(dt), "tie": kind, "att": att.tolist(), "reg": reg.tolist(),
              "tau": vals["tau"].reshape(K, n).tolist()}
        try:
            got = mode._compute_individual_parameters_from_samples_torch(vals, att.clone(), reg.clone())
            gmean = mean._compute_individual_parameters_from_samples_torch(vals, att.clone(), reg.clone())
        except Exception as e:  # noqa
            chk.impl_failure(cj, f"selection raised {type(e).__name__}: {str(e)[:120]}")
            continue
        loss = att + 1.0 * reg
        for i in range(n):
            col = loss[:, i].tolist()
            first = col.index(min(col))
            for nm in vals:
                if not torch.equal(got[nm][i], vals[nm][first, i]):
                    others = [k for k in range(K) if torch.equal(got[nm][i], vals[nm][k, i])]
                    chk.impl_failure(cj, f"mode: individual #{i} gets draw {others[:1] or '?'} (loss {col[others[0]] if others else '?'!r}) "
                                         f"instead of the first lowest-loss draw {first} (loss {col[first]!r}) [{kind}]")
                    break
        for nm in vals:
            want = vals[nm].double().mean(dim=0)
            if gmean[nm].dtype != vals[nm].dtype or tuple(gmean[nm].shape) != tuple(vals[nm].shape[1:]):
                chk.impl_failure(cj, f"mean: estimate of '{nm}' has dtype / shape {gmean[nm].dtype} / {tuple(gmean[nm].shape)}")
            elif not bool(((gmean[nm].double() - want).abs() <= (K + 1) * 2.0 ** -24 * vals[nm].double().abs().max(dim=0).values + 1e-300).all()):
                chk.impl_failure(cj, f"mean: estimate of '{nm}' is not the mean of the {K} draws")
        chk.case(("selection", c, kind, K, n, str(dt)), nontrivial=(kind != "plain"), tags={"part": "selection", "tie": kind})


def run(chk: core.Check):
    env = _imports()
    selection_part(env, chk, chk.rng.__class__(chk.rng.getrandbits(64)), 400 if chk.tier == "thorough" else 80)
    chk.rule = ("cohorts of 1-8 subjects drawn from the 17 example subjects (visits sub-sampled, 30% single-visit subjects, missing "
                "cells injected, identifiers renamed to unsorted numeric-looking / unicode strings), every stored continuous and joint "
                "model of tests/_data/model_parameters/from_fit, mean_posterior / mode_posterior with n_iter in 1..30, burn-in 0..n-1 "
                "(count or fraction), annealing on/off, random seed; the chain is recorded per iteration and the estimate recomputed by "
                "the Lean model. scipy_minimize (1-3 subjects): objective at start / returned point recomputed on a fresh state clone. "
                "Non-trivial: at least one burn-in iteration, at least two kept draws with different losses (MCMC); at least one "
                "individual strictly improved (scipy). Prior-standardized coordinates: the real _AffineScalings1D built (a) by hand from "
                "0-4 variables of dimension 0-3 under unicode / numeric-looking names, dyadic loc n/8 and scale +-2^k (float32 exact), 7% with "
                "a zero scale, 23% with 0-d / 2-d / unequal loc and scale, through the constructor or through from_latent_variable, (b) by "
                "from_state on the stored models (with / without sources, joint, binary); mappings: prior modes, well-shaped (shuffled, extra "
                "entries), a variable missing / too long / too short / empty; vectors of the right and of wrong lengths; plus every recorded "
                "scipy run (x0, res.x, estimate). Non-trivial (scalings): construction succeeds, at least two variables, a well-shaped mapping "
                "or a vector of the right length. Distinct by full configuration. A further stream runs the same algorithms through the other "
                "forms the API accepts: table rows not grouped by individual, ages shifted by -30..+200 years, a visit without any value kept "
                "(drop_full_nan=False), DataFrame / Data / Dataset input, algorithm given by name / AlgorithmName / AlgorithmSettings object / "
                "settings file / algorithm_factory(...).run (one algorithm object run on one or two other cohorts first), a model object shared by all cases / re-calibrated just before / loaded with "
                "hand-rescaled tau_std, xi_std, noise_std, the whole example cohort, seed 0 / None, progress bar, sampler tuning "
                "(history length 1-5), chains of up to 130 iterations, burn-in as a count, a fraction (13 values) or both, a wider list of "
                "optimiser methods and budgets, binary models and a mixture model calibrated in the harness (F121); the burn-in length "
                "is always derived from the settings, never read back from the algorithm. Plus: n_jobs=2 against the in-process run, integer "
                "identifiers (refused or returned unchanged), selection rule with infinite losses, signed zeros, one kept draw, 400-1000 draws, "
                "17-40 individuals, float64 draws.")
    rng = chk.rng
    cases = list(core.load_corpus(PROP))
    thorough = chk.tier == "thorough"
    models = CONTINUOUS + JOINT
    for m in models:
        for algo in ("mean_posterior", "mode_posterior"):
            for _ in range(20 if thorough else 4):
                cases.append(gen_case(env, rng, algo, m))
    scipy_models = models if thorough else rng.sample(CONTINUOUS, 5) + rng.sample(JOINT, 3)
    for m in scipy_models:
        for _ in range(4 if thorough else 1):
            cases.append(gen_case(env, rng, "scipy_minimize", m))
    if thorough:
        for algo in ("mean_posterior", "mode_posterior"):
            cases.append(gen_case(env, rng, algo, "logistic_binary"))
    # prior-standardized coordinates: generated last, so that the cases above are the same as before for a given seed
    import random as _random
    rng2 = _random.Random(rng.getrandbits(64))
    scal_cases = [gen_scal_case(env, rng2, "hand") for _ in range(1500 if thorough else 200)]
    scal_cases += [gen_scal_case(env, rng2, "state") for _ in range(150 if thorough else 24)]
    cases += scal_cases
    # the same mechanisms through the other entry points / input forms / model objects / settings (own rng, generated last)
    rng3 = _random.Random(rng.getrandbits(64))
    wide = []
    for m in models + [MIXTURE, "logistic_binary", "shared_speed_logistic_binary"]:
        for algo in ("mean_posterior", "mode_posterior"):
            for _ in range(6 if thorough else 1):
                wide.append(gen_wide_case(env, rng3, algo, m))
    for m in (models + [MIXTURE, "logistic_binary"]) if thorough else rng3.sample(CONTINUOUS, 5) + rng3.sample(JOINT, 2) + [MIXTURE]:
        for _ in range(3 if thorough else 1):
            wide.append(gen_wide_case(env, rng3, "scipy_minimize", m))
    cases += wide
    run_cases(env, chk, cases)
    if any(c["model"] == MIXTURE and c["algo"] != "scipy_minimize" for c in wide) and not env.get("_f121_seen") \
            and any(f.get("id") == "F121" and f.get("status") == "finding" for f in chk.findings):
        chk.note("finding F121 no longer reproduces")
    idtype_part(env, chk, rng3)
    if chk.time_left() > 60:
        pooled_part(env, chk, rng3)
    if "_tmp" in env:
        import shutil
        shutil.rmtree(env["_tmp"], ignore_errors=True)
    chk.exhaustive = False


def replay(chk: core.Check, payload):
    env = _imports()
    case = payload.get("case") or (payload.get("disagreements") or [{}])[0].get("case")
    if not case:
        chk.note("replay file has no case")
        return
    if case.get("kind") == "integer-identifiers":
        run_idtype(env, chk, case)
        return
    if case.get("n_jobs", 1) != 1 and case.get("algo") == "scipy_minimize":
        run_pooled(env, chk, case)
        return
    if case.get("kind") == "selection":
        import torch
        from leaspy.algo import AlgorithmSettings, algorithm_factory
        with core.quiet():
            mode = algorithm_factory(AlgorithmSettings("mode_posterior", n_iter=10, seed=0, progress_bar=False))
        dt = torch.float64 if "64" in case["dtype"] else torch.float32
        att, reg = torch.tensor(case["att"], dtype=dt), torch.tensor(case["reg"], dtype=dt)
        tau = torch.tensor(case["tau"], dtype=torch.float32)[:, :, None]
        got = mode._compute_individual_parameters_from_samples_torch({"tau": tau}, att.clone(), reg.clone())
        loss = att + 1.0 * reg
        for i in range(case["n"]):
            col = loss[:, i].tolist()
            first = col.index(min(col))
            if not torch.equal(got["tau"][i], tau[first, i]):
                chk.impl_failure(case, f"mode: individual #{i} does not get the first lowest-loss draw {first} (loss {col[first]!r})")
        chk.case(("selection-replay",), nontrivial=True)
        return
    run_cases(env, chk, [case])
