"""C17 — personalisation returns one aligned, finite, non-worsening estimate per subject.

Sampling-based algorithms: the real `model.personalize(data, "mean_posterior" | "mode_posterior", …)` is run with
call-through recorders on `McmcPersonalizeAlgorithm` (per-iteration realisations, attachment, regularity — recorded
independently of the code's own keep / burn-in decision).  `Model/Personalize.lean` recomputes, from the recorded chain,
  * the mean of the kept draws on exact rationals of the recorded floats (compared through the float32/float64 summation envelope),
  * the selected draw with the very float32 (float64 for joint models) additions and comparisons torch performs (compared exactly),
  * the container `from_pytorch(dataset.indices, estimates)` (compared exactly).
Optimisation-based algorithm (`scipy_minimize`): NOT modelled (scipy's Powell); the clause "never returns a point worse
than its start" is monitored on the real code: objective at the start point and at the returned point, recomputed on a fresh
per-individual clone of the model state, `f(ret) <= f(start) + ftol * (1 + |f(start)|)` with the algorithm's own ftol.
"""
from __future__ import annotations

import math
import struct
import warnings
from fractions import Fraction

from . import core
from .core import fmt_rat

PROP = "C17"
LEAN = dict(
    props="LeaspyVerif.Props.C17",
    driver="drivers/C17.lean",
    harness="c17_personalize.py",
    extra_modules=["LeaspyVerif.Model.Personalize", "LeaspyVerif.Model.IndParams",
                   "LeaspyVerif.Lemmas.IndParams", "LeaspyVerif.Lemmas.Personalize"],
    theorems=["kept_eq_drop", "kept_count", "mean_is_mean_of_kept", "mean_undefined_iff", "mean_ignores_burnin",
              "keptLoss_get", "mode_is_kept_draw", "mode_minimal", "mode_first_on_ties",
              "align_ids_order_shape", "align_empty_cohort", "align_duplicate_refused"],
    trusted_extra=[
        "PARTIAL: the optimiser clause (scipy_minimize never returns a worse point than its start) is monitored on the real "
        "code, not proved: scipy's Powell implementation is outside the model",
        "torch.argmin returns the first minimum on CPU for NaN-free input (assumed; compared on every recorded chain)",
        "float32 / float64 summation order of torch.mean is not modelled: exact rational mean compared through a (K+1)*eps*max|x| envelope",
        "Lean Float32 / Float addition and comparison are IEEE single / double (used to reproduce `attachments + regularities`)",
        "finiteness of the estimates is checked on the real code only",
    ],
    assumptions=[
        "burn-in strictly shorter than the run (n_burn_in_iter < n_iter): with nothing kept torch.stack raises, the mean is undefined "
        "(theorem mean_undefined_iff), the generators stay inside",
        "scipy_minimize runs with n_jobs=1 (in-process) so that the recorder sees every optimisation",
    ],
)

CONTINUOUS = ["logistic_scalar_noise", "logistic_diag_noise", "linear_diag_noise", "linear_scalar_noise",
              "univariate_logistic", "univariate_linear", "shared_speed_logistic_diag_noise",
              "shared_speed_logistic_scalar_noise", "logistic_diag_noise_custom", "logistic_diag_noise_fast_gibbs",
              "logistic_diag_noise_mh"]
JOINT = ["joint_diagonal", "joint_scalar", "joint_no_sources", "univariate_joint"]
NEW_IDS = ["zz", "1e3", "001", "b", "a", "10", "9", "Z", "é", "x y", "0", "-1", "NA", "S_2"]


def _imports():
    warnings.filterwarnings("ignore")
    import leaspy.models  # noqa: F401  (must precede leaspy.variables)
    import numpy as np
    import pandas as pd
    import torch
    from leaspy.io.data import Data, Dataset
    from leaspy.io.outputs import IndividualParameters
    from leaspy.models import BaseModel
    from leaspy.variables.specs import IndividualLatentVariable
    from leaspy.algo.personalize import mcmc as mcmc_mod
    from leaspy.algo.personalize import scipy_minimize as scipy_mod
    return dict(np=np, pd=pd, torch=torch, Data=Data, Dataset=Dataset, IP=IndividualParameters, BaseModel=BaseModel,
                ILV=IndividualLatentVariable, mcmc_mod=mcmc_mod, scipy_mod=scipy_mod, _pools={})


# ------------------------------------------------------------------ cohorts
def pool(env, kind):
    """The 17 example subjects of the test data (continuous / joint)."""
    if kind not in env["_pools"]:
        pd = env["pd"]
        d = core.REPO / "tests/_data/data_mock"
        if kind == "joint":
            df = pd.read_csv(d / "data_tiny_joint.csv", dtype={"ID": str}, sep=";")
        elif kind == "binary":
            df = pd.read_csv(d / "binary_data.csv", dtype={"ID": str})
        else:
            df = pd.read_csv(d / "data_tiny.csv", dtype={"ID": str})
        env["_pools"][kind] = df
    return env["_pools"][kind]


def gen_cohort(env, rng, kind, n_sub):
    df = pool(env, kind)
    subjects = list(dict.fromkeys(df.ID))
    chosen = rng.sample(subjects, n_sub)
    new_ids = rng.sample(NEW_IDS, n_sub)
    spec = []
    for s, nid in zip(chosen, new_ids):
        nv = int((df.ID == s).sum())
        if rng.random() < 0.3:
            visits = [rng.randrange(nv)]
        else:
            k = rng.randrange(1, nv + 1)
            visits = sorted(rng.sample(range(nv), k))
        nans = []
        if rng.random() < 0.5:
            for v in visits:
                for f in range(4):
                    if rng.random() < 0.2:
                        nans.append([v, f])
        spec.append([s, nid, visits, nans])
    return spec


def build_data(env, kind, univariate, spec):
    np, pd = env["np"], env["pd"]
    df = pool(env, kind)
    feats = [c for c in df.columns if c.startswith("Y")]
    parts = []
    for s, nid, visits, nans in spec:
        sub = df[df.ID == s].reset_index(drop=True).iloc[visits].copy()
        sub = sub.reset_index(drop=True)
        sub[feats] = sub[feats].astype(float)
        use = feats[:1] if univariate else feats
        for v, f in nans:
            if f < len(use) and v in visits:
                sub.loc[visits.index(v), use[f]] = np.nan
        # keep at least one observed value per subject
        if sub[use].isna().all().all():
            sub.loc[0, use[0]] = float(df[df.ID == s].reset_index(drop=True).iloc[visits[0]][use[0]])
        sub["ID"] = nid
        parts.append(sub)
    out = pd.concat(parts, ignore_index=True)
    if univariate:
        out = out[[c for c in out.columns if not c.startswith("Y") or c == feats[0]]]
    kw = {"data_type": "joint"} if kind == "joint" else {}
    return env["Data"].from_dataframe(out, **kw), [x[1] for x in spec]


def load_model(env, name):
    return env["BaseModel"].load(str(core.REPO / f"tests/_data/model_parameters/from_fit/{name}.json"))


def expected_shapes(env, model):
    out = {}
    for n, var in model.dag.sorted_variables_by_type[env["ILV"]].items():
        out[n] = tuple(var.get_prior_shape(model.dag))
    return out


# ------------------------------------------------------------------ recorders
class ChainRecorder:
    """Call-through recorders on the real MCMC personalisation class (restored on exit)."""

    def __init__(self, env):
        self.env = env
        self.cls = env["mcmc_mod"].McmcPersonalizeAlgorithm
        self.chain = []
        self.state = None
        self.nburn = None
        self.fed = None
        self.est = None
        self.ids_dataset = None

    def __enter__(self):
        cls, rec, ILV = self.cls, self, self.env["ILV"]
        self._had = {k: cls.__dict__.get(k) for k in ("_initialize_algo", "_update_temperature")}
        orig_init = cls._initialize_algo
        orig_upd = cls._update_temperature

        def init(algo, model, dataset):
            st = orig_init(algo, model, dataset)
            rec.state = st
            rec.nburn = algo.algo_parameters["n_burn_in_iter"]
            rec.n_iter = algo.algo_parameters["n_iter"]
            rec.ids_dataset = list(dataset.indices)
            rec.names = sorted(st.dag.sorted_variables_by_type[ILV])
            # wrap this instance's estimator to see what it is fed and what it returns
            orig_est = algo._compute_individual_parameters_from_samples_torch

            def est(values, attachments, regularities):
                rec.fed = (len(attachments), {k: tuple(v.shape) for k, v in values.items()})
                out = orig_est(values, attachments, regularities)
                rec.est = {k: v.detach().clone() for k, v in out.items()}
                return out

            algo._compute_individual_parameters_from_samples_torch = est
            return st

        def upd(algo):
            st = rec.state
            rec.chain.append(dict(k=algo.current_iteration,
                                  vals={n: st[n].detach().clone() for n in rec.names},
                                  att=st.get_tensor_value("nll_attach_ind").detach().clone(),
                                  reg=st.get_tensor_value("nll_regul_ind_sum_ind").detach().clone()))
            return orig_upd(algo)

        cls._initialize_algo = init
        cls._update_temperature = upd
        return self

    def __exit__(self, *a):
        for k, v in self._had.items():
            if v is None:
                delattr(self.cls, k)
            else:
                setattr(self.cls, k, v)


class MinimizeRecorder:
    def __init__(self, env):
        self.mod = env["scipy_mod"]
        self.calls = []

    def __enter__(self):
        self.orig = self.mod.minimize
        rec = self

        def minimize(fun, x0, args=(), **kw):
            x0c = x0.copy()
            res = rec.orig(fun, x0=x0, args=args, **kw)
            state, scaling = args
            rec.calls.append(dict(x0=x0c, x=res.x.copy(), fun=float(res.fun), scaling=scaling,
                                  method=kw.get("method"), ftol=(kw.get("options") or {}).get("ftol"),
                                  gtol=(kw.get("options") or {}).get("gtol"), success=bool(res.success)))
            return res

        self.mod.minimize = minimize
        return self

    def __exit__(self, *a):
        self.mod.minimize = self.orig


# ------------------------------------------------------------------ helpers
def f32bits(x) -> int:
    return struct.unpack("<I", struct.pack("<f", float(x)))[0]


def f64bits(x) -> int:
    return struct.unpack("<Q", struct.pack("<d", float(x)))[0]


def hx(s):
    return s.encode("utf-8").hex()


def canon_ips(ips):
    from .c16_indparams import canon_container, _imports as imp16
    return canon_container(_ENV16, ips)


_ENV16 = None


def case_json(case):
    return {k: v for k, v in case.items() if not k.startswith("_")}


def settings_kwargs(case):
    kw = dict(seed=case["seed"], progress_bar=False)
    if case["algo"] == "scipy_minimize":
        kw.update(use_jacobian=case["use_jacobian"], n_jobs=1)
        if case.get("custom"):
            kw["custom_scipy_minimize_params"] = case["custom"]
        return kw
    kw.update(n_iter=case["n_iter"])
    if case["burn"][0] == "count":
        kw.update(n_burn_in_iter=case["burn"][1], n_burn_in_iter_frac=None)
    else:
        kw.update(n_burn_in_iter_frac=case["burn"][1])
    if case["annealing"]:
        kw.update(annealing=dict(do_annealing=True, initial_temperature=case["annealing"][0], n_plateau=case["annealing"][1],
                                 n_iter=None, n_iter_frac=0.5))
    return kw


def basic_output_checks(env, chk, cj, model, ips, input_ids):
    """Clause 1: one finite estimate per input individual, keyed by the input identifiers in input order, shaped as the model expects."""
    ok = True
    if not isinstance(ips, env["IP"]):
        chk.impl_failure(cj, f"personalize returned {type(ips).__name__}")
        return False
    if ips._indices != input_ids:
        chk.impl_failure(cj, f"identifiers of the result {ips._indices} != input identifiers in input order {input_ids}")
        ok = False
    if sorted(ips._individual_parameters) != sorted(input_ids):
        chk.impl_failure(cj, "result does not hold exactly one entry per input individual")
        ok = False
    exp = expected_shapes(env, model)
    got = ips._parameters_shape or {}
    if {k: tuple(v) for k, v in got.items()} != exp and input_ids:
        chk.impl_failure(cj, f"shapes {got} != shapes the model expects {exp}")
        ok = False
    for i, d in ips._individual_parameters.items():
        for n, v in d.items():
            vs = v if isinstance(v, list) else [v]
            if not all(isinstance(x, (int, float)) and math.isfinite(x) for x in vs):
                chk.impl_failure(cj, f"non-finite estimate for id {i!r} parameter {n!r}: {v}")
                ok = False
    return ok


# ------------------------------------------------------------------ MCMC cases
def run_mcmc_case(env, chk, case, lines, pending):
    torch, np = env["torch"], env["np"]
    cj = case_json(case)
    model = load_model(env, case["model"])
    data, input_ids = build_data(env, case["kind"], case["model"].startswith("univariate"), case["cohort"])
    try:
        with ChainRecorder(env) as rec, core.quiet():
            ips = model.personalize(data, case["algo"], **settings_kwargs(case))
    except Exception as e:  # noqa
        chk.impl_failure(cj, f"personalize raised {type(e).__name__}: {e}")
        chk.case(("mcmc-exc", str(cj)), nontrivial=False, tags={"algo": case["algo"], "outcome": "exception"})
        return
    basic_output_checks(env, chk, cj, model, ips, input_ids)
    n_iter, nb = case["n_iter"], rec.nburn
    chain = rec.chain
    if len(chain) != n_iter or [c["k"] for c in chain] != list(range(1, n_iter + 1)):
        chk.impl_failure(cj, f"{len(chain)} iterations recorded for n_iter={n_iter}")
        return
    K = n_iter - nb
    if rec.fed is None or rec.fed[0] != K:
        chk.impl_failure(cj, f"{None if rec.fed is None else rec.fed[0]} draws kept, the property demands n_iter - n_burn_in = {K}")
    if rec.ids_dataset != input_ids:
        chk.impl_failure(cj, f"dataset identifiers {rec.ids_dataset} != input order {input_ids}")
    n_ind = len(input_ids)
    names = rec.names
    est = rec.est or {}
    kept = chain[nb:]
    ties = 0
    # ---- property predicate, independent of the Lean model
    if case["algo"] == "mean_posterior":
        for n in names:
            stack = torch.stack([c["vals"][n] for c in kept]).double().numpy()
            want = stack.mean(axis=0)
            eps = 2.0 ** -24 if chain[0]["vals"][n].dtype == torch.float32 else 2.0 ** -53
            tol = (K + 1) * eps * (np.abs(stack).max(axis=0)) + 1e-300
            got = est.get(n)
            if got is None or tuple(got.shape) != want.shape or not bool((np.abs(got.double().numpy() - want) <= tol).all()):
                chk.impl_failure(cj, f"estimate of '{n}' is not the mean of the {K} draws kept after burn-in (n_burn_in={nb})")
    else:
        loss = torch.stack([c["att"] + 1.0 * c["reg"] for c in kept])       # (K, n_ind), the dtype torch uses
        for i in range(n_ind):
            col = loss[:, i].tolist()
            m = min(col)
            first = col.index(m)
            ties += int(col.count(m) > 1)
            for n in names:
                got = est.get(n)
                want = kept[first]["vals"][n][i]
                if got is None or not torch.equal(got[i], want):
                    in_kept = got is not None and any(torch.equal(got[i], c["vals"][n][i]) for c in kept)
                    chk.impl_failure(cj, f"individual #{i}: estimate of '{n}' is not the first lowest-loss kept draw "
                                         f"(iteration {nb + first + 1}); it is {'another kept draw' if in_kept else 'not a kept draw'}")
                    break
    # ---- what from_pytorch made of the estimates must be what personalize returned
    for n in names:
        if n in est:
            for i, idx in enumerate(input_ids):
                got = ips._individual_parameters.get(idx, {}).get(n)
                if got != est[n][i].tolist():
                    chk.impl_failure(cj, f"id {idx!r} does not carry row {i} of the estimates of '{n}'")
                    break
    # ---- model requests
    if case["algo"] == "mean_posterior":
        series, keys = [], []
        for n in names:
            dim = chain[0]["vals"][n].shape[1] if chain[0]["vals"][n].ndim > 1 else 1
            for i in range(n_ind):
                for d in range(dim):
                    series.append(",".join(fmt_rat(Fraction(float(c["vals"][n].reshape(n_ind, -1)[i, d]))) for c in chain))
                    keys.append((n, i, d))
        lines.append(f"mean nburn={nb} x={';'.join(series)}")
        pending.append(("mean", case, dict(keys=keys, est=est, K=K, chain=chain, nb=nb, n_ind=n_ind)))
    else:
        a0, r0 = chain[0]["att"], chain[0]["reg"]
        dt = torch.result_type(a0, r0)
        bits = f32bits if dt == torch.float32 else f64bits
        att = ";".join(",".join(str(bits(c["att"].to(dt)[i])) for c in chain) for i in range(n_ind))
        reg = ";".join(",".join(str(bits(c["reg"].to(dt)[i])) for c in chain) for i in range(n_ind))
        lines.append(f"mode nburn={nb} dtype={'32' if dt == torch.float32 else '64'} att={att} reg={reg}")
        pending.append(("mode", case, dict(est=est, K=K, chain=chain, nb=nb, n_ind=n_ind, names=names)))
    t = "&".join(f"x{hx(n)}~" + ";".join(":".join(fmt_rat(Fraction(float(x))) for x in est[n].reshape(n_ind, -1)[i].tolist())
                                         for i in range(n_ind)) for n in est)
    lines.append(f"align ids={','.join(hx(i) for i in rec.ids_dataset)} t={t}")
    pending.append(("align", case, dict(ips=canon_ips(ips))))
    distinct_losses = len({float((c["att"] + c["reg"]).sum()) for c in kept}) > 1
    chk.case(("mcmc", str(cj)), nontrivial=(nb >= 1 and K >= 2 and distinct_losses),
             sample=cj if len(chk.samples) < 2 else None,
             tags={"algo": case["algo"], "model": case["model"], "n_subjects": n_ind, "n_iter": n_iter, "n_burn": nb, "kept": K,
                   "annealing": bool(case["annealing"]), "single_visit_subjects": sum(len(s[2]) == 1 for s in case["cohort"]),
                   "missing_cells": sum(len(s[3]) for s in case["cohort"]) > 0, "outcome": "ok"})
    if ties:
        chk.tag("mode_individuals_with_tied_minimum", ties, 1)


def compare_mcmc(env, chk, pending, out):
    np = env["np"]
    for (kind, case, info), resp in zip(pending, out):
        cj = case_json(case)
        if kind == "mean":
            try:
                parts = dict(p.split("=", 1) for p in resp.split(" "))
                ms = [Fraction(x) for x in parts["m"].split(",")]
                k = int(parts["kept"])
            except Exception:
                chk.disagree(cj, "?", resp, "unparsable model response (mean)")
                continue
            if k != info["K"]:
                chk.disagree(cj, info["K"], k, "number of kept draws")
            for (n, i, d), m in zip(info["keys"], ms):
                got_t = info["est"].get(n)
                if got_t is None:
                    chk.disagree(cj, None, str(m), f"no estimate for '{n}'")
                    break
                got = Fraction(float(got_t.reshape(info["n_ind"], -1)[i, d]))
                xs = [abs(float(c["vals"][n].reshape(info["n_ind"], -1)[i, d])) for c in info["chain"][info["nb"]:]]
                eps = Fraction(1, 2 ** 24) if got_t.dtype == env["torch"].float32 else Fraction(1, 2 ** 53)
                tol = (info["K"] + 1) * eps * Fraction(max(xs)) + Fraction(1, 10 ** 300)
                if abs(got - m) > tol:
                    chk.disagree(cj, float(got), float(m), f"mean of kept draws of '{n}' individual #{i} coordinate {d} (summation envelope {float(tol):.3g})")
                    break
        elif kind == "mode":
            try:
                parts = dict(p.split("=", 1) for p in resp.split(" "))
                idx = [int(x) for x in parts["idx"].split(",")]
                k = int(parts["kept"])
            except Exception:
                chk.disagree(cj, "?", resp, "unparsable model response (mode)")
                continue
            if k != info["K"]:
                chk.disagree(cj, info["K"], k, "number of kept draws")
            for i, j in enumerate(idx):
                for n in info["names"]:
                    want = info["chain"][info["nb"] + j]["vals"][n][i]
                    got = info["est"].get(n)
                    if got is None or not env["torch"].equal(got[i], want):
                        chk.disagree(cj, None if got is None else got[i].tolist(), want.tolist(),
                                     f"mode: individual #{i} '{n}': the model selects kept draw {j} (iteration {info['nb'] + j + 1})")
                        break
        else:
            if resp != info["ips"]:
                chk.disagree(cj, info["ips"], resp, "container built from (dataset.indices, estimates)")


# ------------------------------------------------------------------ optimiser cases (monitored, not modelled)
def objective(env, model, dataset_i, ips_i):
    """nll_attach + nll_regul_ind_sum for one individual, on a fresh clone of the model state."""
    torch = env["torch"]
    st = model.state.clone(disable_auto_fork=True)
    model.put_data_variables(st, dataset_i)
    for n, v in ips_i.items():
        st[n] = torch.as_tensor(v, dtype=torch.float32).reshape(1, -1)
    return float((st["nll_attach"] + 1.0 * st["nll_regul_ind_sum"]).item())


def run_scipy_case(env, chk, case):
    torch = env["torch"]
    cj = case_json(case)
    model = load_model(env, case["model"])
    data, input_ids = build_data(env, case["kind"], case["model"].startswith("univariate"), case["cohort"])
    try:
        with MinimizeRecorder(env) as rec, core.quiet():
            ips = model.personalize(data, "scipy_minimize", **settings_kwargs(case))
    except Exception as e:  # noqa
        chk.impl_failure(cj, f"personalize raised {type(e).__name__}: {e}")
        chk.case(("scipy-exc", str(cj)), nontrivial=False, tags={"algo": "scipy_minimize", "outcome": "exception"})
        return
    ok = basic_output_checks(env, chk, cj, model, ips, input_ids)
    improved = 0
    if len(rec.calls) != len(input_ids):
        chk.impl_failure(cj, f"{len(rec.calls)} optimisations for {len(input_ids)} individuals")
    elif ok:
        for i, (idx, call) in enumerate(zip(input_ids, rec.calls)):
            ds_i = env["Dataset"](data[[idx]], no_warning=True)
            start = {n: v.detach().reshape(-1).tolist() for n, v in call["scaling"].unscaling(torch.as_tensor(call["x0"])).items()}
            ret_point = {n: v.detach().reshape(-1).tolist() for n, v in call["scaling"].unscaling(torch.as_tensor(call["x"])).items()}
            out_i = {n: (v if isinstance(v, list) else [v]) for n, v in ips._individual_parameters[idx].items()}
            if any([float(a) for a in out_i[n]] != [float(a) for a in ret_point[n]] for n in out_i):
                chk.impl_failure(cj, f"id {idx!r}: the estimate returned is not the point the optimiser returned")
                continue
            with core.quiet():
                f_start = objective(env, model, ds_i, start)
                f_ret = objective(env, model, ds_i, out_i)
            ftol = call["ftol"] if call["ftol"] is not None else 1e-4
            if not (math.isfinite(f_start) and math.isfinite(f_ret)):
                chk.impl_failure(cj, f"id {idx!r}: non-finite objective (start {f_start}, returned {f_ret})")
            elif f_ret > f_start + ftol * (1 + abs(f_start)):
                chk.impl_failure(cj, f"id {idx!r}: objective at the returned point {f_ret!r} is worse than at the start point {f_start!r} "
                                     f"(tolerance ftol={ftol} * (1+|f|), method {call['method']})")
            improved += int(f_ret < f_start)
            chk.tag("optimiser_method", call["method"])
    chk.case(("scipy", str(cj)), nontrivial=improved > 0, sample=cj if len(chk.samples) < 3 else None,
             tags={"algo": "scipy_minimize", "model": case["model"], "n_subjects": len(input_ids),
                   "single_visit_subjects": sum(len(s[2]) == 1 for s in case["cohort"]),
                   "missing_cells": sum(len(s[3]) for s in case["cohort"]) > 0, "outcome": "ok"})


# ------------------------------------------------------------------ generation
def gen_case(env, rng, algo, model_name):
    kind = "joint" if "joint" in model_name else ("binary" if "binary" in model_name else "continuous")
    n_sub = rng.choice([1, 1, 2, 3, 4, 5, 6, 8]) if algo != "scipy_minimize" else rng.choice([1, 2, 3])
    for _ in range(20):
        cohort = gen_cohort(env, rng, kind, n_sub)
        try:   # the data layer refuses some cohorts (e.g. a joint cohort without any observed event): not this property's concern
            with core.quiet():
                build_data(env, kind, model_name.startswith("univariate"), cohort)
            break
        except Exception:  # noqa
            continue
    case = dict(algo=algo, model=model_name, kind=kind, cohort=cohort, seed=rng.randrange(10 ** 6))
    if algo == "scipy_minimize":
        case["use_jacobian"] = rng.random() < 0.3
        # optimiser settings that stop before convergence (a few iterations only): the returned point is then not a minimum,
        # but it must still be the optimiser's point and not be worse than the start
        case["custom"] = rng.choice([None, None, {"method": "Powell", "options": {"maxiter": 1}},
                                     {"method": "Nelder-Mead", "options": {"maxiter": 3}},
                                     {"method": "Powell", "options": {"maxiter": 2, "xtol": 1e-2, "ftol": 1e-2}}])
        if case["custom"]:
            case["use_jacobian"] = False
        return case
    n_iter = rng.choice([1, 2, 3, 5, 8, 12, 20, 30])
    case["n_iter"] = n_iter
    if rng.random() < 0.6:
        case["burn"] = ["count", rng.randrange(0, n_iter)]
    else:
        fr = rng.choice([0.0, 0.1, 0.25, 0.5, 0.75, 0.9])
        case["burn"] = ["frac", fr]
    plateau = rng.choice([2, 3])
    case["annealing"] = [rng.choice([2.0, 5.0, 10.0]), plateau] if (rng.random() < 0.4 and int(0.5 * n_iter) >= plateau - 1) else None
    return case


def run_cases(env, chk, cases):
    global _ENV16
    if _ENV16 is None:
        from .c16_indparams import _imports as imp16
        _ENV16 = imp16()
    lines, pending = [], []
    for case in cases:
        if chk.time_left() < 60:
            chk.note("time budget reached: remaining cases skipped")
            break
        if case["algo"] == "scipy_minimize":
            run_scipy_case(env, chk, case)
        else:
            run_mcmc_case(env, chk, case, lines, pending)
    out = chk.model(lines)
    compare_mcmc(env, chk, pending, out)


def run(chk: core.Check):
    env = _imports()
    chk.rule = ("cohorts of 1-8 subjects drawn from the 17 example subjects (visits sub-sampled, 30% single-visit subjects, missing "
                "cells injected, identifiers renamed to unsorted numeric-looking / unicode strings), every stored continuous and joint "
                "model of tests/_data/model_parameters/from_fit, mean_posterior / mode_posterior with n_iter in 1..30, burn-in 0..n-1 "
                "(count or fraction), annealing on/off, random seed; the chain is recorded per iteration and the estimate recomputed by "
                "the Lean model. scipy_minimize (1-3 subjects): objective at start / returned point recomputed on a fresh state clone. "
                "Non-trivial: at least one burn-in iteration, at least two kept draws with different losses (MCMC); at least one "
                "individual strictly improved (scipy). Distinct by full configuration.")
    rng = chk.rng
    cases = list(core.load_corpus(PROP))
    thorough = chk.tier == "thorough"
    models = CONTINUOUS + JOINT
    for m in models:
        for algo in ("mean_posterior", "mode_posterior"):
            for _ in range(20 if thorough else 4):
                cases.append(gen_case(env, rng, algo, m))
    scipy_models = models if thorough else rng.sample(CONTINUOUS, 5) + rng.sample(JOINT, 3)
    for m in scipy_models:
        for _ in range(4 if thorough else 1):
            cases.append(gen_case(env, rng, "scipy_minimize", m))
    if thorough:
        for algo in ("mean_posterior", "mode_posterior"):
            cases.append(gen_case(env, rng, algo, "logistic_binary"))
    run_cases(env, chk, cases)
    chk.exhaustive = False


def replay(chk: core.Check, payload):
    env = _imports()
    case = payload.get("case") or (payload.get("disagreements") or [{}])[0].get("case")
    if not case:
        chk.note("replay file has no case")
        return
    run_cases(env, chk, [case])
